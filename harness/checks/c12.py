"""C12  deduplicate: one in-flight execution per key, shared by all callers.

A case is a small real asynq program: a few @deduplicate() functions (module level, methods, staticmethods) with
generated signatures, a pool of scripted bodies (block on a harness batch once or several times, call themselves or
other keys from inside the running body, dirty(), await / synchronously evaluate the private task they got, catch a
failing dependency = resumed by throw(), return or raise) and a few concurrent "actor" tasks that issue .asynq() /
.dirty() calls with generated spellings (positional / keyword / default / keyword-only / positional-only / *args /
**kwargs, from the main thread or from helper threads) in the same yield, after one or more flushes, after completion,
failure, dirty().

Everything the program does is logged in order: every call with the identity token of the task it returned and whether
that object is new, every start (with what the body actually bound) / resume / suspend of a body, every completion (with
how the BODY ended, written by the body itself), what every reader of a task RECEIVED (`await`: the value an awaiting actor
was sent / the error it was thrown, what a completion subscriber reads, what .value() on a driving thread returns),
every `.asynq()` issued in asyncio mode (`aioCall`: a coroutine, never a task), every dirty, and
len(DeduplicateDecorator.tasks) after each.  Before anything runs the DECORATION PHASE is observed: the keygetter every
real decorated function carries is applied to probe arguments (`kg` header items) and compared with the keygetter the
model's decoration phase hands to that function.  The Lean model (AsynqModel.Lib.Dedup: get_args_tuple as
written in qcore + the table operations of DeduplicateDecorator) replays the same operations (correspondence) and the
Lean observer `Dedup.spec` (the statement of C12 over bindings, proved of the model for ALL histories whose calls /
dirty() satisfy the per-call condition `callOk`, see ASSUMPTIONS) judges the implementation's observations on their own.

The default key is known to conflate different calls in three situations; each is modelled as the code is, has a
machine-checked counterexample and a clause name of its own (stable signature):
  varargs-kwonly       *args + keyword-only parameters                                  (C12_key_normal_counterexample)
  posonly-varkw        positional-only parameters + **kwargs, keyword named like one    (C12_key_posonly_counterexample)
  varargs-varkw-pair   *args + **kwargs, an extra positional is a ("name", value) tuple (C12_key_pair_counterexample)

Round 3 dimensions: helper threads have a LIFETIME (`retire` joins the thread of a slot and logs `threadEnd`; the next call
on that slot runs on a NEW Thread object = a new thread token, which usually gets the recycled OS ident and always the
same name as every other helper); calls whose task nobody awaits (`callx`: the entry stays in the table as leftover); a
second / third top-level computation in the same case (`more`); bodies that fail with a BaseException-only error;
argument values that are falsy / None / empty containers / objects with unusual __bool__, __repr__, value-__eq__ made fresh
for every call / large ints (equal, never identical) / ("p<n>", value) tuples; long *rest tuples; and the FAN-OUT family:
n = 20 .. 2200 (thorough: .. 8300) distinct keys in flight at the same time (blocked on a batch, or created and never
run), then repeated calls for the oldest / middle / newest keys - the number of simultaneous entries is a parameter.

Round 4 dimensions (interactions): the DECORATION PHASE is part of the case (`deco`: which deduplicate() object and which
asynq() object decorates which function, in which order - one object on several functions with different signatures; Lean:
DecoObj / decorateAll; the header carries `(deco n (fn obj)...)` and `(kg fn (args) (kw) (ok toks...))` probes of the REAL
keygetters, the driver runs the model's decoration phase and compares - Drv.Dedup.kgMismatch); EVENTS OF OTHER FEATURES are operations of the history (Lean: Op.outside - a no-op of the model, `unit` and
an unchanged len(tasks) for the observer): a debug / profiling option switched in mid-flight (13 options), a garbage collection,
asynq.mock.patch entered and left on the function, the synchronous call f(args), the function used in asyncio mode (await
f.asyncio(..) / f.asynq(..) inside a running fn.asyncio()) while asynq-mode calls of the same key are in flight; tasks that
were created by one thread are DRIVEN to completion by another (`drive`: .value() on thread th, at top level); bodies blocked
on asynq's own debug.sync() batch; bound wrappers kept and used again, copy.copy() of a bound wrapper, receiver instances
that are copy.copy() of each other; top-level activity between two computations (`top2`).

Round 5 dimensions (reset / abort / completion-from-outside paths; all judged by the existing model and observer): the
thread-local SCHEDULER of a thread is replaced (`sreset th 0`: asynq.scheduler.reset()) or emptied (`sreset th 1`:
get_scheduler().reset()) while calls of that thread are in flight - at top level on any thread, inside a computation on helper
threads (Lean: Op.outside 7 / 8; the key holds the thread, not its scheduler); a computation is ABORTED at its k-th top-level
batch flush by a raising on_before_batch_flush handler (`abort`: Exception or BaseException), the bodies it left blocked stay in
flight, the next computation (after a scheduler reset or without one) must get the very same tasks; a task nobody started is
COMPLETED FROM OUTSIDE (`extdone`: FutureBase.set_value / set_error on the creating or on another thread - an ordinary
Op.complete of the history).

Round 6 (audit 3, B6): the receiver class may have VALUE equality (`insteq`: frozen dataclass with a compare=False field /
own __eq__ + __hash__) with instances that are == without being the same object.  Which instances are == is an input of the
model (header item `(eqv (tok rep)...)`, Lean: Lib/DedupEq.lean stepE - the table is keyed up to ==, as a dict is); the
observer keeps receivers apart by identity ("different instances never share a task") and rejects the sharing under the
clause name equal-instances (OPEN FINDING dedup/fail:equal-instances@call, C12_equal_instances_counterexample)."""
import hashlib
import json
import random

PID = "C12"
LEVEL = "proof"
LEAN_MODULES = ["AsynqModel.Theorems.C12", "AsynqModel.Theorems.C12e", "AsynqModel.Theorems.C12b"]
# HEADLINE: statements with content about the model over ALL histories / all signatures (each hypothesis has a machine-checked
# necessity witness, see MANIFEST level_note).
HEADLINE = [
    "AsynqModel.Dedup.C12_spec_holds_partial",            # every history with histOk (per call): model's observations pass `spec`
    "AsynqModel.Dedup.C12_spec_holds_sigs",               # corollary for declarations whose signatures are all Sig.ok
    # Theorems/C12b.lean: an accepted history of any length and origin is accepted at EVERY position (watchStep from the
    # watch state of the predecessors + the table-size clause against the size shown before); prefix-closed
    "AsynqModel.Dedup.C12_spec_every_step",
    "AsynqModel.Dedup.C12_spec_prefix",
    "AsynqModel.Dedup.C12_spec_needs_histOk",             # necessity of histOk: the model's own run fails `spec` in each conflation
    "AsynqModel.Dedup.C12_histOk_per_call",               # histOk holds on conflation-open signatures when no call has the bad shape
    "AsynqModel.Dedup.C12_flat_implies_per_call",         # the former whole-signature condition implies the per-call one
    "AsynqModel.Dedup.C12_key_normal_partial",            # callOk calls: key equal <=> binding equal
    "AsynqModel.Dedup.C12_key_normal_counterexample",
    "AsynqModel.Dedup.C12_key_posonly_counterexample",
    "AsynqModel.Dedup.C12_key_pair_counterexample",
    "AsynqModel.Dedup.C12_valid_call_has_key",            # the keygetter never raises on a call that binds
    "AsynqModel.Dedup.C12_rerun_after_complete",          # reachable states: completion then call => new registered task
    "AsynqModel.Dedup.C12_disjoint",                      # operations touch the entry of their own key only
    "AsynqModel.Dedup.C12_instances_disjoint",
    "AsynqModel.Dedup.C12_shared_task_has_callers_key",   # a shared task was created under the caller's own key, is live
    "AsynqModel.Dedup.C12_entry_survives_others",
    "AsynqModel.Dedup.C12_entry_kept_while_calm",
    "AsynqModel.Dedup.C12_one_creation_per_period",       # one registered task per in-flight period
    "AsynqModel.Dedup.C12_shared_while_calm",
    "AsynqModel.Dedup.C12_same_outcome_for_all_callers",  # any two readers of one task receive the same outcome
    # round 6 (audit 3, B6): == between receiver instances is an input of the model (Lib/DedupEq.lean, Theorems/C12e.lean)
    "AsynqModel.Dedup.C12_equal_instances_counterexample",        # ==-equal distinct instances share a task; spec rejects the model's run
    "AsynqModel.Dedup.C12_equal_instances_dirty_counterexample",  # dirty() through the equal instance evicts the other's entry
    "AsynqModel.Dedup.C12_spec_holds_partial_eq",         # histOk + no two distinct instances == : model (stepE) passes `spec`
    "AsynqModel.Dedup.C12_instances_disjoint_partial",    # receivers that are not == never produce the same TABLE key
    "AsynqModel.Dedup.C12_stepE_trivial",                 # no two distinct tokens == : stepE is step (all other theorems are about this case)
    "AsynqModel.Dedup.C12_runE_trivial",
]
# true by construction of the model (one branch of `step` restated for an arbitrary state, a guard written into `step`,
# `DecoObj.apply` returning what it was given, a no-op constructor): their content is the correspondence, they are NOT
# headline claims (tools/gen_status.py prints them as "+k by construction")
BY_CONSTRUCTION = [
    "AsynqModel.Dedup.C12_completion_keeps_newer",
    "AsynqModel.Dedup.C12_inflight_shared",
    "AsynqModel.Dedup.C12_running_escape_private",
    "AsynqModel.Dedup.C12_rerun_after_dirty",
    "AsynqModel.Dedup.C12_body_starts_once",
    "AsynqModel.Dedup.C12_inflight_survives_outside",     # corollary of C12_entry_kept_while_calm for no-op steps
    "AsynqModel.Dedup.C12_keygetter_per_function",
    "AsynqModel.Dedup.C12_decoration_agrees_with_step",
    "AsynqModel.Dedup.C12_thread_end_noop",
    "AsynqModel.Dedup.C12_outside_noop",
    "AsynqModel.Dedup.C12_asyncio_mode_unshared",
]
THEOREMS = HEADLINE + BY_CONSTRUCTION
BUILDS = {"quick": ["py"], "thorough": ["py", "cy"]}
RULE = ("real asynq programs: 1-3 @deduplicate() functions (function / method on 1-3 instances / staticmethod; generated "
        "signatures with defaults, keyword-only, positional-only (15%), *args, **kwargs; argument values from small ints, the "
        "hash-colliding ints -1/-2, hash-colliding objects and ('p<n>', value) tuples that equal a **kwargs entry of the key), "
        "scripted bodies (0-3 yields on a harness batch, inside "
        "calls, dirty, private-task await / sync evaluation, throw()-resumption, return / raise) and 1-4 concurrent actor "
        "tasks of 1-4 phases issuing calls/dirty() with random spellings of few logical calls (so keys collide; 6% of the "
        "calls and 8% of the dirty() are malformed: too many / missing / unexpected / multiple) on 1-3 "
        "threads; plus a fixed corpus of the named schedules (same yield, later step while blocked, between two flushes, "
        "after completion / failure / dirty, same / different instances, staticmethod, two functions, recursion, dirty() "
        "with arguments that do not bind - raising and not raising - while the task is in flight, the three key "
        "conflations and their harmless neighbours) over several signatures; round 3: thread lifetimes (retire = join the "
        "helper thread of a slot, the next call on the slot "
        "is a new Thread object with the recycled ident and the same name; ~10% of the generated cases are thread-churn "
        "cases), abandoned calls (task never awaited: leftover entry), up to 3 top-level computations per case, "
        "BaseException-only failures, exotic argument values (None, '', (), frozenset(), falsy object, raising __repr__, "
        "value-equal objects / str subclass made fresh per call, ints >= 1000), *rest of 6-12 elements, and the fan-out "
        "family with the number n of simultaneously in-flight keys as parameter (quick n in 20..2200, thorough up to 8300; "
        "4 layouts: one function / two functions / method on 3 instances / 3 threads; blocked on a batch or never run); "
        "round 4 (interactions): 40% of the cases with >= 2 functions apply ONE deduplicate() object (and, half of them, one "
        "asynq() object) to several functions in a random order; 30% of the cases contain events of other features in "
        "mid-flight (12 debug options and COLLECT_PERF_STATS switched, gc.collect(), asynq.mock.patch entered and left, the synchronous call "
        "f(args)) in actors and inside bodies; 22% have top-level activity before / between computations: leftover tasks "
        "driven to completion by another thread or by the creating one, the function used in asyncio mode in 3 ways, "
        "further calls / dirty(); bodies block on debug.sync() (1 step in 11); 12% of the calls through an instance use "
        "a kept bound wrapper or a copy.copy() of it; receiver instances that are copies of each other; plus the named "
        "interaction schedules (one object on 14 pairs / 9 triples of different signatures in both orders, "
        "create-here-complete-there for value / failure / debug.sync bodies x 4 thread pairs, asyncio mode before and "
        "while in flight, every option switched while blocked, wrappers and copies); "
        "round 5: every completion is followed by what its subscriber reads, every resumed actor logs what it was sent / "
        "thrown for each deduplicated task it awaited, .value() on a driving thread logs what it returned (`await`); the "
        ".asynq() calls made in asyncio mode are operations (`aioCall`); up to 6 + 1 keygetter probes per function; "
        "non-trivial = at least two calls and at least one call that returned an already existing "
        "task or re-created a task for a call seen before; distinct by hash of the case; "
        "round 5 (reset / abort paths): `sreset` = the thread-local scheduler of a thread replaced (asynq.scheduler.reset()) or "
        "emptied (get_scheduler().reset()) while calls of that thread are in flight (16% of the outside events, 12% of the "
        "top-level acts; inside a computation on helper threads), `abort` = the first computation aborted at its k-th "
        "top-level flush by a raising on_before_batch_flush handler (7% of the cases, k in 1..3, Exception / BaseException, "
        "75% followed by a scheduler reset) with later computations using the same keys, `extdone` = a never-started task "
        "completed from outside by set_value / set_error on the creating / another thread (10% of the top-level acts); plus "
        "180 named schedules of these (5 signatures x replaced / emptied x thread pairs; abort at flush 1 / 2 x kind x "
        "reset / reset + call / nothing); "
        "round 6: receiver classes with value equality (`insteq`, drawn from a generator seeded by the content of the case: 30% "
        "of the generated cases that have a method and >= 2 instances; frozen dataclass with a compare=False field / own "
        "__eq__ + __hash__; which instances are == from 8 group patterns incl. all-different) plus 78 named schedules (3 "
        "signatures x 2 styles x equal / not equal x same yield / later step while blocked / dirty() through the other "
        "instance / instance passed through the class / after completion; 3 instances x colliding hash / falsy)")
TRUSTED = [
    "hand-written Lean model AsynqModel.Lib.Dedup tied to the code by this differential run only",
    "Python harness checks/c12.py (token <-> object identity mapping, event log written by the generated bodies - start / "
    "suspend / resume / how the body ended are written by the bodies themselves -, len(DeduplicateDecorator.tasks) peek, "
    "identification of the deduplicate() / asynq() objects of the decoration phase, reading the public attribute "
    "`keygetter` of the decorated functions)",
    "Python call binding incl. positional-only parameters (modelled by Sig.bind, compared with what every started body "
    "actually received), CPython generator send/throw semantics, qcore.decorators (decorate / DecoratorBase.__get__ / "
    "get_original_fn)",
    "the scheduler itself (when bodies start / resume / complete is an input of the model here; C01-C08 cover it); that a "
    "task's body starts once is a clause of the observer (started-twice) judged on the implementation's log (the Lean "
    "theorem C12_body_starts_once only restates the guard of the model: BY_CONSTRUCTION)",
]
ASSUMPTIONS = [
    "hypothesis of the `_partial` theorems (Lean: histOk / callOk, decidable, a condition on EACH CALL, not on whole "
    "signatures): a call / dirty() of a function that combines *args with keyword-only parameters passes no overflow "
    "positional; one of a function that combines positional-only parameters with **kwargs passes no keyword named like a "
    "positional-only parameter; one of a function with both *args and **kwargs passes no positional argument that is a "
    "('name', value) 2-tuple. Outside it the property is FALSE of the code (three machine-checked counterexamples; "
    "necessity: C12_spec_needs_histOk, one witness per disjunct); such cases are generated and reported under the clause "
    "names varargs-kwonly / posonly-varkw / varargs-varkw-pair (whether a call or a dirty() shows the conflation)",
    "argument values are hashable atoms compared by ==, or 2-tuples ('p<n>', atom); the model's key equality is equality "
    "of value TOKENS (normal form KeyElem.ofVal), so two "
    "distinct values whose hashes collide (-1 / -2, objects with a constant __hash__) are two different tokens and are "
    "generated on purpose; equal values of different types (1 == 1.0 == True) are one value",
    "functions stay alive while their tasks are in flight (id(self.fn) is not reused: the task holds the function)",
    "ASYNCIO MODE IS OUTSIDE THE STATEMENT, and it is NOT deduplicated: under a running fn.asyncio(), .asynq() hands the "
    "call to .asyncio() before a key is made (tools.py:355-356) and returns a coroutine - no task exists that a further "
    "call could be 'the very same' as - so two such calls with one key run the body TWICE (reproduced on HEAD f0f10a3; "
    "feature asyncio-mode-two-calls-one-key-ran-the-body-twice counts it in every run). The model has the operation "
    "(Op.aioCall, answered `coro`, no table access: C12_asyncio_mode_unshared, by construction) and the observer judges "
    "only that the answer is a coroutine, a new object per call, and that len(tasks) and everything in flight are "
    "untouched. Deduplicating there would need one shared asyncio future per key - a feature, not a repair",
    "every @asynq function is wrapped by exactly ONE deduplicate() application (the driver rejects a header in which a "
    "function is decorated twice). Two deduplicate() wrappers around ONE @asynq function share tasks - the key holds "
    "id(self.fn), the identity of the WRAPPED function (reproduced on HEAD); they are one function for the statement's "
    "'different functions' (same code, same arguments, same result), so this is outside the statement and not generated",
    "events of other features (option switch, gc, mock.patch enter+exit, synchronous call, asyncio-mode use) are atomic "
    "for the history: bodies they start themselves (synchronous call / asyncio mode) return at once and are not logged; "
    "COLLECT_PERF_STATS is among the switched options (its two mid-flight defects were repaired in /repo: 9ee915e, "
    "f0f10a3); an option that dumps is replaced by KEEP_DEPENDENCIES when an argument of the case cannot be printed",
    "`drive` happens at top level only (no scheduler is running on the main thread), on tasks that have not started; the "
    "acts a body would issue from inside are skipped while it runs on the driving thread",
    "the scheduler of the MAIN thread is replaced / emptied at top level only (a `sreset 0` generated inside a computation "
    "happens on helper thread 1: replacing the scheduler that is executing the computation is not a supported use); helper "
    "threads never have a running scheduler while they are reset. In the compiled build TaskScheduler.reset is `cdef` "
    "(scheduler.pxd:37, not callable from Python although scheduler.pyi lists it): `emptied` falls back to "
    "asynq.scheduler.reset() there (feature TaskScheduler.reset-not-exposed-by-this-build) - except while a body is running on that very thread (a task driven at top level whose body issues the event): the fallback would REPLACE the scheduler that is executing the body, the unsupported use, so the event is skipped there (found as a false alarm by a thorough-tier sweep: get_active_task() was None in the next body, compiled build only). The abort handler raises only "
    "at a flush made outside every task (not inside a nested .value() of a body); the actors of an aborted computation are "
    "never resumed (nobody reads their tasks); `extdone` completes never-started tasks only (a started body completed "
    "from outside would later be resumed by the scheduler: C09/C10's business)",
    "@deduplicate() is applied to @asynq() generator functions only: @asynq(pure=True) functions have no .asynq attribute "
    "(AttributeError at the first call, by construction of PureAsyncDecorator) and @async_proxy() functions may return "
    "futures that are not tasks (no `running` attribute: the second call raises AttributeError; DESIGN.md section 5 C12) - "
    "neither is part of the statement",
    "OPEN FINDING, inside the statement ('different instances never share a task'): two DISTINCT receiver instances that "
    "are == (frozen dataclass with a compare=False field, hand-written __eq__ / __hash__) share one table entry - the key "
    "holds the bound instance and a dict compares keys with ==.  Generated in both tiers (`insteq`: 30% of the generated "
    "cases with a method and >= 2 instances, 2 class styles; 78 named schedules incl. the harmless neighbour 'value "
    "equality, all instances different'), modelled as the code is (Lib/DedupEq.lean: stepE keys the table up to ==, which "
    "instances are == is the header item `eqv`), rejected by the unchanged observer (receivers are identities there) "
    "under the clause name equal-instances (specClauseE: the name is given only when the SAME observations pass once "
    "equal instances are taken for one object; signature dedup/fail:equal-instances@call), witnesses "
    "C12_equal_instances_counterexample / _dirty_counterexample.  Hypothesis `eqvId` (no two distinct instance tokens are "
    "==) of C12_spec_holds_partial_eq; every theorem of Theorems/C12.lean speaks about `step` = stepE under eqvId "
    "(C12_stepE_trivial).  Only RECEIVERS are made ==-equal-but-distinct: argument VALUES that are == are one value for the "
    "statement ('arguments normalised'; tokens 76 / 77 / large ints are such values), and an ==-equal instance inside a "
    "('p<n>', value) tuple is not generated",
    "one thread token per threading.Thread OBJECT (slot + 3 * incarnation); a retired thread is joined before its "
    "threadEnd is logged and never calls again; a new helper thread that did not get the ident of a finished, logged "
    "thread is parked before it calls anything and creation is retried (<= 25 short attempts), so that later threads "
    "run on a recycled ident whenever the OS allows it (feature thread-ident-recycled counts it)",
    "the synchronous call f(x) of a deduplicated function does not go through the table at all (AsyncDecorator.__call__ "
    "-> _call_pure) and is not part of the statement (\".asynq() call\"); a custom keygetter= is not part of it either",
    "decorated functions are generator functions (binding errors surface at .asynq() time; a plain function that does not "
    "bind would be registered and fail only when run)",
    "calls from INSIDE the running body of the in-flight task are outside the statement (\"from outside the running "
    "body\"): the observer accepts that very task or a new private task there, nothing else",
    "a call or dirty() whose arguments do not bind is outside the statement; the observer still requires that such a call "
    "creates nothing, that such a dirty() changes nothing when it raises, and - when it does not raise - gives up "
    "certainty only about the calls of that function on that thread that are in flight at that moment, until each is "
    "called again (Watch.poss); everything else is judged throughout the whole history",
    "len(DeduplicateDecorator.tasks) is judged by bounds (sizeBound: +0/+1 for a new task, no growth on dirty()/"
    "completion, unchanged otherwise) and EXACTLY wherever the observer knows the entry of the call (sizeExact: +1 for a "
    "new task when nothing was in flight, +0 for a private task, unchanged for a dirty() of a call with nothing in "
    "flight); how many entries a dirty() / completion removes (0 or 1 in the model) is compared by the correspondence only",
    "what remains LAX in the observer, on purpose or for lack of information (all of it is compared exactly by the "
    "correspondence, CORR): (1) the outcome in `complete t o` is an INPUT - how the body ended, logged by the body - "
    "and is tied to what readers receive by the `await` clause, not judged by itself; (2) calls from inside a "
    "throw()-resumed body may get a private task (the model returns the own task there); (3) the log of start / suspend "
    "/ resume is written by the harness bodies: a LOST suspend line would make the observer accept later duplicates as "
    "'inside' calls (a resume / suspend of a never-started task is rejected); (4) the empty history is accepted. There "
    "is no 'spec = exactly the model' theorem for C12: the observer is the statement (bindings, no key tuples), the model "
    "is the code",
]
CASE_TIMEOUT = 20
MAXRUNS = 10
UNKNOWN = 999999


# ---------------------------------------------------------------------------------------------------
# generation
# ---------------------------------------------------------------------------------------------------

def gen_sig(rng, kind):
    npos = rng.choice([0, 1, 1, 2, 2, 3])
    if kind == "method":
        npos = max(1, npos)
    ndef = rng.randint(0, npos - (1 if kind == "method" else 0))
    names = list(range(8))
    pos = []
    for i in range(npos):
        d = rng.randint(0, 2) if i >= npos - ndef else None
        pos.append([names[i], d])
    nkw = rng.choice([0, 0, 0, 1, 1, 2])
    kwonly = [[names[npos + i], rng.choice([None, 0, 1])] for i in range(nkw)]
    # positional-only parameters (`def f(p0, p1, /, p2)`): the first `posonly` entries of pos
    posonly = rng.randint(1, npos) if npos and rng.random() < 0.15 else 0
    return {"kind": kind, "pos": pos, "kwonly": kwonly,
            "varargs": rng.random() < 0.2, "varkw": rng.random() < 0.2, "posonly": posonly}


PAIR_BASE = 10 ** 6


def pair_tok(name, v):
    """value token of the Python tuple ("p<name>", <value of token v>): equal to the (name, value) pair that
    get_args_tuple appends to the key for a keyword that names no parameter (Lean: Dedup.pairTok)"""
    return PAIR_BASE + 1000 * name + v


# value tokens: 0..3 small ints; 50 / 51 = the ints -1 / -2 (DISTINCT values, hash(-1) == hash(-2) in CPython);
# 60 / 61 = two instances of a harness class with a constant __hash__ and identity __eq__; >= 100 = receiver instances.
# In the Lean model a key compares by value token, i.e. colliding-hash values are simply two different tokens.
# round 3: 70 None, 71 '', 72 (), 73 frozenset(), 74 object with __bool__ False / __len__ 0, 75 object whose __repr__ /
# __str__ raise (74, 75: identity __eq__), 76 value-__eq__ object made FRESH for every use, 77 str-subclass instance
# made fresh for every use (equal to each other, never identical); 1000.. = the int itself (not interned: equal,
# never identical).  Defaults of parameters are the ints 0..2, so "falsy explicit value vs truthy default" is generated.
DOMAINS = [[0, 1], [0, 1], [0, 1], [0, 1], [50, 51], [60, 61], [0, 50, 51], [1, 60, 61], [50, 51, 60, 61],
           [0, 70], [70, 71, 72], [0, 73, 74], [74, 75], [76, 77], [1, 76, 70], [1000, 1001], [0, 71, 1000],
           [0, pair_tok(6, 0)], [0, 1, pair_tok(6, 0), pair_tok(7, 1)], [1, pair_tok(6, 1), pair_tok(1, 1)]]


def logical_calls(rng, decl, ninst, n=2, dom=(0, 1)):
    """a few logical calls (values of the named parameters, rest, extra) of one function"""
    res = []
    for _ in range(n):
        vals = {}
        for i, (nm, d) in enumerate(decl["pos"]):
            if decl["kind"] == "method" and i == 0:
                vals[nm] = 100 + rng.randrange(ninst)
            elif d is not None and rng.random() < 0.5:
                vals[nm] = d
            else:
                vals[nm] = rng.choice(dom)
        for nm, d in decl["kwonly"]:
            vals[nm] = d if (d is not None and rng.random() < 0.5) else rng.choice(dom)
        rest = [rng.choice(dom) for _ in range(rng.choice([0, 0, 1, 2]))] if decl["varargs"] else []
        if decl["varargs"] and rng.random() < 0.1:
            # long *rest: logical calls of one function differ (if at all) only in the LAST element
            rest = [dom[0]] * rng.randint(5, 11) + [rng.choice(dom)]
        extra = {}
        if decl["varkw"] and rng.random() < 0.5:
            for nm in rng.sample([6, 7], rng.randint(1, 2)):
                extra[nm] = rng.choice(dom)
        first = 1 if decl["kind"] == "method" else 0
        if decl["varkw"] and decl.get("posonly", 0) > first and rng.random() < 0.5:
            # legal since PEP 570: the keyword lands in **extra, the parameter keeps its positional value / default
            extra[decl["pos"][rng.randrange(first, decl["posonly"])][0]] = rng.choice(dom)
        res.append({"vals": vals, "rest": rest, "extra": extra})
    return res


def spell(rng, fi, decl, lc, nthreads, malformed=False):
    """one random spelling of the logical call lc"""
    pos = decl["pos"]
    vals = lc["vals"]
    recv = "none"
    first = 0
    if decl["kind"] == "method":
        inst = vals[pos[0][0]] - 100
        if rng.random() < 0.75:
            recv = ["inst", inst]
            first = 1
            if rng.random() < 0.12:
                # a bound wrapper kept by the caller and used again / a copy.copy() of it (not a fresh `obj.f` each time)
                recv.append(rng.choice(["stored", "copy"]))
        else:
            recv = "cls"
    elif decl["kind"] == "static":
        recv = "cls" if rng.random() < 0.6 else ["inst", 0]
        if recv != "cls" and rng.random() < 0.12:
            recv.append(rng.choice(["stored", "copy"]))
    rest = lc["rest"]
    po = decl.get("posonly", 0)
    if rest:
        k = len(pos)
    else:
        lo = max(first, po)
        # trailing positional-only parameters that have their default value may be left out
        while lo > first and pos[lo - 1][1] is not None and vals[pos[lo - 1][0]] == pos[lo - 1][1] and rng.random() < 0.4:
            lo -= 1
        k = rng.randint(lo, len(pos)) if lo >= po else lo
        if decl["varargs"] and decl["kwonly"] and rng.random() < 0.3:
            k = len(pos)
    args = [vals[pos[i][0]] for i in range(first, k)] + list(rest)
    kw = []
    for i in range(max(k, first), len(pos)):
        nm, d = pos[i]
        if i < po:
            continue            # positional-only and left out: it has its default value (see above)
        if d is not None and vals[nm] == d and rng.random() < 0.6:
            continue
        kw.append([nm, vals[nm]])
    for nm, d in decl["kwonly"]:
        if d is not None and vals[nm] == d and rng.random() < 0.6:
            continue
        kw.append([nm, vals[nm]])
    for nm, v in lc["extra"].items():
        kw.append([nm, v])
    rng.shuffle(kw)
    if malformed:
        m = rng.randrange(4)
        if m == 0:
            args = args + [rng.randint(0, 1)]                    # too many / lands in *rest or in a kw-only slot
        elif m == 1 and kw:
            kw.pop(rng.randrange(len(kw)))                       # maybe missing
        elif m == 2:
            nm = rng.choice([5, 6, 7])
            if all(k2[0] != nm for k2 in kw):
                kw.append([nm, rng.randint(0, 1)])                # unexpected keyword
        elif pos and len(args) + first > 0:
            nm = pos[rng.randrange(0, len(args) + first)][0] if len(args) + first <= len(pos) else pos[0][0]
            if all(k2[0] != nm for k2 in kw):
                kw.append([nm, rng.randint(0, 1)])               # multiple values
    th = 0 if rng.random() < 0.85 else rng.randrange(nthreads)
    return [fi, recv, args, kw, th]


NOFN = ("retire", "opt", "gc", "drive", "sreset", "extdone")       # acts whose second element is not a function index
# COLLECT_PERF_STATS is in the list since the two defects of the profiling option that made it unusable in mid-flight
# were repaired in /repo (9ee915e: a task created before the switch must still complete; f0f10a3: an argument that cannot
# be repr()ed must not fail the task).
OPTS = ["KEEP_DEPENDENCIES", "DUMP_NEW_TASKS", "DUMP_CONTINUE_TASK", "DUMP_SCHEDULE_BATCH",
        "DUMP_FLUSH_BATCH", "DUMP_COMPUTED", "DUMP_DEPENDENCIES", "DUMP_QUEUED_RESULTS", "DUMP_YIELD_RESULTS",
        "DUMP_SCHEDULE_TASK", "DUMP_SYNC", "DUMP_EXCEPTIONS", "COLLECT_PERF_STATS"]


def gen_outside(rng, calls):
    """an event of another feature in mid-flight: a debug / profiling option is switched, the garbage collector runs,
    asynq.mock.patch replaces and restores a function, the synchronous call f(args) of a deduplicated function"""
    r = rng.random()
    if r < 0.45:
        return ["opt", rng.randrange(len(OPTS))]
    if r < 0.55:
        return ["gc"]
    if r < 0.7:
        return ["mock"] + calls(0.0)[:1]
    if r < 0.84:
        return ["sync"] + calls(0.0)
    # round 5: the thread-local scheduler of a thread is replaced (asynq.scheduler.reset()) or emptied
    # (get_scheduler().reset()); inside a computation this happens on a helper thread (do_sreset)
    return ["sreset", rng.randrange(3), rng.randrange(2)]


def gen_body(rng, calls, outside=False):
    steps = []
    for _ in range(rng.choice([0, 1, 1, 1, 2, 2, 3])):
        pre = []
        if rng.random() < 0.3:
            for _ in range(rng.choice([1, 1, 2])):
                r = rng.random()
                if r < 0.45:
                    pre.append(["self"])
                elif r < 0.6:
                    pre.append(["dirtyself"])
                elif r < 0.9:
                    pre.append(["call"] + calls())
                else:
                    pre.append(["dirty"] + calls())
        if outside and rng.random() < 0.15:
            pre.append(gen_outside(rng, calls))
        y = rng.choices(["item", "fail", "last", "lastsync", "dsync"], weights=[6, 1, 2, 1, 1])[0]
        steps.append({"pre": pre, "y": y})
    post = []
    if rng.random() < 0.15:
        post.append(["self"] if rng.random() < 0.6 else ["call"] + calls())
    return {"steps": steps, "post": post, "end": rng.choice(["raise", "raise", "raise", "raisebase"]) if rng.random() < 0.2 else "ret"}


def gen_case(rng):
    nf = rng.choice([1, 1, 2, 2, 3])
    ninst = rng.choice([1, 2, 2, 3])
    nthreads = rng.choice([1, 1, 2, 3])
    churn = rng.random() < 0.1          # thread-churn case: most calls on helper threads, which come and go
    if churn:
        nthreads = rng.choice([2, 3])
    p_x = rng.choice([0.0, 0.0, 0.1, 0.3]) if not churn else 0.4       # abandoned calls (task never awaited by the caller)
    p_retire = (0.0 if nthreads == 1 else rng.choice([0.0, 0.05, 0.1])) if not churn else 0.25
    fns = [gen_sig(rng, rng.choice(["func", "func", "method", "method", "static"])) for _ in range(nf)]
    if nf >= 2 and rng.random() < 0.4:
        fns[1] = dict(fns[0])  # two functions with the same signature (same args, different function)
    dom = rng.choice(DOMAINS)
    lcs = [logical_calls(rng, d, ninst, rng.choice([1, 2, 2, 3]) + (1 if len(dom) > 2 else 0), dom) for d in fns]

    def calls(p_mal=0.06):
        fi = rng.randrange(nf)
        sp = spell(rng, fi, fns[fi], rng.choice(lcs[fi]), nthreads, malformed=rng.random() < p_mal)
        if churn and rng.random() < 0.7:
            sp[4] = rng.randrange(1, nthreads)
        return sp

    outside = rng.random() < 0.3      # events of other features in mid-flight (options, gc, mock.patch, f(args))
    bodies = [gen_body(rng, calls, outside) for _ in range(rng.choice([1, 2, 3]))]
    def gen_actors(choices):
        actors = []
        for _ in range(rng.choice(choices)):
            phases = []
            for _ in range(rng.choice([1, 2, 2, 3, 4])):
                acts = []
                for _ in range(rng.choice([0, 1, 1, 2, 2, 3])):
                    if p_retire and rng.random() < p_retire:
                        acts.append(["retire", rng.randrange(1, nthreads)])
                    elif outside and rng.random() < 0.12:
                        acts.append(gen_outside(rng, calls))
                    elif rng.random() < 0.82:
                        acts.append(["callx" if rng.random() < p_x else "call"] + calls())
                    else:
                        acts.append(["dirty"] + calls(0.08))
                wait = rng.choices(["mine", "tick", "all", "first"], weights=[5, 4, 1, 1])[0]
                phases.append({"acts": acts, "wait": wait})
            actors.append(phases)
        return actors

    case = {"fns": fns, "ninst": ninst, "bodies": bodies, "actors": gen_actors([1, 2, 2, 3, 4])}
    if rng.random() < 0.15:
        # calls / dirty() issued at top level (no active task, no scheduler running) before the first computation
        case["top"] = [[rng.choice(["call", "call", "callx", "dirty"])] + calls(0.02) for _ in range(rng.choice([1, 2, 3]))]
    if rng.random() < 0.2:
        # receiver instances: 1 = all instances share one __hash__ (identity __eq__), 2 = instances are falsy / empty
        case["cls"] = rng.choice([1, 2, 3])
    if rng.random() < (0.15 if not churn else 0.5):
        # further top-level computations on the same thread: whatever the earlier ones left in the table is still there
        case["more"] = [gen_actors([1, 1, 2]) for _ in range(rng.choice([1, 1, 2]))]
    # ---- round 4: interactions -------------------------------------------------------------------------------------
    if nf >= 2 and rng.random() < 0.4:
        # ONE deduplicate() object applied to several functions (and one asynq() object likewise), in any order
        groups = rng.choice([[0] * nf, [0] * nf, [rng.randrange(2) for _ in range(nf)]])
        order = list(range(nf))
        if rng.random() < 0.5:
            rng.shuffle(order)
        case["deco"] = {"outer": groups, "inner": [rng.randrange(2) for _ in range(nf)] if rng.random() < 0.5 else list(range(nf)),
                        "order": order}
    if rng.random() < 0.12 and ninst > 1 and any(d["kind"] == "method" for d in fns):
        case["instcopy"] = 1      # the instances 1.. are copy.copy() of instance 0
    if rng.random() < 0.22:
        # top level, between the first computation and the later ones: leftover tasks are driven to completion by
        # ANOTHER thread than the one that created them (or by the creating one), the functions are used in asyncio
        # mode, called synchronously, called again
        acts = []
        for _ in range(rng.choice([1, 2, 3, 4])):
            r = rng.random()
            if r < 0.3:
                acts.append(["drive", rng.randrange(4), rng.randrange(3)])
            elif r < 0.4:
                # a task nobody has started is completed FROM OUTSIDE (set_value / set_error of the public future API)
                acts.append(["extdone", rng.randrange(4), rng.randrange(2), rng.randrange(3)])
            elif r < 0.52:
                acts.append(["aio"] + calls(0.0)[:4] + [rng.randrange(3)])
            elif r < 0.62:
                acts.append(gen_outside(rng, calls))
            elif r < 0.74:
                acts.append(["sreset", rng.choice([0, 0, 1, 2]), rng.randrange(2)])
            else:
                acts.append([rng.choice(["call", "call", "callx", "dirty"])] + calls(0.02))
        where = "top2" if (rng.random() < 0.7 or "top" in case) else "top"
        if where == "top":
            acts = [[rng.choice(["call", "callx"])] + calls(0.0) for _ in range(rng.choice([1, 2]))] + acts
        case[where] = acts
        if "more" not in case and rng.random() < 0.7:
            case["more"] = [gen_actors([1, 1, 2])]
    # ---- round 5: reset / abort paths ------------------------------------------------------------------------------
    if rng.random() < 0.07:
        # the FIRST computation is aborted: the k-th top-level batch flush raises out of the scheduler (a handler of
        # on_before_batch_flush - a deadline); what was in flight stays in flight.  Usually the harness then throws the
        # scheduler away (asynq.scheduler.reset()) or empties it, and a later computation uses the same keys
        case["abort"] = [rng.choice([1, 1, 2, 3]), rng.randrange(2)]
        between = [["sreset", 0, rng.randrange(2)]] if rng.random() < 0.75 else []
        if rng.random() < 0.5:
            between.append([rng.choice(["call", "callx", "dirty"])] + calls(0.0))
        case["top2"] = between + list(case.get("top2", []))
        if not case["top2"]:
            del case["top2"]
        if "more" not in case:
            case["more"] = [gen_actors([1, 1, 2]) for _ in range(rng.choice([1, 1, 2]))]
    add_insteq(case)
    return case


INSTEQ_GROUPS = {2: [[0, 0], [0, 0], [0, 1]], 3: [[0, 0, 0], [0, 0, 1], [0, 1, 0], [0, 1, 1], [0, 1, 2]]}


def add_insteq(case):
    """round 6 (audit 3, B6): the receiver class has VALUE equality - a frozen dataclass with a compare=False field (`dc`)
    or a hand-written __eq__ / __hash__ (`eq`) - and some of the instances are == without being the same object
    (`groups`: the value each instance compares by).  The choice is drawn from a generator seeded by the CONTENT of the
    case, not from the stream of gen_case: the cases of a seed are the ones they were before this dimension existed."""
    if case.get("instcopy") or case["ninst"] < 2 or not any(d["kind"] == "method" for d in case["fns"]):
        return
    erng = random.Random(int(hashlib.sha1(json.dumps(case, sort_keys=True).encode()).hexdigest()[:12], 16))
    if erng.random() < 0.3:
        case["insteq"] = {"style": erng.choice(["dc", "eq"]), "groups": erng.choice(INSTEQ_GROUPS[min(3, case["ninst"])])}


SIGS = [
    {"kind": "func", "pos": [[0, None], [1, 1]], "kwonly": [], "varargs": False, "varkw": False},
    {"kind": "func", "pos": [[0, None]], "kwonly": [[1, 0]], "varargs": False, "varkw": False},
    {"kind": "func", "pos": [[0, None], [1, 0]], "kwonly": [[2, 1]], "varargs": False, "varkw": True},
    {"kind": "func", "pos": [[0, None]], "kwonly": [], "varargs": True, "varkw": False},
    {"kind": "method", "pos": [[0, None], [1, None], [2, 1]], "kwonly": [], "varargs": False, "varkw": False},
    {"kind": "method", "pos": [[0, None], [1, 0]], "kwonly": [[2, 0]], "varargs": False, "varkw": False},
    {"kind": "static", "pos": [[0, None], [1, 1]], "kwonly": [], "varargs": False, "varkw": False},
    {"kind": "func", "pos": [], "kwonly": [], "varargs": False, "varkw": False},
    {"kind": "func", "pos": [[0, None], [1, 1]], "kwonly": [[2, 0]], "varargs": False, "varkw": False, "posonly": 1},
    {"kind": "method", "pos": [[0, None], [1, None], [2, 1]], "kwonly": [], "varargs": False, "varkw": False, "posonly": 2},
]


def two_spellings(decl, inst=0):
    """two different spellings of the same logical call (all defaults), and a spelling of a different call"""
    pos = decl["pos"]
    first = 1 if decl["kind"] == "method" else 0
    po = max(decl.get("posonly", 0), first)
    recv = ["inst", inst] if decl["kind"] == "method" else ("cls" if decl["kind"] == "static" else "none")
    a1, k1, a2, k2, k3 = [], [], [], [], []
    for i in range(first, len(pos)):
        nm, d = pos[i]
        v = d if d is not None else 1
        a1.append(v)
        if i < po:
            a2.append(v)            # positional-only: never by keyword
        else:
            k2.append([nm, v])
            k3.append([nm, v])
    for nm, d in decl["kwonly"]:
        v = d if d is not None else 1
        k1.append([nm, v])
        if d is None:
            k2.append([nm, v])
            k3.append([nm, v])
    s1 = [recv, a1, k1, 0]
    s2 = [recv, list(a2), list(reversed(k2)), 0]
    # required parameters only (defaults omitted) for the first spelling when possible
    nreq = len([1 for i in range(first, len(pos)) if pos[i][1] is None])
    if nreq < len(a1):
        s1 = [recv, a1[:nreq], [kv for kv in k1 if dict(map(tuple, decl["kwonly"])).get(kv[0]) is None], 0]
    # a different logical call: change the last named value (or the last positional-only one)
    a3 = list(a2)
    if k3:
        k3[-1] = [k3[-1][0], k3[-1][1] + 1]
    elif a3:
        a3[-1] = a3[-1] + 1
    s3 = [recv, a3, k3, 0]
    return s1, s2, s3


def named_schedules():
    """the call patterns named in the property, over several signatures"""
    cases = []
    two_items = {"steps": [{"pre": [], "y": "item"}, {"pre": [], "y": "item"}], "post": [], "end": "ret"}
    one_item = {"steps": [{"pre": [], "y": "item"}], "post": [], "end": "ret"}
    failing = {"steps": [{"pre": [], "y": "item"}], "post": [], "end": "raise"}
    for decl in SIGS:
        s1, s2, s3 = two_spellings(decl)
        c1, c2, c3 = ["call", 0] + s1, ["call", 0] + s2, ["call", 0] + s3
        d1 = ["dirty", 0] + s2
        base = {"fns": [decl], "ninst": 2}
        # same yield, both spellings + a different key
        cases.append(dict(base, bodies=[one_item], actors=[[{"acts": [c1, c2, c3], "wait": "mine"}]]))
        # later step while the first is blocked on the batch / between its two flushes
        for nticks in (1, 2):
            cases.append(dict(base, bodies=[two_items], actors=[
                [{"acts": [c1], "wait": "mine"}],
                [{"acts": [], "wait": "tick"}] * nticks + [{"acts": [c2, c3], "wait": "mine"}]]))
        # after completion, after failure
        for b in (one_item, failing):
            cases.append(dict(base, bodies=[b], actors=[
                [{"acts": [c1], "wait": "mine"}, {"acts": [c2], "wait": "mine"}, {"acts": [c1, c2], "wait": "mine"}]]))
        # after dirty (task never started / task blocked)
        cases.append(dict(base, bodies=[one_item], actors=[[{"acts": [c1, d1, c2, c1], "wait": "mine"}]]))
        cases.append(dict(base, bodies=[two_items], actors=[
            [{"acts": [c1], "wait": "mine"}],
            [{"acts": [], "wait": "tick"}, {"acts": [d1, c2, c1], "wait": "mine"}]]))
        # dirty, re-create, then the OLD task completes while the new one is in flight, then another call
        cases.append(dict(base, bodies=[one_item, two_items, two_items], actors=[
            [{"acts": [c1, d1, c2], "wait": "first"}, {"acts": [c1], "wait": "all"}]]))
        # two threads
        ct = ["call", 0] + s1[:3] + [1]
        cases.append(dict(base, bodies=[one_item], actors=[[{"acts": [c1, ct, c2, ct], "wait": "mine"}]]))
        # recursion from inside the running body: private task, awaited / evaluated synchronously; later outside call
        for y in ("last", "lastsync"):
            rec = {"steps": [{"pre": [["self"]], "y": y}, {"pre": [], "y": "item"}], "post": [], "end": "ret"}
            cases.append(dict(base, bodies=[rec, one_item], actors=[
                [{"acts": [c1], "wait": "mine"}],
                [{"acts": [], "wait": "tick"}, {"acts": [c2], "wait": "mine"}]]))
        # resumed by throw(): `running` is not set, an inside call gets the very task back
        thr = {"steps": [{"pre": [], "y": "fail"}, {"pre": [["self"]], "y": "item"}], "post": [["self"]], "end": "ret"}
        cases.append(dict(base, bodies=[thr], actors=[[{"acts": [c1], "wait": "mine"}, {"acts": [c2], "wait": "mine"}]]))
        # two functions with the same signature and the same arguments
        cases.append({"fns": [decl, dict(decl)], "ninst": 2, "bodies": [one_item], "actors": [
            [{"acts": [c1, ["call", 1] + s1, c2, ["call", 1] + s2], "wait": "mine"}]]})
        if decl["kind"] == "method":
            o1, o2, _ = two_spellings(decl, inst=1)
            unbound = ["cls", [100] + s1[1], s1[2], 0]
            cases.append(dict(base, bodies=[two_items], actors=[
                [{"acts": [c1, ["call", 0] + o1, ["call", 0] + unbound], "wait": "mine"}],
                [{"acts": [], "wait": "tick"}, {"acts": [c2, ["call", 0] + o2, ["dirty", 0] + o2, ["call", 0] + o1], "wait": "mine"}]]))
        if decl["kind"] == "static":
            via_inst = [["inst", 0]] + s1[1:]
            cases.append(dict(base, bodies=[two_items], actors=[
                [{"acts": [c1, ["call", 0] + via_inst], "wait": "mine"}],
                [{"acts": [], "wait": "tick"}, {"acts": [["call", 0] + via_inst, c2], "wait": "mine"}]]))
    # *args together with keyword-only parameters: positional overflow vs keyword-only value
    va = {"kind": "func", "pos": [[0, None]], "kwonly": [[1, 0]], "varargs": True, "varkw": False}
    cases.append({"fns": [va], "ninst": 1, "bodies": [one_item], "actors": [[{"acts": [
        ["call", 0, "none", [1, 2], [], 0], ["call", 0, "none", [1], [[1, 2]], 0],
        ["call", 0, "none", [1, 2], [[1, 1]], 0]], "wait": "mine"}]]})
    # positional-only parameters together with **kwargs: a keyword that has the NAME of a positional-only parameter lands
    # in **extra (PEP 570); the default key drops it (name in arg_names) or takes it for the parameter
    pk = {"kind": "func", "pos": [[0, None]], "kwonly": [], "varargs": False, "varkw": True, "posonly": 1}
    cases.append({"fns": [pk], "ninst": 1, "bodies": [one_item], "actors": [[{"acts": [
        ["call", 0, "none", [1], [[0, 2]], 0], ["call", 0, "none", [1], [], 0],
        ["call", 0, "none", [1], [[0, 3]], 0]], "wait": "mine"}]]})
    pk2 = {"kind": "func", "pos": [[0, 0], [1, 1]], "kwonly": [], "varargs": False, "varkw": True, "posonly": 1}
    cases.append({"fns": [pk2], "ninst": 1, "bodies": [one_item], "actors": [[{"acts": [
        ["call", 0, "none", [], [[0, 1]], 0], ["call", 0, "none", [1], [], 0]], "wait": "mine"}]]})
    # ... the same signature is fine as long as no keyword uses such a name (the observer keeps judging it)
    cases.append({"fns": [pk], "ninst": 1, "bodies": [two_items], "actors": [
        [{"acts": [["call", 0, "none", [1], [[6, 2]], 0], ["call", 0, "none", [1], [], 0]], "wait": "mine"}],
        [{"acts": [], "wait": "tick"}, {"acts": [["call", 0, "none", [1], [[6, 2]], 0], ["call", 0, "none", [1], [], 0],
                                                 ["call", 0, "none", [2], [], 0]], "wait": "mine"}]]})
    # *args together with **kwargs: an overflow positional that is a ("name", value) tuple is the same key element as
    # the keyword name=value
    pv = {"kind": "func", "pos": [], "kwonly": [], "varargs": True, "varkw": True}
    cases.append({"fns": [pv], "ninst": 1, "bodies": [one_item], "actors": [[{"acts": [
        ["call", 0, "none", [pair_tok(6, 1)], [], 0], ["call", 0, "none", [], [[6, 1]], 0]], "wait": "mine"}]]})
    pv2 = {"kind": "func", "pos": [[0, None]], "kwonly": [], "varargs": True, "varkw": True}
    cases.append({"fns": [pv2], "ninst": 1, "bodies": [one_item], "actors": [[{"acts": [
        ["call", 0, "none", [1], [[6, 0], [7, 1]], 0], ["call", 0, "none", [1, pair_tok(6, 0)], [[7, 1]], 0]], "wait": "mine"}]]})
    # ... with ordinary values the same signatures are fine; and such tuples are ordinary values everywhere else
    cases.append({"fns": [pv2], "ninst": 1, "bodies": [two_items], "actors": [
        [{"acts": [["call", 0, "none", [1, 2], [[6, 0]], 0], ["call", 0, "none", [1], [[6, 0]], 0]], "wait": "mine"}],
        [{"acts": [], "wait": "tick"}, {"acts": [["call", 0, "none", [1, 2], [[6, 0]], 0], ["call", 0, "none", [], [[6, 0], [0, 1]], 0],
                                                 ["call", 0, "none", [1, 2], [], 0]], "wait": "mine"}]]})
    f2 = {"kind": "func", "pos": [[0, None], [1, 0]], "kwonly": [], "varargs": False, "varkw": True}
    cases.append({"fns": [f2], "ninst": 1, "bodies": [two_items], "actors": [
        [{"acts": [["call", 0, "none", [pair_tok(6, 1)], [], 0], ["call", 0, "none", [1], [[6, 1]], 0]], "wait": "mine"}],
        [{"acts": [], "wait": "tick"}, {"acts": [["call", 0, "none", [], [[0, pair_tok(6, 1)]], 0],
                                                 ["call", 0, "none", [1, 0], [[6, 1]], 0],
                                                 ["call", 0, "none", [1, pair_tok(6, 1)], [], 0]], "wait": "mine"}]]})
    # dirty() with arguments that do not bind, while the task is in flight: one that raises (nothing may change: the
    # other spelling still shares) and one that does not raise (f(1, 1, p0=1) has the key of f(1): the entry goes)
    f0 = SIGS[0]
    for ill in (["dirty", 0, "none", [], [], 0], ["dirty", 0, "none", [], [[1, 1]], 0], ["dirty", 0, "none", [1, 1], [[0, 1]], 0],
                ["dirty", 0, "none", [1, 1, 1], [], 0], ["dirty", 0, "none", [1], [[6, 1]], 0]):
        cases.append({"fns": [f0], "ninst": 1, "bodies": [two_items], "actors": [
            [{"acts": [["call", 0, "none", [1], [], 0], ["call", 0, "none", [2], [], 0]], "wait": "mine"}],
            [{"acts": [], "wait": "tick"}, {"acts": [ill, ["call", 0, "none", [], [[1, 1], [0, 1]], 0],
                                                     ["call", 0, "none", [1, 1], [], 0], ["call", 0, "none", [2], [], 0]],
                                            "wait": "mine"}]]})
    # DISTINCT argument values whose hashes collide (-1/-2, constant-__hash__ objects): in flight together in the
    # same yield, in a later step while the first is blocked, and dirty() of the colliding twin must not evict
    f1 = {"kind": "func", "pos": [[0, None], [1, 0]], "kwonly": [], "varargs": False, "varkw": False}
    for a, b in ((50, 51), (60, 61)):
        ca, cb, ckw = ["call", 0, "none", [a], [], 0], ["call", 0, "none", [b], [], 0], ["call", 0, "none", [], [[0, a]], 0]
        cases.append({"fns": [f1], "ninst": 1, "bodies": [two_items],
                      "actors": [[{"acts": [ca, cb, ckw], "wait": "mine"}]]})
        cases.append({"fns": [f1], "ninst": 1, "bodies": [two_items], "actors": [
            [{"acts": [ca], "wait": "mine"}],
            [{"acts": [], "wait": "tick"}, {"acts": [cb, ["dirty", 0, "none", [b], [], 0], ckw, cb], "wait": "mine"}]]})
        cases.append({"fns": [f1], "ninst": 1, "bodies": [one_item], "actors": [
            [{"acts": [ca, ["dirty", 0, "none", [b], [], 0], ckw], "wait": "mine"}, {"acts": [cb, ca], "wait": "mine"}]]})
    return json.loads(json.dumps(cases))


def thread_schedules():
    """thread lifetimes: a helper thread leaves a task in flight (never run / blocked) and ends; a LATER thread on the same
    slot (new Thread object, recycled ident, same name) must get a task of its own and share only with itself"""
    cases = []
    one_item = {"steps": [{"pre": [], "y": "item"}], "post": [], "end": "ret"}
    two_items = {"steps": [{"pre": [], "y": "item"}, {"pre": [], "y": "item"}], "post": [], "end": "ret"}
    for decl in (SIGS[0], SIGS[2], SIGS[4], SIGS[6], SIGS[7]):
        s1, s2, s3 = two_spellings(decl)

        def on(sp, th, op="call"):
            return [op, 0] + sp[:3] + [th]
        base = {"fns": [decl], "ninst": 2}
        # abandoned by the early thread, thread ends, later thread on the slot: new task, then shares with itself
        cases.append(dict(base, bodies=[one_item], actors=[[{"acts": [
            on(s1, 1, "callx"), on(s2, 1, "callx"), ["retire", 1], on(s1, 1), on(s2, 1), on(s1, 0)], "wait": "mine"}]]))
        # four early threads one after the other (like a thread pool that is torn down), then later ones
        acts = []
        for _ in range(4):
            acts += [on(s1, 1, "callx"), ["retire", 1]]
        acts += [on(s1, 1), on(s2, 1), ["retire", 1], on(s2, 1), on(s1, 1)]
        cases.append(dict(base, bodies=[one_item], actors=[[{"acts": acts, "wait": "mine"}]]))
        # the early thread's task is BLOCKED (started on the main scheduler) when its thread ends
        cases.append(dict(base, bodies=[two_items], actors=[
            [{"acts": [on(s1, 1)], "wait": "mine"}],
            [{"acts": [], "wait": "tick"}, {"acts": [["retire", 1], on(s2, 1), on(s1, 1)], "wait": "mine"}]]))
        # two slots: one retires, the other stays; dirty() from the later thread must not touch the leftover entry
        cases.append(dict(base, bodies=[one_item], actors=[[{"acts": [
            on(s1, 1, "callx"), on(s1, 2, "callx"), ["retire", 1], on(s1, 1, "dirty"), on(s1, 2), on(s1, 1), on(s2, 1)],
            "wait": "mine"}]]))
        # leftover of an earlier top-level computation, seen by a later computation (same thread / later thread)
        cases.append(dict(base, bodies=[one_item], actors=[[{"acts": [on(s1, 0, "callx"), on(s1, 1, "callx")], "wait": "tick"}]],
                          more=[[[{"acts": [["retire", 1], on(s2, 0), on(s2, 1)], "wait": "mine"}]],
                                [[{"acts": [on(s1, 0), on(s3, 0), on(s1, 1)], "wait": "mine"}]]]))
    return json.loads(json.dumps(cases))


def toplevel_schedules():
    """calls from outside any asynq task (top level of the thread) and receivers with unusual __hash__ / __bool__"""
    cases = []
    one_item = {"steps": [{"pre": [], "y": "item"}], "post": [], "end": "ret"}
    for decl in (SIGS[0], SIGS[4], SIGS[5], SIGS[6]):
        s1, s2, s3 = two_spellings(decl)
        c1, c2, c3 = ["call", 0] + s1, ["call", 0] + s2, ["call", 0] + s3
        for cls in (0, 1, 2, 3):
            if cls and decl["kind"] == "func":
                continue
            base = {"fns": [decl], "ninst": 2, "cls": cls}
            # top level: two spellings share, a different key does not, dirty() re-creates; a computation then shares
            cases.append(dict(base, bodies=[one_item], top=[c1, c2, c3, ["dirty", 0] + s2, c1, ["callx", 0] + s3],
                              actors=[[{"acts": [c2, c3], "wait": "mine"}, {"acts": [c1], "wait": "mine"}]]))
            if decl["kind"] == "method":
                o1, o2, _ = two_spellings(decl, inst=1)
                cases.append(dict(base, bodies=[one_item], actors=[[{"acts": [
                    c1, ["call", 0] + o1, c2, ["call", 0] + o2, ["dirty", 0] + o1, ["call", 0] + o2, c1], "wait": "mine"}]]))
    return json.loads(json.dumps(cases))


def interaction_schedules():
    """round 4: this property's mechanism together with another feature, or used in a rarely seen way"""
    cases = []
    one_item = {"steps": [{"pre": [], "y": "item"}], "post": [], "end": "ret"}
    two_items = {"steps": [{"pre": [], "y": "item"}, {"pre": [], "y": "item"}], "post": [], "end": "ret"}
    dsync = {"steps": [{"pre": [], "y": "dsync"}, {"pre": [], "y": "item"}, {"pre": [], "y": "dsync"}], "post": [], "end": "ret"}
    failing = {"steps": [{"pre": [], "y": "item"}], "post": [], "end": "raise"}

    def sp(decl, fi, inst=0):
        s1, s2, s3 = two_spellings(decl, inst)
        return ["call", fi] + s1, ["call", fi] + s2, ["call", fi] + s3

    # (1) ONE deduplicate() object applied to two / three functions with different signatures, in both orders, with and
    # without a shared asynq() object: every function normalises ITS OWN signature (spellings share, other keys do not),
    # in the same yield and in a later step while the first call is blocked
    for a, b in ((0, 1), (0, 2), (2, 0), (1, 0), (4, 5), (5, 4), (0, 4), (6, 0), (3, 0), (0, 3), (8, 9), (7, 0), (0, 7), (9, 2)):
        for order in ([0, 1], [1, 0]):
            A, B = SIGS[a], SIGS[b]
            a1, a2, a3 = sp(A, 0)
            b1, b2, b3 = sp(B, 1)
            deco = {"outer": [0, 0], "inner": [0, 0] if (a + b + order[0]) % 2 else [0, 1], "order": order}
            cases.append({"fns": [A, B], "ninst": 2, "deco": deco, "bodies": [two_items], "actors": [
                [{"acts": [b1, a1, b3, a3], "wait": "mine"}],
                [{"acts": [b2, a2], "wait": "mine"}],
                [{"acts": [], "wait": "tick"}, {"acts": [a2, b2, b1, a1, b3, a3], "wait": "mine"}]]})
    A, B, Cc = SIGS[0], SIGS[2], SIGS[5]
    for order in ([0, 1, 2], [2, 1, 0], [1, 2, 0]):
        for outer in ([0, 0, 0], [0, 1, 0], [1, 0, 0]):
            a1, a2, a3 = sp(A, 0)
            b1, b2, b3 = sp(B, 1)
            c1, c2, c3 = sp(Cc, 2)
            cases.append({"fns": [A, B, Cc], "ninst": 2, "deco": {"outer": outer, "inner": [0, 0, 0], "order": order},
                          "bodies": [one_item], "actors": [
                [{"acts": [a1, b1, c1, a2, b2, c2, a3, b3, c3], "wait": "mine"}, {"acts": [c2, b2, a2], "wait": "mine"}]]})
    # (2) created by one thread, driven to completion by ANOTHER (top level, nothing else in flight): afterwards the key is
    # free again for the creating thread - value and failure; then a computation uses the same keys
    for decl in (SIGS[0], SIGS[4], SIGS[6]):
        c1, c2, c3 = sp(decl, 0)
        for body in (one_item, failing, dsync):
            for creator, driver in ((0, 1), (1, 0), (1, 2), (0, 0)):
                def on(c, th=creator, op=None):
                    return [op or c[0]] + c[1:5] + [th]
                cases.append({"fns": [decl], "ninst": 2, "bodies": [body],
                              "top": [on(c1), on(c2), on(c3, op="callx"), ["drive", 0, driver], on(c2), on(c1), ["drive", 0, driver],
                                      on(c1), ["drive", 1, driver], on(c3)],
                              "actors": [[{"acts": [on(c1), on(c2), on(c3)], "wait": "mine"}]]})
    # (3) the function used in asyncio mode (await f.asyncio(..) / f.asynq(..) inside a running fn.asyncio()) before anything,
    # and while an asynq-mode call of the same key is in flight (leftover of the first computation): no entry is made,
    # used or removed
    for decl in (SIGS[0], SIGS[4], SIGS[6], SIGS[2]):
        c1, c2, c3 = sp(decl, 0)
        for variant in (0, 1, 2):
            aio1, aio2 = ["aio"] + c1[1:5] + [variant], ["aio"] + c2[1:5] + [variant]
            cases.append({"fns": [decl], "ninst": 2, "bodies": [one_item],
                          "top": [aio1, ["callx"] + c1[1:], aio2, c2, aio1],
                          "actors": [[{"acts": [["callx"] + c3[1:], c1], "wait": "mine"}]],
                          "top2": [aio2, ["aio"] + c3[1:5] + [variant], c3, ["drive", 0, 0], aio1],
                          "more": [[[{"acts": [c3, c2, c1], "wait": "mine"}]]]})
    # (4) events of other features while the call is blocked: every debug / profiling option switched on (and off again)
    # in mid-flight, a garbage collection, asynq.mock.patch entered and left, the synchronous call f(args)
    for decl in (SIGS[0], SIGS[5], SIGS[6]):
        c1, c2, c3 = sp(decl, 0)
        for k in range(len(OPTS)):
            cases.append({"fns": [decl], "ninst": 2, "bodies": [dsync if k % 2 else two_items], "actors": [
                [{"acts": [c1], "wait": "mine"}, {"acts": [c2, ["opt", k], c1], "wait": "mine"}],
                [{"acts": [], "wait": "tick"}, {"acts": [["opt", k], c2, ["gc"], c1, c3], "wait": "mine"},
                 {"acts": [c2, ["opt", k]], "wait": "mine"}]]})
        cases.append({"fns": [decl], "ninst": 2, "bodies": [two_items], "actors": [
            [{"acts": [c1], "wait": "mine"}],
            [{"acts": [], "wait": "tick"}, {"acts": [["mock", 0], c2, ["sync"] + c1[1:], c1, ["gc"], ["sync"] + c3[1:], c3, c2],
                                            "wait": "mine"}]]})
    # (5) bound wrappers kept and used again, copies of bound wrappers, copies of instances
    for decl in (SIGS[4], SIGS[5], SIGS[9]):
        for instcopy in (0, 1):
            c1, c2, c3 = sp(decl, 0)
            o1, o2, o3 = sp(decl, 0, inst=1)

            def how(c, h):
                return c[:2] + [c[2] + [h]] + c[3:]
            cases.append({"fns": [decl], "ninst": 2, "instcopy": instcopy, "bodies": [two_items], "actors": [
                [{"acts": [how(c1, "stored"), c2, how(c1, "copy"), how(o1, "stored"), o2], "wait": "mine"}],
                [{"acts": [], "wait": "tick"},
                 {"acts": [how(c2, "stored"), how(o2, "copy"), how(c1, "stored"), ["dirty"] + how(o1, "copy")[1:], o1, c1,
                           how(c3, "copy")], "wait": "mine"}]]})
    return json.loads(json.dumps(cases))


def equal_instance_schedules():
    """round 6 (audit 3, B6): a method reached through two DISTINCT instances of a class with value equality (frozen
    dataclass with a compare=False field / hand-written __eq__ and __hash__) that are == (groups [0, 0]: OPEN FINDING
    dedup/fail:equal-instances@call - one table entry, the body runs on the other instance) or not == (groups [0, 1]: the
    harmless neighbour, must pass): in the same yield, in a later step while the first call is blocked, a dirty() through
    the other instance while in flight, the instance passed explicitly through the class, after completion"""
    cases = []
    two_items = {"steps": [{"pre": [], "y": "item"}, {"pre": [], "y": "item"}], "post": [], "end": "ret"}
    one_item = {"steps": [{"pre": [], "y": "item"}], "post": [], "end": "ret"}
    for decl in (SIGS[4], SIGS[5], SIGS[9]):
        for style in ("dc", "eq"):
            for groups in ([0, 0], [0, 1]):
                c1, c2, c3 = [["call", 0] + x for x in two_spellings(decl, 0)]
                o1, o2, o3 = [["call", 0] + x for x in two_spellings(decl, 1)]
                base = {"fns": [decl], "ninst": 2, "insteq": {"style": style, "groups": groups}}
                cases.append(dict(base, bodies=[one_item], actors=[[{"acts": [c1, o1, c2, o2, c3, o3], "wait": "mine"}]]))
                cases.append(dict(base, bodies=[two_items], actors=[
                    [{"acts": [c1], "wait": "mine"}],
                    [{"acts": [], "wait": "tick"}, {"acts": [o1, o2, c2], "wait": "mine"}]]))
                cases.append(dict(base, bodies=[two_items], actors=[
                    [{"acts": [c1], "wait": "mine"}],
                    [{"acts": [], "wait": "tick"}, {"acts": [["dirty"] + o1[1:], c1, o1], "wait": "mine"}]]))
                via_cls = ["call", 0, "cls", [101] + o1[3], o1[4], 0]
                cases.append(dict(base, bodies=[two_items], actors=[
                    [{"acts": [c1], "wait": "mine"}],
                    [{"acts": [], "wait": "tick"}, {"acts": [via_cls, o2], "wait": "mine"}]]))
                cases.append(dict(base, bodies=[one_item], actors=[
                    [{"acts": [c1], "wait": "mine"}, {"acts": [o1, c2], "wait": "mine"}]]))
    # three instances, two of them equal; together with a colliding __hash__ / falsy receivers
    decl = SIGS[4]
    for style in ("dc", "eq"):
        for groups in ([0, 1, 0], [0, 1, 1], [0, 1, 2]):
            for cls in (0, 1, 2):
                cs = [["call", 0] + two_spellings(decl, i)[i % 2] for i in range(3)]
                c = {"fns": [decl], "ninst": 3, "insteq": {"style": style, "groups": groups}, "bodies": [two_items], "actors": [
                    [{"acts": [cs[0]], "wait": "mine"}],
                    [{"acts": [], "wait": "tick"}, {"acts": [cs[1], cs[2], cs[0]], "wait": "mine"}]]}
                if cls:
                    c["cls"] = cls
                cases.append(c)
    return json.loads(json.dumps(cases))


def reset_schedules():
    """round 5: reset / abort / completed-from-outside paths.  The key of a call is (function, arguments, THREAD): it does
    not change when the thread's scheduler object is replaced (asynq.scheduler.reset(), what a request / test harness does
    after an aborted computation) or emptied (TaskScheduler.reset()), and the in-flight period of a call does not end when
    the computation that awaited it is aborted - only when the task completes, by whatever means"""
    cases = []
    one_item = {"steps": [{"pre": [], "y": "item"}], "post": [], "end": "ret"}
    two_items = {"steps": [{"pre": [], "y": "item"}, {"pre": [], "y": "item"}], "post": [], "end": "ret"}
    three_items = {"steps": [{"pre": [], "y": "item"}, {"pre": [], "y": "dsync"}, {"pre": [], "y": "item"}], "post": [], "end": "ret"}
    failing = {"steps": [{"pre": [], "y": "item"}, {"pre": [], "y": "item"}], "post": [], "end": "raise"}
    for decl in (SIGS[0], SIGS[2], SIGS[4], SIGS[6], SIGS[8]):
        s1, s2, s3 = two_spellings(decl)

        def on(sp, th, op="call"):
            return [op, 0] + sp[:3] + [th]
        base = {"fns": [decl], "ninst": 2}
        for how in (0, 1):
            for th, other in ((0, 1), (1, 0), (1, 2)):
                # (1) created, not started; the scheduler of the creating thread (and then of another thread) is replaced:
                # the other spelling still gets the very task; dirty() still finds the entry; a computation shares it
                cases.append(dict(base, bodies=[one_item],
                                  top=[on(s1, th), on(s2, th), ["sreset", th, how], on(s2, th), on(s3, th, "callx"),
                                       ["sreset", other, how], on(s1, th), ["sreset", th, 1 - how], on(s3, th),
                                       on(s3, th, "dirty"), on(s3, th)],
                                  actors=[[{"acts": [on(s1, th), on(s2, th), on(s3, th)], "wait": "mine"},
                                           {"acts": [on(s1, th)], "wait": "mine"}]]))
            # (2) the first computation is aborted at its k-th flush while the call is blocked; the scheduler is replaced /
            # emptied / kept; the next computation gets the SAME task (the body is not started again), after its
            # completion the key is free
            for k in (1, 2):
                for kind in (0, 1):
                    for between in ([["sreset", 0, how]], [["sreset", 0, how], on(s2, 0)], []):
                        if not between and how:
                            continue
                        cases.append(dict(base, bodies=[three_items if k == 2 else two_items, one_item], abort=[k, kind],
                                          actors=[[{"acts": [on(s1, 0), on(s3, 0)], "wait": "mine"}]],
                                          top2=between,
                                          more=[[[{"acts": [on(s2, 0)], "wait": "mine"}, {"acts": [on(s1, 0), on(s3, 0)], "wait": "mine"}]],
                                                [[{"acts": [on(s2, 0), on(s1, 0)], "wait": "mine"}]]]))
            # (3) inside a computation: a helper thread's scheduler is replaced between two of its calls (unstarted and
            # blocked tasks of that thread)
            cases.append(dict(base, bodies=[two_items], actors=[
                [{"acts": [on(s1, 1), on(s3, 2, "callx")], "wait": "mine"}],
                [{"acts": [], "wait": "tick"},
                 {"acts": [["sreset", 1, how], on(s2, 1), ["sreset", 2, how], on(s3, 2), ["sreset", 1, 1 - how], on(s1, 1),
                           on(s1, 1, "dirty"), on(s2, 1)], "wait": "mine"}]]))
        # (4) a task nobody started is completed from outside (set_value / set_error) by the creating / another thread:
        # every reader receives that outcome, the key is free again for the creating thread, only that entry goes
        for b in (one_item, failing):
            for creator, by in ((0, 0), (0, 1), (1, 0), (1, 2)):
                cases.append(dict(base, bodies=[b],
                                  top=[on(s1, creator, "callx"), on(s3, creator, "callx"), on(s2, creator), ["extdone", 0, 0, by],
                                       on(s2, creator), on(s3, creator), ["extdone", 0, 1, by], on(s1, creator), on(s3, creator)],
                                  actors=[[{"acts": [on(s1, creator), on(s2, creator), on(s3, creator)], "wait": "mine"}]]))
    return json.loads(json.dumps(cases))


def sharers_case(n):
    """n callers (alternating spellings) of only three keys - one of them hot - in the same yield, and again while blocked"""
    sig = {"kind": "func", "pos": [[1, None], [2, 1]], "kwonly": [], "varargs": False, "varkw": False}
    def k(i):
        return i % 3 if i % 50 == 0 else 0           # one hot key (98% of the calls) and two others
    acts = [["call", 0, "none", [], [[2, 1], [1, k(i)]], 0] if i % 2 else ["call", 0, "none", [k(i)], [], 0] for i in range(n)]
    two_items = {"steps": [{"pre": [], "y": "item"}, {"pre": [], "y": "item"}], "post": [], "end": "ret"}
    return {"fns": [sig], "ninst": 1, "bodies": [two_items], "actors": [
        [{"acts": acts[: n // 2], "wait": "mine"}], [{"acts": [], "wait": "tick"}, {"acts": acts[n // 2:], "wait": "mine"}]]}


FANOUT_QUICK = [20, 70, 140, 270, 530, 1100, 2200]
FANOUT_THOROUGH = [4300, 8300]


def fanout_case(n, variant):
    """n distinct keys in flight at the same time, then repeated calls (other spelling) for the oldest, a middle and the
    newest key while all are still in flight, then again after completion.
    variant % 4: 0 one function f(p0, p1=1) / 1 two functions with the same signature / 2 method on 3 instances /
    3 one function called from 3 threads;  variant // 4: 0 bodies blocked on a batch / 1 created and never run"""
    layout, never_run = variant % 4, (variant // 4) % 2
    sig = {"kind": "method" if layout == 2 else "func", "pos": ([[0, None]] if layout == 2 else []) + [[1, None], [2, 1]],
           "kwonly": [], "varargs": False, "varkw": False}
    fns = [sig, dict(sig)] if layout == 1 else [sig]

    def key(i, kwform):
        fi = i % 2 if layout == 1 else 0
        th = i % 3 if layout == 3 else 0
        recv = ["inst", i % 3] if layout == 2 else "none"
        v = 1000 + i
        return [fi, recv, [], [[2, 1], [1, v]], th] if kwform else [fi, recv, [v], [], th]

    first = [["callx" if never_run else "call"] + key(i, False) for i in range(n)]
    probe = sorted({0, 1, 2, n // 2, n - 2, n - 1} & set(range(n)))
    again = [["call"] + key(i, True) for i in probe]
    two_items = {"steps": [{"pre": [], "y": "item"}, {"pre": [], "y": "item"}], "post": [], "end": "ret"}
    actors = [[{"acts": first, "wait": "mine"}],
              [{"acts": [], "wait": "tick"}, {"acts": again, "wait": "mine"},
               {"acts": [["call"] + key(0, False), ["call"] + key(0, True)], "wait": "mine"}]]
    return {"fns": fns, "ninst": 3, "bodies": [two_items], "actors": actors, "fanout": [n, variant]}


def fanout_cases(tier, rng):
    sizes = list(FANOUT_QUICK) + (FANOUT_THOROUGH if tier != "quick" else [])
    cases = []
    v0 = rng.randrange(8)
    for j, n in enumerate(sizes):
        # every size a little above the round number, with two of the eight layouts (rotating with the seed)
        cases.append(fanout_case(n + rng.randrange(0, 9), (v0 + j) % 8))
        if n <= 2200:
            cases.append(fanout_case(n + rng.randrange(0, 9), (v0 + j + 3) % 8))     # together: all 8 layouts in every run
    return cases


def all_acts(case):
    """every act of a case (actors of all computations, top level, inside the bodies)"""
    for acs in [case.get("actors", [])] + list(case.get("more", [])):
        for ac in acs:
            for ph in ac:
                for a in ph["acts"]:
                    yield a
    for a in list(case.get("top", [])) + list(case.get("top2", [])):
        yield a
    for b in case.get("bodies", []):
        for st in b["steps"]:
            for a in st["pre"]:
                yield a
        for a in b.get("post", []):
            yield a


def corpus():
    import glob
    import os
    res = []
    d = os.path.join(os.path.dirname(os.path.dirname(os.path.dirname(os.path.abspath(__file__)))), "corpus", PID)
    for p in sorted(glob.glob(os.path.join(d, "*.json"))):
        with open(p) as f:
            res.append(json.load(f))
    return res


def plan(tier, seed):
    rng = random.Random(seed * 1000003 + 12)
    n = 6000 if tier == "quick" else 60000
    cases = corpus() + named_schedules() + thread_schedules() + toplevel_schedules() + interaction_schedules() + reset_schedules() + equal_instance_schedules()
    cases += [sharers_case(n) for n in ([300, 2500] if tier == "quick" else [300, 2500, 20000])]
    frng = random.Random(seed * 7919 + 1212)
    cases += fanout_cases(tier, frng)
    cases += [gen_case(rng) for _ in range(n)]
    return cases


def shrink(case):
    def clone():
        return json.loads(json.dumps({k: v for k, v in case.items() if k != "id"}))
    if case.get("fanout"):
        # the size is the parameter: look for the smallest n that still fails, nothing else
        n, variant = case["fanout"]
        for m in (n // 2, (3 * n) // 4, (7 * n) // 8, n - 16, n - 4, n - 1):
            if 3 <= m < n:
                yield fanout_case(m, variant)
        return
    for key in ("top", "top2"):
        if case.get(key):
            c = clone()
            del c[key]
            yield c
            for i in range(len(case[key])):
                c = clone()
                del c[key][i]
                if not c[key]:
                    del c[key]
                yield c
    for key in ("cls", "instcopy", "abort", "insteq"):
        if case.get(key):
            c = clone()
            del c[key]
            yield c
    if case.get("deco"):
        c = clone()                        # every function its own deduplicate() / asynq() object
        del c["deco"]
        yield c
        nf = len(case["fns"])
        if case["deco"]["order"] != list(range(nf)):
            c = clone()
            c["deco"]["order"] = list(range(nf))
            yield c
        if case["deco"]["inner"] != list(range(nf)):
            c = clone()
            c["deco"]["inner"] = list(range(nf))
            yield c
    if case.get("more"):
        c = clone()
        c["more"].pop()
        if not c["more"]:
            del c["more"]
        yield c
        c = clone()                        # drop the FIRST computation instead
        c["actors"], c["more"] = c["more"][0], c["more"][1:]
        if not c["more"]:
            del c["more"]
        yield c
    for i in range(len(case["actors"])):
        if len(case["actors"]) > 1:
            c = clone()
            del c["actors"][i]
            yield c
    for i, a in enumerate(case["actors"]):
        for j in range(len(a)):
            c = clone()
            del c["actors"][i][j]
            if c["actors"][i]:
                yield c
            for k in range(len(a[j]["acts"])):
                c = clone()
                del c["actors"][i][j]["acts"][k]
                yield c
    for i in range(len(case["bodies"])):
        if len(case["bodies"]) > 1:
            c = clone()
            del c["bodies"][i]
            yield c
        b = case["bodies"][i]
        for j in range(len(b["steps"])):
            c = clone()
            del c["bodies"][i]["steps"][j]
            yield c
            if b["steps"][j]["pre"]:
                c = clone()
                c["bodies"][i]["steps"][j]["pre"] = []
                yield c
            if b["steps"][j]["y"] != "item":
                c = clone()
                c["bodies"][i]["steps"][j]["y"] = "item"
                yield c
        if b.get("post"):
            c = clone()
            c["bodies"][i]["post"] = []
            yield c
        if b["end"] != "ret":
            c = clone()
            c["bodies"][i]["end"] = "ret"
            yield c
    # drop an unused trailing function
    used = {a[1] for acs in [case["actors"]] + case.get("more", []) for ac in acs for ph in ac for a in ph["acts"]
            if a[0] not in NOFN}
    used |= {a[1] for a in case.get("top", []) + case.get("top2", []) if a[0] not in NOFN}
    used |= {a[1] for b in case["bodies"] for st in b["steps"] for a in st["pre"] if len(a) > 1 and a[0] not in NOFN}
    used |= {a[1] for b in case["bodies"] for a in b.get("post", []) if len(a) > 1 and a[0] not in NOFN}
    if len(case["fns"]) > 1 and (len(case["fns"]) - 1) not in used:
        c = clone()
        c["fns"].pop()
        if c.get("deco"):
            last = len(c["fns"])
            c["deco"] = {"outer": c["deco"]["outer"][:last], "inner": c["deco"]["inner"][:last],
                         "order": [i for i in c["deco"]["order"] if i != last]}
        yield c


def neighbours(case, rng):
    for _ in range(32):
        c = gen_case(rng)
        c["fns"] = json.loads(json.dumps(case["fns"]))
        c["ninst"] = max(c["ninst"], case["ninst"])      # instance tokens in the generated spellings stay valid
        nf = len(c["fns"])

        def fix(a):
            if len(a) > 1 and a[0] not in NOFN and a[1] >= nf:
                a[1] = a[1] % nf
        for acs in [c["actors"]] + c.get("more", []):
            for ac in acs:
                for ph in ac:
                    for a in ph["acts"]:
                        fix(a)
        for a in c.get("top", []) + c.get("top2", []):
            fix(a)
        c.pop("deco", None)
        if case.get("deco"):
            c["deco"] = json.loads(json.dumps(case["deco"]))
        for b in c["bodies"]:
            for st in b["steps"]:
                for a in st["pre"]:
                    fix(a)
            for a in b.get("post", []):
                fix(a)
        yield c
    yield case


CONFLATIONS = ("varargs-kwonly", "posonly-varkw", "varargs-varkw-pair")


def signature(case, v):
    """WHAT fails.  A key conflation is one defect whichever operation shows it (a call answered with the task of a
    different call, or - since the observer judges len(tasks) exactly where it knows the entry - a dirty() that evicts the
    entry of a different call): the signature names the conflation, in the form the recorded findings use."""
    sp = v["spec"]
    for c in CONFLATIONS:
        if sp.startswith("fail:%s@" % c):
            return "dedup/fail:%s@call" % c
    if sp.startswith("fail:equal-instances@"):
        # ==-equal distinct receivers share one table entry: one finding whichever operation shows it (a call answered with
        # the other instance's task, a dirty() that evicts the other instance's entry)
        return "dedup/fail:equal-instances@call"
    return "dedup/%s" % sp


# ---------------------------------------------------------------------------------------------------
# implementation side
# ---------------------------------------------------------------------------------------------------

class UserErr(Exception):
    pass


class BaseErr(BaseException):
    """a failure that is not an Exception (like KeyboardInterrupt / GeneratorExit-free BaseException subclasses)"""
    pass


def run_case(case):
    import copy
    import gc
    import inspect
    import io
    import threading
    import time
    import types

    import asynq
    import asynq.scheduler
    from asynq import batching, futures
    from asynq.tools import DeduplicateDecorator, deduplicate

    DeduplicateDecorator.tasks.clear()   # process-wide table: leftovers of earlier cases in this worker
    alive = [True]        # False once the case is over: a body of THIS case that an even later case happens to resume (a
                          # batch the scheduler of the thread kept after a BaseException escaped) must not touch anything
    fns_decl = case["fns"]
    ninst = case["ninst"]
    log = []
    feats = {}
    objs = []             # keep every task alive (identity tokens)
    tok_of = {}
    spelling_of = {}      # task token -> the spelling that created it
    made_on_tok = {}      # task token -> token of the thread that created it
    started = set()
    exit_of = {}          # task token -> how its body ended, as logged by the body: "(val r)" / "(err r)"
    resumed = {}
    done = set()
    runs = [0]
    slots = []
    seen_calls = {}

    def feat(k):
        feats[k] = feats.get(k, 0) + 1

    def size():
        return len(DeduplicateDecorator.tasks)

    # ---- harness batch -------------------------------------------------------------------------
    cur = [None]

    class HBatch(batching.BatchBase):
        def _try_switch_active_batch(self):
            if cur[0] is self:
                cur[0] = None

        def _flush(self):
            feat("flush")
            for it in self.items:
                it.set_value(None)

        def _cancel(self):
            pass

    class HItem(batching.BatchItemBase):
        def __init__(self):
            if cur[0] is None or cur[0].is_flushed():
                cur[0] = HBatch()
            batching.BatchItemBase.__init__(self, cur[0])

    # ---- functions -----------------------------------------------------------------------------
    class Hooks(object):
        pass

    H = Hooks()
    cls_dict = {}
    plain = types.SimpleNamespace()      # module-like holder of the plain functions (so that mock.patch.object can reach them)
    raw_sig = {}
    # the decoration phase: which deduplicate() object and which asynq() object decorates which function, in what order
    deco = case.get("deco") or {}
    nfn = len(fns_decl)
    outer_of = [g % max(1, nfn) for g in deco.get("outer", [])][:nfn]
    outer_of += list(range(len(outer_of), nfn)) if not deco else [0] * (nfn - len(outer_of))
    inner_of = list(deco.get("inner", []))[:nfn]
    inner_of += list(range(len(inner_of), nfn)) if not deco else [0] * (nfn - len(inner_of))
    order = [i for i in deco.get("order", []) if isinstance(i, int) and 0 <= i < nfn]
    order = list(dict.fromkeys(order)) + [i for i in range(nfn) if i not in order]
    outer_objs, inner_objs = {}, {}
    deco_fn = {}
    if len(set(outer_of)) < nfn:
        feat("one-deduplicate-object-on-several-functions")
        if len({json.dumps([fns_decl[i]["pos"], fns_decl[i]["kwonly"], fns_decl[i]["varargs"], fns_decl[i]["varkw"]])
                for i in range(nfn)}) > 1:
            feat("shared-deduplicate-object-different-signatures")
    if len(set(inner_of)) < nfn:
        feat("one-asynq-object-on-several-functions")
    if order != list(range(nfn)):
        feat("decorated-in-another-order")
    for fi in order:
        d = fns_decl[fi]
        params = []
        for i, (nm, df) in enumerate(d["pos"]):
            params.append("p%d" % nm if df is None else "p%d=%d" % (nm, df))
            if i + 1 == d.get("posonly", 0):
                params.append("/")
        if d["varargs"]:
            params.append("*rest")
        elif d["kwonly"]:
            params.append("*")
        for nm, df in d["kwonly"]:
            params.append("p%d" % nm if df is None else "p%d=%d" % (nm, df))
        if d["varkw"]:
            params.append("**extra")
        names = ["p%d" % nm for nm, _ in d["pos"]] + ["p%d" % nm for nm, _ in d["kwonly"]]
        tup = "(%s,)" % ", ".join(names) if names else "()"
        src = "def body%d(%s):\n    return (yield from __H.run(%d, %s, %s, %s))\n" % (
            fi, ", ".join(params), fi, tup, "rest" if d["varargs"] else "()", "extra" if d["varkw"] else "{}")
        ns = {"__H": H}
        exec(src, ns)
        # the seldom spelled-out keyword: keygetter=None is the default key
        raw_sig[fi] = inspect.signature(ns["body%d" % fi])
        g, h = outer_of[fi], inner_of[fi]
        if g not in outer_objs:
            outer_objs[g] = deduplicate(keygetter=None) if g % 2 else deduplicate()
        if h not in inner_objs:
            inner_objs[h] = asynq.asynq()
        fn = outer_objs[g](inner_objs[h](ns["body%d" % fi]))
        deco_fn[fi] = fn
        if d["kind"] == "func":
            setattr(plain, "f%d" % fi, fn)
        elif d["kind"] == "method":
            cls_dict["f%d" % fi] = fn
        else:
            cls_dict["f%d" % fi] = staticmethod(fn)
    clsflags = case.get("cls", 0)
    if clsflags & 1:
        cls_dict["__hash__"] = lambda self: 7          # identity __eq__ stays: distinct instances, one hash
        feat("receiver-colliding-hash")
    if clsflags & 2:
        cls_dict["__bool__"] = lambda self: False
        cls_dict["__len__"] = lambda self: 0
        feat("receiver-falsy")
    insteq = case.get("insteq") if (not case.get("instcopy") and ninst > 1) else None
    eqv_pairs = []
    if insteq:
        # receiver instances with VALUE equality: instance i compares (and hashes) by groups[i]; `tag` is not compared
        groups = [insteq["groups"][i % len(insteq["groups"])] for i in range(ninst)]
        if insteq.get("style") == "dc":
            import dataclasses
            C = dataclasses.make_dataclass(
                "C", [("grp", int, dataclasses.field(default=0)), ("tag", int, dataclasses.field(default=0, compare=False))],
                namespace=cls_dict, frozen=True)
            feat("receiver-class-frozen-dataclass-compare-False-field")
        else:
            def c_init(self, grp=0, tag=0):
                self.grp = grp
                self.tag = tag
            cls_dict["__init__"] = c_init
            cls_dict["__eq__"] = lambda self, other: type(other) is type(self) and other.grp == self.grp
            cls_dict["__ne__"] = lambda self, other: not (type(other) is type(self) and other.grp == self.grp)
            cls_dict.setdefault("__hash__", lambda self: hash(("C", self.grp)))
            C = type("C", (object,), cls_dict)
            feat("receiver-class-custom-eq-hash")
        insts = [C(groups[i], i) for i in range(ninst)]
        eqv_pairs = [(100 + i, 100 + groups.index(g)) for i, g in enumerate(groups) if groups.index(g) != i]
        feat("receiver-instances-equal-not-identical" if eqv_pairs else "receiver-class-value-equality-all-distinct")
    else:
        C = type("C", (object,), cls_dict)
        insts = [C() for _ in range(max(1, ninst))]
    if case.get("instcopy"):
        insts[0].note = ["an attribute"]
        insts = [insts[0]] + [copy.copy(insts[0]) for _ in insts[1:]]     # distinct objects: distinct receivers
        feat("receiver-instances-are-copies")
    inst_tok = {id(o): 100 + i for i, o in enumerate(insts)}

    class Coll(object):
        """distinct objects (identity __eq__) whose hashes all collide"""
        __slots__ = ()

        def __hash__(self):
            return 12345

    class Falsy(object):
        """identity __eq__ / __hash__, but falsy and 'empty'"""
        def __bool__(self):
            return False

        def __len__(self):
            return 0

    class NoRepr(object):
        """identity __eq__ / __hash__; cannot be printed"""
        def __repr__(self):
            raise RuntimeError("no repr")

        __str__ = __repr__

    class EqVal(object):
        """compares and hashes by value: every use of token 76 is a NEW object equal to all the others"""
        def __init__(self, v):
            self.v = v

        def __eq__(self, other):
            return isinstance(other, EqVal) and other.v == self.v

        def __ne__(self, other):
            return not self.__eq__(other)

        def __hash__(self):
            return hash(("EqVal", self.v))

    class StrSub(str):
        pass

    special = {50: -1, 51: -2, 60: Coll(), 61: Coll(), 70: None, 71: "", 72: (), 73: frozenset(), 74: Falsy(), 75: NoRepr()}
    special_tok = {id(o): t for t, o in special.items() if t in (60, 61, 74, 75)}

    def val(x):
        if isinstance(x, int) and x >= PAIR_BASE:
            feat("arg-name-value-tuple")
            return ("p%d" % ((x - PAIR_BASE) // 1000), val((x - PAIR_BASE) % 1000))
        if isinstance(x, int) and x >= 1000:
            feat("arg-large-int")
            return int(str(x))                      # a new int object every time: equal, never identical
        if isinstance(x, int) and x >= 100:
            return insts[(x - 100) % len(insts)]
        if x == 76:
            feat("arg-fresh-equal-object")
            return EqVal(76)
        if x == 77:
            feat("arg-fresh-equal-object")
            return StrSub("seventy-seven")
        if x in special:
            if x >= 70:
                feat("arg-exotic-value")
            elif x >= 50:
                feat("arg-colliding-hash")
            return special[x]
        return x

    def vtok(x):
        if x is None:
            return 70
        if isinstance(x, EqVal):
            return x.v
        if isinstance(x, StrSub):
            return 77
        if isinstance(x, str):
            return 71 if x == "" else UNKNOWN
        if isinstance(x, tuple):
            if len(x) == 2 and isinstance(x[0], str) and x[0][:1] == "p" and x[0][1:].isdigit() and vtok(x[1]) < 1000:
                return pair_tok(int(x[0][1:]), vtok(x[1]))
            return 72 if x == () else UNKNOWN
        if isinstance(x, frozenset):
            return 73 if not len(x) else UNKNOWN
        if isinstance(x, bool) or not isinstance(x, int):
            return inst_tok.get(id(x), special_tok.get(id(x), UNKNOWN))
        if x == -1:
            return 50
        if x == -2:
            return 51
        return x

    # ---- the decoration phase is OBSERVED: the keygetter every real decorated function carries (public attribute
    # `keygetter` of the DeduplicateDecorator) is applied to probe arguments - the spellings this case uses for the function,
    # with the instance in front for a call through an instance - before anything runs.  The Lean driver compares each
    # answer with the keygetter the MODEL's decoration phase (decorateAll) hands to that function.
    kg_lines = []

    def kg_probe(fi, eff_args, kw):
        if any((v >= 1000) for _, v in kw) or len(kg_lines) >= 24:
            return                                   # a (name, value) key element is encodable for value tokens < 1000 only
        head = "(kg %d (%s) (%s)" % (fi, " ".join(str(x) for x in eff_args), " ".join("(%d %d)" % (n, v) for n, v in kw))
        if any(l.startswith(head) for l in kg_lines):
            return
        try:
            tup = deco_fn[fi].keygetter(tuple(val(x) for x in eff_args), {"p%d" % n: val(v) for n, v in kw})
            ans = "(ok %s)" % " ".join(str(vtok(x)) for x in tup)
        except TypeError:
            ans = "(typeError)"
        except Exception as e:  # noqa
            ans = "(raised %s)" % type(e).__name__          # unparsable for the driver: CORR=diff
        kg_lines.append("%s %s)" % (head, ans))
        feat("keygetter-probe")

    per_fn = {}
    for a in all_acts(case):
        if a[0] in ("call", "callx", "dirty", "sync", "aio") and len(a) >= 5 and isinstance(a[3], list) and isinstance(a[4], list):
            fi = a[1] % nfn
            if per_fn.get(fi, 0) >= 6:
                continue
            recv = a[2]
            eff = list(a[3])
            if fns_decl[fi]["kind"] == "method" and not isinstance(recv, str):
                eff = [100 + recv[1] % len(insts)] + eff
            kwl = [[n, v] for n, v in dict((n, v) for n, v in a[4]).items()]
            before = len(kg_lines)
            kg_probe(fi, eff, kwl)
            per_fn[fi] = per_fn.get(fi, 0) + (len(kg_lines) - before)
    for fi in range(nfn):
        # one fixed probe per function whatever the case does: every positional-or-keyword parameter by position
        d = fns_decl[fi]
        kg_probe(fi, [(100 if (d["kind"] == "method" and i == 0) else 1) for i in range(len(d["pos"]))], [])

    stored = {}

    def target(fi, recv):
        d = fns_decl[fi]
        if d["kind"] == "func":
            return getattr(plain, "f%d" % fi)
        if recv == "cls" or recv == "none":
            return getattr(C, "f%d" % fi)
        i = recv[1] % len(insts)
        if len(recv) > 2:
            # a bound wrapper the caller keeps and uses again (second use of the same object), or a copy.copy() of it
            if (fi, i) in stored:
                feat("bound-wrapper-used-again")
            b = stored.setdefault((fi, i), getattr(insts[i], "f%d" % fi))
            if recv[2] == "copy" and d["kind"] == "method":
                feat("bound-wrapper-copied")
                return copy.copy(b)
            return b
        return getattr(insts[i], "f%d" % fi)

    # ---- helper threads: one Thread OBJECT per (slot, incarnation); the thread object is part of the key ----------
    # `retire slot` joins the thread of the slot; the next call on the slot starts a new thread (a new token).  All helper
    # threads carry the SAME name as the main thread and the OS usually hands the ident of the joined thread to the next.
    workers = {}
    parked = []
    incarnation = {}
    dead_idents = set()
    my_name = threading.current_thread().name

    def thtok(th):
        return th if th == 0 else th + 3 * incarnation.get(th, 0)

    class Worker(object):
        def __init__(self):
            self.req = None
            self.res = None
            self.go = threading.Event()
            self.fin = threading.Event()
            self.th = threading.Thread(target=self.loop, name=my_name)
            self.th.daemon = True
            self.th.start()
            self.ident = self.th.ident

        def loop(self):
            while True:
                self.go.wait()
                self.go.clear()
                if self.req is None:
                    return
                try:
                    self.res = (True, self.req())
                except BaseException as e:  # noqa
                    self.res = (False, e)
                self.fin.set()

        def call(self, f):
            self.req = f
            self.go.set()
            self.fin.wait()
            self.fin.clear()
            ok, r = self.res
            if ok:
                return r
            raise r

        def stop(self, patience=2):
            self.req = None
            self.go.set()
            self.th.join(patience)

    def on_thread(th, f):
        if th == 0:
            return f()
        if th not in workers:
            w = Worker()
            # CPython threads are detached: a joined thread gives its stack (= its ident) back a moment AFTER join()
            # returns.  A later thread that does not get the ident of a finished, logged thread exercises nothing new,
            # so such a candidate (it has not called anything and is never logged) is parked and creation is retried.
            tries = 0
            while dead_idents and w.ident not in dead_idents and tries < 25:
                parked.append(w)          # stays alive (keeps its ident occupied) until the end of the case
                time.sleep(0.0004 * (1 + tries))
                tries += 1
                w = Worker()
            workers[th] = w
            if w.ident in dead_idents:
                feat("thread-ident-recycled")
            if incarnation.get(th, 0) > 0:
                feat("later-thread-on-slot")
        return workers[th].call(f)

    def do_retire(th):
        th = th % 3
        if th == 0 or th not in workers:
            return
        w = workers.pop(th)
        w.stop(15)                       # the thread has been told to end: on an overloaded machine this can take a while
        if w.th.is_alive():
            # never observed.  The thread will end as soon as it gets the CPU and must not be used again (a call on it
            # would wait for ever): the slot starts a new incarnation, only the threadEnd observation is not logged
            incarnation[th] = incarnation.get(th, 0) + 1
            feat("thread-retire-timeout")
            return
        dead_idents.add(w.ident)
        log.append("(obs (threadEnd %d) (unit) %d)" % (thtok(th), size()))
        incarnation[th] = incarnation.get(th, 0) + 1
        feat("thread-retired")

    # ---- logged operations -----------------------------------------------------------------------
    def fmt_spell(fi, recv, args, kw, th):
        r = recv if isinstance(recv, str) else "(inst %d)" % (100 + recv[1])  # the instance TOKEN
        return "%d %s (%s) (%s) %d" % (fi, r, " ".join(str(a) for a in args),
                                       " ".join("(%d %d)" % (n, v) for n, v in kw), thtok(th))

    def do_call(fi, recv, args, kw, th, inside=None, keep=True):
        if not alive[0]:
            return None, False
        fi = fi % len(fns_decl)
        th = th % 3
        if fns_decl[fi]["kind"] == "func":
            recv = "none"
        elif recv == "none":
            recv = "cls"
        if not isinstance(recv, str):
            recv = ["inst", recv[1] % len(insts)] + list(recv[2:3])
        kw = [[n, v] for n, v in dict((n, v) for n, v in kw).items()]   # what a dict literal would keep
        head = "(call %s)" % fmt_spell(fi, recv, args, kw, th)
        a = [val(x) for x in args]
        k = {"p%d" % n: val(v) for n, v in kw}
        feat("call")
        task = None
        new = False
        try:
            task = on_thread(th, lambda: target(fi, recv).asynq(*a, **k))
        except TypeError:
            res = "(typeError)"
            feat("call-typeerror")
        except Exception as e:  # an observation, not a harness failure
            res = "(raised %s)" % type(e).__name__
        else:
            if not isinstance(task, futures.FutureBase) or not hasattr(task, "running"):
                res = "(raised NotATask)"
                task = None
            else:
                new = id(task) not in tok_of
                if new:
                    tok_of[id(task)] = len(objs)
                    objs.append(task)
                    t = tok_of[id(task)]
                    spelling_of[t] = (fi, recv, list(args), [list(x) for x in kw], th)
                    made_on_tok[t] = thtok(th)

                    def cb(_task, t=t):
                        done.add(t)
                        try:
                            v = _task.value()
                            o = "(val %d)" % (v[1] if isinstance(v, tuple) else UNKNOWN)
                            feat("complete-val")
                        except UserErr as e:
                            o = "(err %d)" % e.args[0]
                            feat("complete-err")
                        except BaseErr as e:
                            o = "(err %d)" % e.args[0]
                            feat("complete-base-exception")
                        except BaseException:  # noqa
                            o = "(err %d)" % UNKNOWN
                        # the operation carries how the BODY ended (written by the body itself just before it returned /
                        # raised); what this subscriber READS from the task is an `await` observation of its own
                        log.append("(obs (complete %d %s) (unit) %d)" % (t, exit_of.get(t, o), size()))
                        log.append("(obs (await %d) (got %s) %d)" % (t, o, size()))
                        feat("reader:completion-subscriber")
                    task.on_computed.subscribe(cb)
                t = tok_of[id(task)]
                res = "(ret %d %d)" % (t, 1 if new else 0)
                ck = json.dumps([fi, recv, args, sorted(kw), thtok(th)])
                if new:
                    feat("new-inside" if inside is not None else "new")
                    if ck in seen_calls:
                        feat("re-created-same-spelling")
                        nontriv[0] = True
                else:
                    nontriv[0] = True
                    if inside is not None and t == inside:
                        feat("inside-got-own-task")
                    elif t in done:
                        feat("shared-completed")
                    elif t not in started:
                        feat("shared-unstarted")
                        if t in abandoned:
                            feat("shared-leftover-of-abandoned-call")
                    elif resumed.get(t, 0) >= 1:
                        feat("shared-between-flushes")
                    else:
                        feat("shared-blocked-first-flush")
                    if spelling_of[t][2:4] != [list(args), [list(x) for x in kw]]:
                        feat("shared-other-spelling")
                seen_calls[ck] = True
                if th != 0:
                    feat("call-on-helper-thread")
                big[0] = max(big[0], size())
        log.append("(obs %s %s %d)" % (head, res, size()))
        if task is not None and keep:
            slots.append(task)
        elif task is not None and new:
            abandoned.add(tok_of[id(task)])
            feat("abandoned-call")
        return task, new

    def do_dirty(fi, recv, args, kw, th):
        if not alive[0]:
            return
        fi = fi % len(fns_decl)
        th = th % 3
        if fns_decl[fi]["kind"] == "func":
            recv = "none"
        elif recv == "none":
            recv = "cls"
        if not isinstance(recv, str):
            recv = ["inst", recv[1] % len(insts)] + list(recv[2:3])
        kw = [[n, v] for n, v in dict((n, v) for n, v in kw).items()]
        head = "(dirty %s)" % fmt_spell(fi, recv, args, kw, th)
        a = [val(x) for x in args]
        k = {"p%d" % n: val(v) for n, v in kw}
        feat("dirty")
        before = size()
        try:
            on_thread(th, lambda: target(fi, recv).dirty(*a, **k))
            res = "(unit)"
        except TypeError:
            res = "(typeError)"
        except Exception as e:
            res = "(raised %s)" % type(e).__name__
        if size() < before:
            feat("dirty-removed-entry")
        try:
            raw_sig[fi].bind(*(([insts[recv[1]]] if fns_decl[fi]["kind"] == "method" and not isinstance(recv, str) else []) + a), **k)
        except TypeError:
            feat("dirty-args-do-not-bind:" + ("raised" if res == "(typeError)" else "returned"))
        log.append("(obs %s %s %d)" % (head, res, size()))

    nontriv = [False]
    abandoned = set()
    big = [0]
    computation = [0]

    # ---- events of other features (Lean: Op.outside) ----------------------------------------------------------------
    main_thread = threading.current_thread()
    sync_tag = "%s-%x" % (case.get("id", 0), id(log))
    foreign = [0]            # > 0: bodies started now do not belong to the history (synchronous call / asyncio mode)
    dbg = asynq.debug.options
    saved_opts = {}
    sink = (asynq.debug.stdout, asynq.debug.stderr)
    asynq.debug.stdout = io.StringIO()          # the DUMP_* options write there; keep it out of the worker's pipes
    asynq.debug.stderr = io.StringIO()
    printable = not any(75 in (a[3] if len(a) > 4 and isinstance(a[3], list) else []) or
                        any(kv[1] == 75 for kv in (a[4] if len(a) > 4 and isinstance(a[4], list) else []))
                        for a in all_acts(case))

    def outside(what):
        log.append("(obs (outside %d) (unit) %d)" % (what, size()))

    def do_opt(k):
        name = OPTS[k % len(OPTS)]
        if name.startswith("DUMP_") and not printable:
            name = "KEEP_DEPENDENCIES"           # an argument whose __repr__ raises cannot be dumped (C20's business)
        saved_opts.setdefault(name, getattr(dbg, name))
        setattr(dbg, name, not getattr(dbg, name))
        feat("option-switched-in-mid-flight:" + name)
        if any(t in started and t not in done for t in range(len(objs))):
            feat("option-switched-while-a-body-is-suspended")
        outside(2)

    def args_of(fi, recv, args, kw):
        fi = fi % len(fns_decl)
        if fns_decl[fi]["kind"] == "func":
            recv = "none"
        elif recv == "none":
            recv = "cls"
        if not isinstance(recv, str):
            recv = ["inst", recv[1] % len(insts)] + list(recv[2:3])
        return fi, recv, [val(x) for x in args], {"p%d" % n: val(v) for n, v in kw}

    def do_sync(fi, recv, args, kw):
        """the synchronous call f(args): AsyncDecorator.__call__ runs a task of its own to the end, no table access"""
        fi, recv, a, k = args_of(fi, recv, args, kw)
        foreign[0] += 1
        try:
            target(fi, recv)(*a, **k)
        except Exception:  # noqa  (TypeError for arguments that do not bind: nothing to observe here)
            pass
        finally:
            foreign[0] -= 1
        feat("synchronous-call-in-mid-flight")
        outside(6)

    def do_mock(fi):
        fi = fi % len(fns_decl)
        holder = plain if fns_decl[fi]["kind"] == "func" else C
        before = holder.__dict__.get("f%d" % fi)
        try:
            with asynq.mock.patch.object(holder, "f%d" % fi) as m:
                m.asynq(1)
                getattr(holder, "f%d" % fi).asynq(2)
        except Exception:  # noqa
            feat("mock-patch-raised")
        if holder.__dict__.get("f%d" % fi) is not before:
            feat("mock-patch-did-not-restore")
        feat("mock-patch-in-mid-flight")
        outside(3)

    def do_gc():
        gc.collect()
        feat("gc-in-mid-flight")
        outside(5)

    def do_aio(fi, recv, args, kw, variant):
        """asyncio mode, top level only: 0 `await f.asyncio(args)`; 1 / 2 an @asynq() function run by .asyncio() that yields
        one / two `f.asynq(args)` (in asyncio mode .asynq() hands the call to .asyncio(): no task, no table)"""
        import asyncio
        kwl = [[n, v] for n, v in dict((n, v) for n, v in kw).items()]
        fi, recv, a, k = args_of(fi, recv, args, kwl)
        f = target(fi, recv)
        coros = []

        def aio_call():
            """`.asynq()` under a running fn.asyncio(): an operation of the history (Lean: Op.aioCall) - the answer must be
            a coroutine (not a task), a new object for every call, and the table stays as it is"""
            x = f.asynq(*a, **k)
            if isinstance(x, futures.FutureBase) or not inspect.isawaitable(x):
                res = "(raised NotACoroutine)"
            elif any(x is y for y in coros):
                res = "(raised SameCoroutine)"
            else:
                res = "(coro)"
            coros.append(x)
            log.append("(obs (aioCall %s) %s %d)" % (fmt_spell(fi, recv, args, kwl, 0), res, size()))
            feat("asyncio-mode-asynq-call")
            return x

        @asynq.asynq()
        def outer():
            if variant % 3 == 1:
                return (yield aio_call())
            return (yield [aio_call(), aio_call()])

        async def direct():
            return await f.asyncio(*a, **k)

        foreign[0] += 1
        before_runs = feats.get("body-run-outside-the-history", 0)
        try:
            r = asyncio.run(direct() if variant % 3 == 0 else outer.asyncio())
            feat("asyncio-mode-use:" + ("value" if r is not None else "none"))
            if len(coros) == 2 and feats.get("body-run-outside-the-history", 0) - before_runs == 2:
                feat("asyncio-mode-two-calls-one-key-ran-the-body-twice")   # not deduplicated: outside the statement
        except Exception as e:  # noqa
            feat("asyncio-mode-use:raised-" + type(e).__name__)
        finally:
            foreign[0] -= 1
        if size():
            feat("asyncio-mode-use-while-entries-in-flight")
        outside(1)

    def do_drive(j, th):
        """top level: a task that was created and never started is driven to completion by thread `th` (.value())"""
        cand = [t for t in range(len(objs)) if t not in started and t not in done and not objs[t].is_computed()]
        if not cand:
            return
        t = cand[j % len(cand)]
        th = th % 3
        feat("driven-by-" + ("creating-thread" if thtok(th) == made_on_tok.get(t) else "another-thread"))
        try:
            v = on_thread(th, objs[t].value)
        except (UserErr, BaseErr) as e:
            log.append("(obs (await %d) (got %s) %d)" % (t, outcome_str(None, e), size()))
        else:
            log.append("(obs (await %d) (got %s) %d)" % (t, outcome_str(v, None), size()))
        feat("reader:value()-on-driving-thread")

    in_comp = [False]        # a computation is running on the main thread (its scheduler must not be replaced under it)
    resets = {}

    def do_sreset(th, how):
        """the thread-local scheduler of thread th is REPLACED (how 0: asynq.scheduler.reset(), what a harness does after an
        aborted computation) or EMPTIED (how 1: asynq.scheduler.get_scheduler().reset(), what the MAX_TASK_STACK_SIZE guard
        does).  The key of a call holds the thread, not its scheduler: whatever is in flight stays in flight (Lean:
        Op.outside 7 / 8).  While a computation runs on the main thread the event happens on a helper thread (helper
        threads only create tasks and drive them at top level: no scheduler of theirs is ever running here)."""
        th = th % 3
        if th == 0 and (in_comp[0] or threading.current_thread() is not main_thread):
            th = 1
        if how % 2 == 0:
            on_thread(th, asynq.scheduler.reset)
        else:
            def empty():
                r = getattr(asynq.scheduler.get_scheduler(), "reset", None)
                if r is None:
                    # the compiled build declares it `cdef reset(self)` (scheduler.pxd:37): not callable from Python
                    feat("TaskScheduler.reset-not-exposed-by-this-build")
                    if asynq.scheduler.get_active_task() is not None:
                        # a body running on this very thread (a task driven at top level): REPLACING the scheduler that is
                        # executing it is not a supported use (see ASSUMPTIONS), and emptying it cannot be done from Python
                        # in this build - the event is skipped (the model's Op.outside 8 leaves the table alone anyway)
                        feat("emptied-skipped-in-compiled-build-under-a-running-body")
                        return
                    asynq.scheduler.reset()
                else:
                    r()
            on_thread(th, empty)
        resets[th] = True
        feat("scheduler-%s:%s" % ("replaced" if how % 2 == 0 else "emptied", "main-thread" if th == 0 else "helper-thread"))
        mine = [t for t in range(len(objs)) if made_on_tok.get(t) == thtok(th) and t not in done]
        if mine:
            feat("scheduler-reset-while-calls-of-that-thread-are-in-flight")
            if any(t in started for t in mine):
                feat("scheduler-reset-while-a-body-of-that-thread-is-blocked")
        outside(7 + how % 2)

    def do_extdone(j, how, th):
        """top level: a task that was created and never started is completed FROM OUTSIDE (FutureBase.set_value / set_error,
        the public future API) on thread th: an ordinary completion of the history (Lean: Op.complete; the subscriber
        logs it) - afterwards the key is free again for the thread that created the task"""
        cand = [t for t in range(len(objs)) if t not in started and t not in done and not objs[t].is_computed()]
        if not cand:
            return
        t = cand[j % len(cand)]
        th = th % 3
        feat("completed-from-outside-by-" + ("creating-thread" if thtok(th) == made_on_tok.get(t) else "another-thread"))
        try:
            if how % 2 == 0:
                on_thread(th, lambda: objs[t].set_value(("v", 500 + t % 400)))
            else:
                on_thread(th, lambda: objs[t].set_error(UserErr(500 + t % 400)))
        except Exception as e:  # noqa
            feat("completed-from-outside-raised-" + type(e).__name__)

    def do_outside(a):
        if not alive[0]:
            return True
        if a[0] == "sreset":
            do_sreset(a[1], a[2])
        elif a[0] == "opt":
            do_opt(a[1])
        elif a[0] == "gc":
            do_gc()
        elif a[0] == "mock":
            do_mock(a[1])
        elif a[0] == "sync":
            do_sync(a[1], a[2], a[3], a[4])
        else:
            return False
        return True

    # ---- the body of every deduplicated function ------------------------------------------------
    def run(fi, params, rest, extra):
        if not alive[0]:
            return ("v", UNKNOWN)
        if foreign[0]:
            # a body started by the synchronous call f(args) or in asyncio mode: not a task of the history
            feat("body-run-outside-the-history")
            return ("v", UNKNOWN)
        task = asynq.scheduler.get_active_task()
        t = tok_of.get(id(task), UNKNOWN)
        r = runs[0]
        runs[0] += 1
        started.add(t)
        ex = sorted((int(k[1:]), vtok(v)) for k, v in extra.items())
        log.append("(obs (start %d) (binding (%s) (%s) (%s)) %d)" % (
            t, " ".join(str(vtok(x)) for x in params), " ".join(str(vtok(x)) for x in rest),
            " ".join("(%d %d)" % kv for kv in ex), size()))
        feat("body-run")
        script = case["bodies"][r % len(case["bodies"])] if r < MAXRUNS and case["bodies"] else \
            {"steps": [], "post": [], "end": "ret"}
        me = spelling_of.get(t)

        def inside(acts):
            last = None
            if threading.current_thread() is not main_thread:
                if acts:
                    feat("inside-acts-skipped-on-driving-thread")
                return None
            for a in acts:
                if do_outside(a):
                    continue
                if a[0] == "self" and me is not None:
                    x, new = do_call(*me, inside=t)
                elif a[0] == "dirtyself" and me is not None:
                    do_dirty(*me)
                    continue
                elif a[0] == "call":
                    x, new = do_call(a[1], a[2], a[3], a[4], a[5], inside=t)
                elif a[0] == "dirty":
                    do_dirty(a[1], a[2], a[3], a[4], a[5])
                    continue
                else:
                    continue
                if x is not None and new:
                    last = x
            return last

        for st in script["steps"]:
            last = inside(st["pre"])
            y = st["y"]
            if y == "lastsync" and last is not None:
                feat("sync-eval-of-private-task")
                try:
                    last.value()
                except (UserErr, BaseErr):
                    pass
            if y == "fail":
                dep = futures.ErrorFuture(UserErr(UNKNOWN))
            elif y == "last" and last is not None:
                dep = last
                feat("await-of-inside-created-task")
            elif y == "dsync":
                # asynq's own DebugBatchItem instead of the harness batch; the debug batches are kept per thread and
                # outlive a case, so every case uses a batch name of its own
                dep = asynq.debug.sync("c12-%s" % sync_tag)
                feat("blocked-on-debug-sync")
            else:
                dep = HItem()
            log.append("(obs (suspend %d) (unit) %d)" % (t, size()))
            try:
                yield dep
            except (UserErr, BaseErr):
                if not alive[0]:
                    return ("v", UNKNOWN)
                resumed[t] = resumed.get(t, 0) + 1
                log.append("(obs (resume %d 1) (unit) %d)" % (t, size()))
                feat("resumed-by-throw")
            else:
                if not alive[0]:
                    return ("v", UNKNOWN)
                resumed[t] = resumed.get(t, 0) + 1
                log.append("(obs (resume %d 0) (unit) %d)" % (t, size()))
        inside(script.get("post", []))
        if script["end"] == "raise":
            exit_of[t] = "(err %d)" % r
            raise UserErr(r)
        if script["end"] == "raisebase":
            exit_of[t] = "(err %d)" % r
            raise BaseErr(r)
        exit_of[t] = "(val %d)" % r
        return ("v", r)

    H.run = run

    # ---- what the callers RECEIVE ("all callers receive the same value or error") ----------------------------------
    def outcome_str(v, e):
        if e is not None:
            return "(err %d)" % (e.args[0] if isinstance(e, (UserErr, BaseErr)) and e.args and isinstance(e.args[0], int)
                                 else UNKNOWN)
        return "(val %d)" % (v[1] if isinstance(v, tuple) and len(v) == 2 and isinstance(v[1], int) else UNKNOWN)

    def received(deps, got, exc):
        """an actor that yielded `deps` was resumed with the list `got` / by throw(exc): one `await` observation per
        deduplicated task among the deps that has completed - the value the actor was SENT, or the error it was THROWN"""
        if not alive[0]:
            return
        for i, dep in enumerate(deps):
            t = tok_of.get(id(dep))
            if t is None or objs[t] is not dep:
                continue
            if got is not None:
                o = outcome_str(got[i], None)
            elif dep.is_computed():
                err = dep.error()
                if err is not None:
                    o = outcome_str(None, exc if err is exc else err)
                else:
                    o = outcome_str(dep.value(), None)
            else:
                continue                    # still in flight when another dependency failed: nothing received
            log.append("(obs (await %d) (got %s) %d)" % (t, o, size()))
            feat("reader:awaiting-caller")

    # ---- actors ---------------------------------------------------------------------------------
    @asynq.asynq()
    def actor(phases):
        for ph in phases:
            if not alive[0]:
                return
            mine = []
            for a in ph["acts"]:
                if a[0] == "call":
                    x, _ = do_call(a[1], a[2], a[3], a[4], a[5])
                    if x is not None:
                        mine.append(x)
                elif a[0] == "callx":
                    do_call(a[1], a[2], a[3], a[4], a[5], keep=False)     # nobody awaits it: stays in the table
                elif a[0] == "retire":
                    do_retire(a[1])
                elif a[0] == "dirty":
                    do_dirty(a[1], a[2], a[3], a[4], a[5])
                else:
                    do_outside(a)
            w = ph["wait"]
            if w == "mine" and mine:
                deps = list(mine)
            elif w == "all" and slots:
                deps = list(slots)
            elif w == "first" and mine:
                deps = [mine[0]]
            else:
                deps = [HItem()]
            try:
                got = yield deps
            except (UserErr, BaseErr) as e:
                received(deps, None, e)
            else:
                received(deps, got, None)

    @asynq.asynq()
    def root(actors):
        yield [actor.asynq(ph) for ph in actors]

    def top_level(acts):
        for a in acts:
            if do_outside(a):
                continue
            if a[0] == "drive":
                do_drive(a[1], a[2])
            elif a[0] == "extdone":
                do_extdone(a[1], a[2], a[3])
            elif a[0] == "aio":
                do_aio(a[1], a[2], a[3], a[4], a[5])
            elif a[0] == "dirty":
                feat("top-level-dirty")
                do_dirty(a[1], a[2], a[3], a[4], a[5])
            elif a[0] in ("call", "callx"):
                feat("top-level-call")
                do_call(a[1], a[2], a[3], a[4], a[5], keep=(a[0] == "call"))

    try:
        top_level(case.get("top", []))
        for actors in [case["actors"]] + list(case.get("more", [])):
            if computation[0]:
                feat("later-top-level-computation")
                if size():
                    feat("later-computation-sees-leftover-entries")
            if computation[0] == 1:
                top_level(case.get("top2", []))
            computation[0] += 1
            hook = None
            if case.get("abort") and computation[0] == 1:
                # the k-th top-level batch flush of this computation raises out of the scheduler (a deadline handler)
                k_abort, kind_abort = case["abort"][0], case["abort"][1]
                flushes = [0]

                def abort_handler(batch):
                    if not alive[0] or asynq.scheduler.get_active_task() is not None:
                        return
                    flushes[0] += 1
                    if flushes[0] == k_abort:
                        feat("computation-aborted-at-flush")
                        raise (BaseErr if kind_abort % 2 else UserErr)(UNKNOWN)
                hook = asynq.scheduler.get_scheduler().on_before_batch_flush
                hook.subscribe(abort_handler)
            in_comp[0] = True
            try:
                root(actors)
            except (UserErr, BaseErr):
                if hook is not None and feats.get("computation-aborted-at-flush"):
                    if any(t in started and t not in done for t in range(len(objs))):
                        feat("computation-aborted-while-a-body-is-blocked")
            finally:
                in_comp[0] = False
                if hook is not None:
                    hook.unsubscribe(abort_handler)
        if computation[0] == 1:
            top_level(case.get("top2", []))
    finally:
        alive[0] = False
        for w in list(workers.values()) + parked:
            w.stop()
        DeduplicateDecorator.tasks.clear()
        if case.get("abort") or resets.get(0):
            asynq.scheduler.reset()          # an aborted computation leaves its task stack in the scheduler: start clean
            objs[:] = []
            slots[:] = []
            gc.collect()                     # ... and its suspended generators are closed HERE, not by a `gc` act of a later case
        for name, v in saved_opts.items():
            setattr(dbg, name, v)
        asynq.debug.stdout, asynq.debug.stderr = sink

    hdr = []
    for d in fns_decl:
        def ps(l):
            return " ".join("(%d %s)" % (nm, "none" if df is None else str(df)) for nm, df in l)
        hdr.append("(fn %s (%s) (%s) %d %d %d)" % (d["kind"], ps(d["pos"]), ps(d["kwonly"]),
                                                   1 if d["varargs"] else 0, 1 if d["varkw"] else 0, d.get("posonly", 0)))
    hdr.append("(deco %d %s)" % (nfn, " ".join("(%d %d)" % (fi, outer_of[fi]) for fi in order)))
    if eqv_pairs:
        hdr.append("(eqv %s)" % " ".join("(%d %d)" % p for p in eqv_pairs))
    hdr.extend(kg_lines)
    lines = ["(case dedup %d %s)" % (case["id"], " ".join(hdr))] + log + ["(end)"]
    fl = sorted(feats)
    fl += ["kind=" + k for k in sorted({d["kind"] for d in fns_decl})]
    if any(d["varargs"] for d in fns_decl):
        fl.append("sig-varargs")
    if any(d["varkw"] for d in fns_decl):
        fl.append("sig-varkw")
    if any(d["kwonly"] for d in fns_decl):
        fl.append("sig-kwonly")
    if any(d.get("posonly", 0) for d in fns_decl):
        fl.append("sig-posonly")
    for d in fns_decl:
        if d["varargs"] and d["kwonly"]:
            fl.append("sig-open-to-conflation:varargs-kwonly")
        elif d.get("posonly", 0) and d["varkw"]:
            fl.append("sig-open-to-conflation:posonly-varkw")
        elif d["varargs"] and d["varkw"]:
            fl.append("sig-open-to-conflation:varargs-varkw-pair")
    fl = sorted(set(fl))
    fl.append("ops<=%d" % next(b for b in (5, 10, 20, 40, 80, 10 ** 9) if len(log) <= b))
    fl.append("in-flight-entries<=%d" % next(b for b in (4, 16, 64, 128, 256, 512, 1024, 2048, 4096, 8192, 10 ** 9)
                                             if big[0] <= b))
    if case.get("fanout"):
        fl.append("fanout-layout-%d" % (case["fanout"][1] % 8))
    ncalls = feats.get("call", 0)
    nontrivial = None
    if nontriv[0] and ncalls >= 2:
        nontrivial = hashlib.sha1(json.dumps({k: v for k, v in case.items() if k != "id"}, sort_keys=True).encode()
                                  ).hexdigest()[:16]
    return {"lines": lines, "features": fl, "nontrivial": nontrivial}
