"""C12  deduplicate: one in-flight execution per key, shared by all callers.

A case is a small real asynq program: a few @deduplicate() functions (module level, methods, staticmethods) with
generated signatures, a pool of scripted bodies (block on a harness batch once or several times, call themselves or
other keys from inside the running body, dirty(), await / synchronously evaluate the private task they got, catch a
failing dependency = resumed by throw(), return or raise) and a few concurrent "actor" tasks that issue .asynq() /
.dirty() calls with generated spellings (positional / keyword / default / keyword-only / *args / **kwargs, from the
main thread or from helper threads) in the same yield, after one or more flushes, after completion, failure, dirty().

Everything the program does is logged in order: every call with the identity token of the task it returned and whether
that object is new, every start (with what the body actually bound) / resume / suspend of a body, every completion,
every dirty, and len(DeduplicateDecorator.tasks) after each.  The Lean model (AsynqModel.Lib.Dedup: get_args_tuple as
written in qcore + the table operations of DeduplicateDecorator) replays the same operations (correspondence) and the
Lean observer `Dedup.spec` (the statement of C12 over bindings, proved of the model for all histories on every signature
that does not combine *args with keyword-only parameters) judges the implementation's observations on their own."""
import hashlib
import json
import random

PID = "C12"
LEVEL = "proof"
LEAN_MODULES = ["AsynqModel.Theorems.C12"]
THEOREMS = [
    "AsynqModel.Dedup.C12_spec_holds_partial",
    "AsynqModel.Dedup.C12_key_normal_partial",
    "AsynqModel.Dedup.C12_key_normal_counterexample",
    "AsynqModel.Dedup.C12_completion_keeps_newer",
    "AsynqModel.Dedup.C12_valid_call_has_key",
    "AsynqModel.Dedup.C12_inflight_shared",
    "AsynqModel.Dedup.C12_rerun_after_complete",
    "AsynqModel.Dedup.C12_rerun_after_dirty",
    "AsynqModel.Dedup.C12_disjoint",
    "AsynqModel.Dedup.C12_instances_disjoint",
    "AsynqModel.Dedup.C12_running_escape_private",
]
BUILDS = {"quick": ["py"], "thorough": ["py", "cy"]}
RULE = ("real asynq programs: 1-3 @deduplicate() functions (function / method on 1-3 instances / staticmethod; generated "
        "signatures with defaults, keyword-only, *args, **kwargs; argument values from small ints, the hash-colliding ints -1/-2 and "
        "hash-colliding objects), scripted bodies (0-3 yields on a harness batch, inside "
        "calls, dirty, private-task await / sync evaluation, throw()-resumption, return / raise) and 1-4 concurrent actor "
        "tasks of 1-4 phases issuing calls/dirty() with random spellings of few logical calls (so keys collide) on 1-3 "
        "threads; plus a fixed corpus of the named schedules (same yield, later step while blocked, between two flushes, "
        "after completion / failure / dirty, same / different instances, staticmethod, two functions, recursion) over "
        "several signatures; non-trivial = at least two calls and at least one call that returned an already existing "
        "task or re-created a task for a call seen before; distinct by hash of the case")
TRUSTED = [
    "hand-written Lean model AsynqModel.Lib.Dedup tied to the code by this differential run only",
    "Python harness checks/c12.py (token <-> object identity mapping, event log written by the generated bodies, "
    "len(DeduplicateDecorator.tasks) peek)",
    "Python call binding (modelled by Sig.bind, compared with what every started body actually received), "
    "CPython generator send/throw semantics, qcore.decorators (decorate / DecoratorBase.__get__ / get_original_fn)",
    "the scheduler itself (when bodies start / resume / complete is an input of the model here; C01-C08 cover it)",
]
ASSUMPTIONS = [
    "argument values are hashable atoms compared by ==; the model's key equality is equality of value TOKENS, so two "
    "distinct values whose hashes collide (-1 / -2, objects with a constant __hash__) are two different tokens and are "
    "generated on purpose; equal values of different types (1 == 1.0 == True) are one value; no argument is itself a "
    "(name, value) tuple that could imitate a **kwargs entry of the key",
    "functions stay alive while their tasks are in flight (id(self.fn) is not reused); asyncio mode is C15's",
    "decorated functions are generator functions (binding errors surface at .asynq() time)",
    "dirty() called with arguments that do not bind is outside the statement (the observer stops judging there)",
]
CASE_TIMEOUT = 20
MAXRUNS = 10
UNKNOWN = 999999


# ---------------------------------------------------------------------------------------------------
# generation
# ---------------------------------------------------------------------------------------------------

def gen_sig(rng, kind):
    npos = rng.choice([0, 1, 1, 2, 2, 3])
    if kind == "method":
        npos = max(1, npos)
    ndef = rng.randint(0, npos - (1 if kind == "method" else 0))
    names = list(range(8))
    pos = []
    for i in range(npos):
        d = rng.randint(0, 2) if i >= npos - ndef else None
        pos.append([names[i], d])
    nkw = rng.choice([0, 0, 0, 1, 1, 2])
    kwonly = [[names[npos + i], rng.choice([None, 0, 1])] for i in range(nkw)]
    return {"kind": kind, "pos": pos, "kwonly": kwonly,
            "varargs": rng.random() < 0.2, "varkw": rng.random() < 0.2}


# value tokens: 0..3 small ints; 50 / 51 = the ints -1 / -2 (DISTINCT values, hash(-1) == hash(-2) in CPython);
# 60 / 61 = two instances of a harness class with a constant __hash__ and identity __eq__; >= 100 = receiver instances.
# In the Lean model a key compares by value token, i.e. colliding-hash values are simply two different tokens.
DOMAINS = [[0, 1], [0, 1], [0, 1], [0, 1], [50, 51], [60, 61], [0, 50, 51], [1, 60, 61], [50, 51, 60, 61]]


def logical_calls(rng, decl, ninst, n=2, dom=(0, 1)):
    """a few logical calls (values of the named parameters, rest, extra) of one function"""
    res = []
    for _ in range(n):
        vals = {}
        for i, (nm, d) in enumerate(decl["pos"]):
            if decl["kind"] == "method" and i == 0:
                vals[nm] = 100 + rng.randrange(ninst)
            elif d is not None and rng.random() < 0.5:
                vals[nm] = d
            else:
                vals[nm] = rng.choice(dom)
        for nm, d in decl["kwonly"]:
            vals[nm] = d if (d is not None and rng.random() < 0.5) else rng.choice(dom)
        rest = [rng.choice(dom) for _ in range(rng.choice([0, 0, 1, 2]))] if decl["varargs"] else []
        extra = {}
        if decl["varkw"] and rng.random() < 0.5:
            for nm in rng.sample([6, 7], rng.randint(1, 2)):
                extra[nm] = rng.choice(dom)
        res.append({"vals": vals, "rest": rest, "extra": extra})
    return res


def spell(rng, fi, decl, lc, nthreads, malformed=False):
    """one random spelling of the logical call lc"""
    pos = decl["pos"]
    vals = lc["vals"]
    recv = "none"
    first = 0
    if decl["kind"] == "method":
        inst = vals[pos[0][0]] - 100
        if rng.random() < 0.75:
            recv = ["inst", inst]
            first = 1
        else:
            recv = "cls"
    elif decl["kind"] == "static":
        recv = "cls" if rng.random() < 0.6 else ["inst", 0]
    rest = lc["rest"]
    if rest:
        k = len(pos)
    else:
        k = rng.randint(first, len(pos))
        if decl["varargs"] and decl["kwonly"] and rng.random() < 0.3:
            k = len(pos)
    args = [vals[pos[i][0]] for i in range(first, k)] + list(rest)
    kw = []
    for i in range(max(k, first), len(pos)):
        nm, d = pos[i]
        if d is not None and vals[nm] == d and rng.random() < 0.6:
            continue
        kw.append([nm, vals[nm]])
    for nm, d in decl["kwonly"]:
        if d is not None and vals[nm] == d and rng.random() < 0.6:
            continue
        kw.append([nm, vals[nm]])
    for nm, v in lc["extra"].items():
        kw.append([nm, v])
    rng.shuffle(kw)
    if malformed:
        m = rng.randrange(4)
        if m == 0:
            args = args + [rng.randint(0, 1)]                    # too many / lands in *rest or in a kw-only slot
        elif m == 1 and kw:
            kw.pop(rng.randrange(len(kw)))                       # maybe missing
        elif m == 2:
            nm = rng.choice([5, 6, 7])
            if all(k2[0] != nm for k2 in kw):
                kw.append([nm, rng.randint(0, 1)])                # unexpected keyword
        elif pos and len(args) + first > 0:
            nm = pos[rng.randrange(0, len(args) + first)][0] if len(args) + first <= len(pos) else pos[0][0]
            if all(k2[0] != nm for k2 in kw):
                kw.append([nm, rng.randint(0, 1)])               # multiple values
    th = 0 if rng.random() < 0.85 else rng.randrange(nthreads)
    return [fi, recv, args, kw, th]


def gen_body(rng, calls):
    steps = []
    for _ in range(rng.choice([0, 1, 1, 1, 2, 2, 3])):
        pre = []
        if rng.random() < 0.3:
            for _ in range(rng.choice([1, 1, 2])):
                r = rng.random()
                if r < 0.45:
                    pre.append(["self"])
                elif r < 0.6:
                    pre.append(["dirtyself"])
                elif r < 0.9:
                    pre.append(["call"] + calls())
                else:
                    pre.append(["dirty"] + calls())
        y = rng.choices(["item", "fail", "last", "lastsync"], weights=[6, 1, 2, 1])[0]
        steps.append({"pre": pre, "y": y})
    post = []
    if rng.random() < 0.15:
        post.append(["self"] if rng.random() < 0.6 else ["call"] + calls())
    return {"steps": steps, "post": post, "end": "raise" if rng.random() < 0.2 else "ret"}


def gen_case(rng):
    nf = rng.choice([1, 1, 2, 2, 3])
    ninst = rng.choice([1, 2, 2, 3])
    nthreads = rng.choice([1, 1, 2, 3])
    fns = [gen_sig(rng, rng.choice(["func", "func", "method", "method", "static"])) for _ in range(nf)]
    if nf >= 2 and rng.random() < 0.4:
        fns[1] = dict(fns[0])  # two functions with the same signature (same args, different function)
    dom = rng.choice(DOMAINS)
    lcs = [logical_calls(rng, d, ninst, rng.choice([1, 2, 2, 3]) + (1 if len(dom) > 2 else 0), dom) for d in fns]

    def calls(p_mal=0.06):
        fi = rng.randrange(nf)
        return spell(rng, fi, fns[fi], rng.choice(lcs[fi]), nthreads, malformed=rng.random() < p_mal)

    bodies = [gen_body(rng, calls) for _ in range(rng.choice([1, 2, 3]))]
    actors = []
    for _ in range(rng.choice([1, 2, 2, 3, 4])):
        phases = []
        for _ in range(rng.choice([1, 2, 2, 3, 4])):
            acts = []
            for _ in range(rng.choice([0, 1, 1, 2, 2, 3])):
                if rng.random() < 0.82:
                    acts.append(["call"] + calls())
                else:
                    acts.append(["dirty"] + calls(0.02))
            wait = rng.choices(["mine", "tick", "all", "first"], weights=[5, 4, 1, 1])[0]
            phases.append({"acts": acts, "wait": wait})
        actors.append(phases)
    return {"fns": fns, "ninst": ninst, "bodies": bodies, "actors": actors}


SIGS = [
    {"kind": "func", "pos": [[0, None], [1, 1]], "kwonly": [], "varargs": False, "varkw": False},
    {"kind": "func", "pos": [[0, None]], "kwonly": [[1, 0]], "varargs": False, "varkw": False},
    {"kind": "func", "pos": [[0, None], [1, 0]], "kwonly": [[2, 1]], "varargs": False, "varkw": True},
    {"kind": "func", "pos": [[0, None]], "kwonly": [], "varargs": True, "varkw": False},
    {"kind": "method", "pos": [[0, None], [1, None], [2, 1]], "kwonly": [], "varargs": False, "varkw": False},
    {"kind": "method", "pos": [[0, None], [1, 0]], "kwonly": [[2, 0]], "varargs": False, "varkw": False},
    {"kind": "static", "pos": [[0, None], [1, 1]], "kwonly": [], "varargs": False, "varkw": False},
    {"kind": "func", "pos": [], "kwonly": [], "varargs": False, "varkw": False},
]


def two_spellings(decl, inst=0):
    """two different spellings of the same logical call (all defaults), and a spelling of a different call"""
    pos = decl["pos"]
    first = 1 if decl["kind"] == "method" else 0
    recv = ["inst", inst] if decl["kind"] == "method" else ("cls" if decl["kind"] == "static" else "none")
    a1, k1, k2, k3 = [], [], [], []
    for i in range(first, len(pos)):
        nm, d = pos[i]
        v = d if d is not None else 1
        a1.append(v)
        k2.append([nm, v])
        k3.append([nm, v])
    for nm, d in decl["kwonly"]:
        v = d if d is not None else 1
        k1.append([nm, v])
        if d is None:
            k2.append([nm, v])
            k3.append([nm, v])
    s1 = [recv, a1, k1, 0]
    s2 = [recv, [], list(reversed(k2)), 0]
    # required parameters only (defaults omitted) for the first spelling when possible
    nreq = len([1 for i in range(first, len(pos)) if pos[i][1] is None])
    if nreq < len(a1):
        s1 = [recv, a1[:nreq], [kv for kv in k1 if dict(map(tuple, decl["kwonly"])).get(kv[0]) is None], 0]
    # a different logical call: change the last named value (or add nothing if there is no parameter)
    if k3:
        k3[-1] = [k3[-1][0], k3[-1][1] + 1]
    s3 = [recv, [], k3, 0]
    return s1, s2, s3


def named_schedules():
    """the call patterns named in the property, over several signatures"""
    cases = []
    two_items = {"steps": [{"pre": [], "y": "item"}, {"pre": [], "y": "item"}], "post": [], "end": "ret"}
    one_item = {"steps": [{"pre": [], "y": "item"}], "post": [], "end": "ret"}
    failing = {"steps": [{"pre": [], "y": "item"}], "post": [], "end": "raise"}
    for decl in SIGS:
        s1, s2, s3 = two_spellings(decl)
        c1, c2, c3 = ["call", 0] + s1, ["call", 0] + s2, ["call", 0] + s3
        d1 = ["dirty", 0] + s2
        base = {"fns": [decl], "ninst": 2}
        # same yield, both spellings + a different key
        cases.append(dict(base, bodies=[one_item], actors=[[{"acts": [c1, c2, c3], "wait": "mine"}]]))
        # later step while the first is blocked on the batch / between its two flushes
        for nticks in (1, 2):
            cases.append(dict(base, bodies=[two_items], actors=[
                [{"acts": [c1], "wait": "mine"}],
                [{"acts": [], "wait": "tick"}] * nticks + [{"acts": [c2, c3], "wait": "mine"}]]))
        # after completion, after failure
        for b in (one_item, failing):
            cases.append(dict(base, bodies=[b], actors=[
                [{"acts": [c1], "wait": "mine"}, {"acts": [c2], "wait": "mine"}, {"acts": [c1, c2], "wait": "mine"}]]))
        # after dirty (task never started / task blocked)
        cases.append(dict(base, bodies=[one_item], actors=[[{"acts": [c1, d1, c2, c1], "wait": "mine"}]]))
        cases.append(dict(base, bodies=[two_items], actors=[
            [{"acts": [c1], "wait": "mine"}],
            [{"acts": [], "wait": "tick"}, {"acts": [d1, c2, c1], "wait": "mine"}]]))
        # dirty, re-create, then the OLD task completes while the new one is in flight, then another call
        cases.append(dict(base, bodies=[one_item, two_items, two_items], actors=[
            [{"acts": [c1, d1, c2], "wait": "first"}, {"acts": [c1], "wait": "all"}]]))
        # two threads
        ct = ["call", 0] + s1[:3] + [1]
        cases.append(dict(base, bodies=[one_item], actors=[[{"acts": [c1, ct, c2, ct], "wait": "mine"}]]))
        # recursion from inside the running body: private task, awaited / evaluated synchronously; later outside call
        for y in ("last", "lastsync"):
            rec = {"steps": [{"pre": [["self"]], "y": y}, {"pre": [], "y": "item"}], "post": [], "end": "ret"}
            cases.append(dict(base, bodies=[rec, one_item], actors=[
                [{"acts": [c1], "wait": "mine"}],
                [{"acts": [], "wait": "tick"}, {"acts": [c2], "wait": "mine"}]]))
        # resumed by throw(): `running` is not set, an inside call gets the very task back
        thr = {"steps": [{"pre": [], "y": "fail"}, {"pre": [["self"]], "y": "item"}], "post": [["self"]], "end": "ret"}
        cases.append(dict(base, bodies=[thr], actors=[[{"acts": [c1], "wait": "mine"}, {"acts": [c2], "wait": "mine"}]]))
        # two functions with the same signature and the same arguments
        cases.append({"fns": [decl, dict(decl)], "ninst": 2, "bodies": [one_item], "actors": [
            [{"acts": [c1, ["call", 1] + s1, c2, ["call", 1] + s2], "wait": "mine"}]]})
        if decl["kind"] == "method":
            o1, o2, _ = two_spellings(decl, inst=1)
            unbound = ["cls", [100] + s1[1], s1[2], 0]
            cases.append(dict(base, bodies=[two_items], actors=[
                [{"acts": [c1, ["call", 0] + o1, ["call", 0] + unbound], "wait": "mine"}],
                [{"acts": [], "wait": "tick"}, {"acts": [c2, ["call", 0] + o2, ["dirty", 0] + o2, ["call", 0] + o1], "wait": "mine"}]]))
        if decl["kind"] == "static":
            via_inst = [["inst", 0]] + s1[1:]
            cases.append(dict(base, bodies=[two_items], actors=[
                [{"acts": [c1, ["call", 0] + via_inst], "wait": "mine"}],
                [{"acts": [], "wait": "tick"}, {"acts": [["call", 0] + via_inst, c2], "wait": "mine"}]]))
    # *args together with keyword-only parameters: positional overflow vs keyword-only value
    va = {"kind": "func", "pos": [[0, None]], "kwonly": [[1, 0]], "varargs": True, "varkw": False}
    cases.append({"fns": [va], "ninst": 1, "bodies": [one_item], "actors": [[{"acts": [
        ["call", 0, "none", [1, 2], [], 0], ["call", 0, "none", [1], [[1, 2]], 0],
        ["call", 0, "none", [1, 2], [[1, 1]], 0]], "wait": "mine"}]]})
    # DISTINCT argument values whose hashes collide (-1/-2, constant-__hash__ objects): in flight together in the
    # same yield, in a later step while the first is blocked, and dirty() of the colliding twin must not evict
    f1 = {"kind": "func", "pos": [[0, None], [1, 0]], "kwonly": [], "varargs": False, "varkw": False}
    for a, b in ((50, 51), (60, 61)):
        ca, cb, ckw = ["call", 0, "none", [a], [], 0], ["call", 0, "none", [b], [], 0], ["call", 0, "none", [], [[0, a]], 0]
        cases.append({"fns": [f1], "ninst": 1, "bodies": [two_items],
                      "actors": [[{"acts": [ca, cb, ckw], "wait": "mine"}]]})
        cases.append({"fns": [f1], "ninst": 1, "bodies": [two_items], "actors": [
            [{"acts": [ca], "wait": "mine"}],
            [{"acts": [], "wait": "tick"}, {"acts": [cb, ["dirty", 0, "none", [b], [], 0], ckw, cb], "wait": "mine"}]]})
        cases.append({"fns": [f1], "ninst": 1, "bodies": [one_item], "actors": [
            [{"acts": [ca, ["dirty", 0, "none", [b], [], 0], ckw], "wait": "mine"}, {"acts": [cb, ca], "wait": "mine"}]]})
    return json.loads(json.dumps(cases))


def corpus():
    import glob
    import os
    res = []
    d = os.path.join(os.path.dirname(os.path.dirname(os.path.dirname(os.path.abspath(__file__)))), "corpus", PID)
    for p in sorted(glob.glob(os.path.join(d, "*.json"))):
        with open(p) as f:
            res.append(json.load(f))
    return res


def plan(tier, seed):
    rng = random.Random(seed * 1000003 + 12)
    n = 6000 if tier == "quick" else 60000
    cases = corpus() + named_schedules()
    cases += [gen_case(rng) for _ in range(n)]
    return cases


def shrink(case):
    def clone():
        return json.loads(json.dumps({k: v for k, v in case.items() if k != "id"}))
    for i in range(len(case["actors"])):
        if len(case["actors"]) > 1:
            c = clone()
            del c["actors"][i]
            yield c
    for i, a in enumerate(case["actors"]):
        for j in range(len(a)):
            c = clone()
            del c["actors"][i][j]
            if c["actors"][i]:
                yield c
            for k in range(len(a[j]["acts"])):
                c = clone()
                del c["actors"][i][j]["acts"][k]
                yield c
    for i in range(len(case["bodies"])):
        if len(case["bodies"]) > 1:
            c = clone()
            del c["bodies"][i]
            yield c
        b = case["bodies"][i]
        for j in range(len(b["steps"])):
            c = clone()
            del c["bodies"][i]["steps"][j]
            yield c
            if b["steps"][j]["pre"]:
                c = clone()
                c["bodies"][i]["steps"][j]["pre"] = []
                yield c
            if b["steps"][j]["y"] != "item":
                c = clone()
                c["bodies"][i]["steps"][j]["y"] = "item"
                yield c
        if b.get("post"):
            c = clone()
            c["bodies"][i]["post"] = []
            yield c
        if b["end"] != "ret":
            c = clone()
            c["bodies"][i]["end"] = "ret"
            yield c
    # drop an unused trailing function
    used = {a[1] for ac in case["actors"] for ph in ac for a in ph["acts"]}
    used |= {a[1] for b in case["bodies"] for st in b["steps"] for a in st["pre"] if len(a) > 1}
    used |= {a[1] for b in case["bodies"] for a in b.get("post", []) if len(a) > 1}
    if len(case["fns"]) > 1 and (len(case["fns"]) - 1) not in used:
        c = clone()
        c["fns"].pop()
        yield c


def neighbours(case, rng):
    for _ in range(32):
        c = gen_case(rng)
        c["fns"] = json.loads(json.dumps(case["fns"]))
        c["ninst"] = case["ninst"]
        nf = len(c["fns"])

        def fix(a):
            if len(a) > 1 and a[1] >= nf:
                a[1] = a[1] % nf
        for ac in c["actors"]:
            for ph in ac:
                for a in ph["acts"]:
                    fix(a)
        for b in c["bodies"]:
            for st in b["steps"]:
                for a in st["pre"]:
                    fix(a)
            for a in b.get("post", []):
                fix(a)
        yield c
    yield case


def signature(case, v):
    return "dedup/%s" % v["spec"]


# ---------------------------------------------------------------------------------------------------
# implementation side
# ---------------------------------------------------------------------------------------------------

class UserErr(Exception):
    pass


def run_case(case):
    import threading

    import asynq
    import asynq.scheduler
    from asynq import batching, futures
    from asynq.tools import DeduplicateDecorator, deduplicate

    DeduplicateDecorator.tasks.clear()   # process-wide table: leftovers of earlier cases in this worker
    fns_decl = case["fns"]
    ninst = case["ninst"]
    log = []
    feats = {}
    objs = []             # keep every task alive (identity tokens)
    tok_of = {}
    spelling_of = {}      # task token -> the spelling that created it
    started = set()
    resumed = {}
    done = set()
    runs = [0]
    slots = []
    seen_calls = {}

    def feat(k):
        feats[k] = feats.get(k, 0) + 1

    def size():
        return len(DeduplicateDecorator.tasks)

    # ---- harness batch -------------------------------------------------------------------------
    cur = [None]

    class HBatch(batching.BatchBase):
        def _try_switch_active_batch(self):
            if cur[0] is self:
                cur[0] = None

        def _flush(self):
            feat("flush")
            for it in self.items:
                it.set_value(None)

        def _cancel(self):
            pass

    class HItem(batching.BatchItemBase):
        def __init__(self):
            if cur[0] is None or cur[0].is_flushed():
                cur[0] = HBatch()
            batching.BatchItemBase.__init__(self, cur[0])

    # ---- functions -----------------------------------------------------------------------------
    class Hooks(object):
        pass

    H = Hooks()
    cls_dict = {}
    plain = {}
    for fi, d in enumerate(fns_decl):
        params = []
        for nm, df in d["pos"]:
            params.append("p%d" % nm if df is None else "p%d=%d" % (nm, df))
        if d["varargs"]:
            params.append("*rest")
        elif d["kwonly"]:
            params.append("*")
        for nm, df in d["kwonly"]:
            params.append("p%d" % nm if df is None else "p%d=%d" % (nm, df))
        if d["varkw"]:
            params.append("**extra")
        names = ["p%d" % nm for nm, _ in d["pos"]] + ["p%d" % nm for nm, _ in d["kwonly"]]
        tup = "(%s,)" % ", ".join(names) if names else "()"
        src = "def body%d(%s):\n    return (yield from __H.run(%d, %s, %s, %s))\n" % (
            fi, ", ".join(params), fi, tup, "rest" if d["varargs"] else "()", "extra" if d["varkw"] else "{}")
        ns = {"__H": H}
        exec(src, ns)
        fn = deduplicate()(asynq.asynq()(ns["body%d" % fi]))
        if d["kind"] == "func":
            plain[fi] = fn
        elif d["kind"] == "method":
            cls_dict["f%d" % fi] = fn
        else:
            cls_dict["f%d" % fi] = staticmethod(fn)
    C = type("C", (object,), cls_dict)
    insts = [C() for _ in range(max(1, ninst))]
    inst_tok = {id(o): 100 + i for i, o in enumerate(insts)}

    class Coll(object):
        """distinct objects (identity __eq__) whose hashes all collide"""
        __slots__ = ()

        def __hash__(self):
            return 12345

    special = {50: -1, 51: -2, 60: Coll(), 61: Coll()}
    special_tok = {id(o): t for t, o in special.items() if t >= 60}

    def val(x):
        if isinstance(x, int) and x >= 100:
            return insts[(x - 100) % len(insts)]
        if x in special:
            if x >= 50:
                feat("arg-colliding-hash")
            return special[x]
        return x

    def vtok(x):
        if isinstance(x, bool) or not isinstance(x, int):
            return inst_tok.get(id(x), special_tok.get(id(x), UNKNOWN))
        if x == -1:
            return 50
        if x == -2:
            return 51
        return x

    def target(fi, recv):
        d = fns_decl[fi]
        if d["kind"] == "func":
            return plain[fi]
        if recv == "cls" or recv == "none":
            return getattr(C, "f%d" % fi)
        return getattr(insts[recv[1] % len(insts)], "f%d" % fi)

    # ---- helper threads (persistent per case: the thread object is part of the key) ---------------
    workers = {}

    class Worker(object):
        def __init__(self):
            self.req = None
            self.res = None
            self.go = threading.Event()
            self.fin = threading.Event()
            self.th = threading.Thread(target=self.loop)
            self.th.daemon = True
            self.th.start()

        def loop(self):
            while True:
                self.go.wait()
                self.go.clear()
                if self.req is None:
                    return
                try:
                    self.res = (True, self.req())
                except BaseException as e:  # noqa
                    self.res = (False, e)
                self.fin.set()

        def call(self, f):
            self.req = f
            self.go.set()
            self.fin.wait()
            self.fin.clear()
            ok, r = self.res
            if ok:
                return r
            raise r

        def stop(self):
            self.req = None
            self.go.set()
            self.th.join(2)

    def on_thread(th, f):
        if th == 0:
            return f()
        if th not in workers:
            workers[th] = Worker()
        return workers[th].call(f)

    # ---- logged operations -----------------------------------------------------------------------
    def fmt_spell(fi, recv, args, kw, th):
        r = recv if isinstance(recv, str) else "(inst %d)" % (100 + recv[1])  # the instance TOKEN
        return "%d %s (%s) (%s) %d" % (fi, r, " ".join(str(a) for a in args),
                                       " ".join("(%d %d)" % (n, v) for n, v in kw), th)

    def do_call(fi, recv, args, kw, th, inside=None):
        fi = fi % len(fns_decl)
        if fns_decl[fi]["kind"] == "func":
            recv = "none"
        elif recv == "none":
            recv = "cls"
        if not isinstance(recv, str):
            recv = ["inst", recv[1] % len(insts)]
        kw = [[n, v] for n, v in dict((n, v) for n, v in kw).items()]   # what a dict literal would keep
        head = "(call %s)" % fmt_spell(fi, recv, args, kw, th)
        a = [val(x) for x in args]
        k = {"p%d" % n: val(v) for n, v in kw}
        feat("call")
        task = None
        new = False
        try:
            task = on_thread(th, lambda: target(fi, recv).asynq(*a, **k))
        except TypeError:
            res = "(typeError)"
            feat("call-typeerror")
        except Exception as e:  # an observation, not a harness failure
            res = "(raised %s)" % type(e).__name__
        else:
            if not isinstance(task, futures.FutureBase) or not hasattr(task, "running"):
                res = "(raised NotATask)"
                task = None
            else:
                new = id(task) not in tok_of
                if new:
                    tok_of[id(task)] = len(objs)
                    objs.append(task)
                    t = tok_of[id(task)]
                    spelling_of[t] = (fi, recv, list(args), [list(x) for x in kw], th)

                    def cb(_task, t=t):
                        done.add(t)
                        try:
                            v = _task.value()
                            o = "(val %d)" % (v[1] if isinstance(v, tuple) else UNKNOWN)
                            feat("complete-val")
                        except UserErr as e:
                            o = "(err %d)" % e.args[0]
                            feat("complete-err")
                        except BaseException:  # noqa
                            o = "(err %d)" % UNKNOWN
                        log.append("(obs (complete %d %s) (unit) %d)" % (t, o, size()))
                    task.on_computed.subscribe(cb)
                t = tok_of[id(task)]
                res = "(ret %d %d)" % (t, 1 if new else 0)
                ck = json.dumps([fi, recv, args, sorted(kw), th])
                if new:
                    feat("new-inside" if inside is not None else "new")
                    if ck in seen_calls:
                        feat("re-created-same-spelling")
                        nontriv[0] = True
                else:
                    nontriv[0] = True
                    if inside is not None and t == inside:
                        feat("inside-got-own-task")
                    elif t in done:
                        feat("shared-completed")
                    elif t not in started:
                        feat("shared-unstarted")
                    elif resumed.get(t, 0) >= 1:
                        feat("shared-between-flushes")
                    else:
                        feat("shared-blocked-first-flush")
                    if spelling_of[t][2:4] != [list(args), [list(x) for x in kw]]:
                        feat("shared-other-spelling")
                seen_calls[ck] = True
                if th != 0:
                    feat("call-on-helper-thread")
        log.append("(obs %s %s %d)" % (head, res, size()))
        if task is not None:
            slots.append(task)
        return task, new

    def do_dirty(fi, recv, args, kw, th):
        fi = fi % len(fns_decl)
        if fns_decl[fi]["kind"] == "func":
            recv = "none"
        elif recv == "none":
            recv = "cls"
        if not isinstance(recv, str):
            recv = ["inst", recv[1] % len(insts)]
        kw = [[n, v] for n, v in dict((n, v) for n, v in kw).items()]
        head = "(dirty %s)" % fmt_spell(fi, recv, args, kw, th)
        a = [val(x) for x in args]
        k = {"p%d" % n: val(v) for n, v in kw}
        feat("dirty")
        before = size()
        try:
            on_thread(th, lambda: target(fi, recv).dirty(*a, **k))
            res = "(unit)"
        except TypeError:
            res = "(typeError)"
        except Exception as e:
            res = "(raised %s)" % type(e).__name__
        if size() < before:
            feat("dirty-removed-entry")
        log.append("(obs %s %s %d)" % (head, res, size()))

    nontriv = [False]

    # ---- the body of every deduplicated function ------------------------------------------------
    def run(fi, params, rest, extra):
        task = asynq.scheduler.get_active_task()
        t = tok_of.get(id(task), UNKNOWN)
        r = runs[0]
        runs[0] += 1
        started.add(t)
        ex = sorted((int(k[1:]), vtok(v)) for k, v in extra.items())
        log.append("(obs (start %d) (binding (%s) (%s) (%s)) %d)" % (
            t, " ".join(str(vtok(x)) for x in params), " ".join(str(vtok(x)) for x in rest),
            " ".join("(%d %d)" % kv for kv in ex), size()))
        feat("body-run")
        script = case["bodies"][r % len(case["bodies"])] if r < MAXRUNS and case["bodies"] else \
            {"steps": [], "post": [], "end": "ret"}
        me = spelling_of.get(t)

        def inside(acts):
            last = None
            for a in acts:
                if a[0] == "self" and me is not None:
                    x, new = do_call(*me, inside=t)
                elif a[0] == "dirtyself" and me is not None:
                    do_dirty(*me)
                    continue
                elif a[0] == "call":
                    x, new = do_call(a[1], a[2], a[3], a[4], a[5], inside=t)
                elif a[0] == "dirty":
                    do_dirty(a[1], a[2], a[3], a[4], a[5])
                    continue
                else:
                    continue
                if x is not None and new:
                    last = x
            return last

        for st in script["steps"]:
            last = inside(st["pre"])
            y = st["y"]
            if y == "lastsync" and last is not None:
                feat("sync-eval-of-private-task")
                try:
                    last.value()
                except UserErr:
                    pass
            if y == "fail":
                dep = futures.ErrorFuture(UserErr(UNKNOWN))
            elif y == "last" and last is not None:
                dep = last
                feat("await-of-inside-created-task")
            else:
                dep = HItem()
            log.append("(obs (suspend %d) (unit) %d)" % (t, size()))
            try:
                yield dep
            except UserErr:
                resumed[t] = resumed.get(t, 0) + 1
                log.append("(obs (resume %d 1) (unit) %d)" % (t, size()))
                feat("resumed-by-throw")
            else:
                resumed[t] = resumed.get(t, 0) + 1
                log.append("(obs (resume %d 0) (unit) %d)" % (t, size()))
        inside(script.get("post", []))
        if script["end"] == "raise":
            raise UserErr(r)
        return ("v", r)

    H.run = run

    # ---- actors ---------------------------------------------------------------------------------
    @asynq.asynq()
    def actor(phases):
        for ph in phases:
            mine = []
            for a in ph["acts"]:
                if a[0] == "call":
                    x, _ = do_call(a[1], a[2], a[3], a[4], a[5])
                    if x is not None:
                        mine.append(x)
                else:
                    do_dirty(a[1], a[2], a[3], a[4], a[5])
            w = ph["wait"]
            if w == "mine" and mine:
                deps = list(mine)
            elif w == "all" and slots:
                deps = list(slots)
            elif w == "first" and mine:
                deps = [mine[0]]
            else:
                deps = [HItem()]
            try:
                yield deps
            except UserErr:
                pass

    @asynq.asynq()
    def root():
        yield [actor.asynq(ph) for ph in case["actors"]]

    try:
        root()
    finally:
        for w in workers.values():
            w.stop()
        DeduplicateDecorator.tasks.clear()

    hdr = []
    for d in fns_decl:
        def ps(l):
            return " ".join("(%d %s)" % (nm, "none" if df is None else str(df)) for nm, df in l)
        hdr.append("(fn %s (%s) (%s) %d %d)" % (d["kind"], ps(d["pos"]), ps(d["kwonly"]),
                                                1 if d["varargs"] else 0, 1 if d["varkw"] else 0))
    lines = ["(case dedup %d %s)" % (case["id"], " ".join(hdr))] + log + ["(end)"]
    fl = sorted(feats)
    fl += ["kind=" + k for k in sorted({d["kind"] for d in fns_decl})]
    if any(d["varargs"] for d in fns_decl):
        fl.append("sig-varargs")
    if any(d["varkw"] for d in fns_decl):
        fl.append("sig-varkw")
    if any(d["kwonly"] for d in fns_decl):
        fl.append("sig-kwonly")
    fl.append("ops<=%d" % next(b for b in (5, 10, 20, 40, 80, 10 ** 9) if len(log) <= b))
    ncalls = feats.get("call", 0)
    nontrivial = None
    if nontriv[0] and ncalls >= 2:
        nontrivial = hashlib.sha1(json.dumps({k: v for k, v in case.items() if k != "id"}, sort_keys=True).encode()
                                  ).hexdigest()[:16]
    return {"lines": lines, "features": fl, "nontrivial": nontrivial}
