"""C09  All ways of calling an async function agree, for every kind of callable.

One case = one cell of the product  decorator kind x function type x access path x body kind x (returns | raises)
x parameter signature x argument list.  For the cell the harness generates fresh classes (Base, Sub(Base), instances,
and a same-named *twin* hierarchy), fetches the callable through the access path and exercises every calling
convention on the REAL library; it records, per convention, which body was entered, the identity of every bound
parameter (receiver, positional, defaulted, keyword-only, extra) and the outcome, plus the answers of the
classification helpers.  The Lean model (AsynqModel.Lib.Decorators) computes the same observations from the objects
`__get__`/`__call__`/`asynq`/`async_call` build (correspondence), and the Lean predicate `Decorators.spec` (the
statement of C09, proved of the model for every SUPPORTED cell and ARBITRARY argument lists without a keyword called
`fn`: C09_spec_holds_partial; the model mirrors the OPEN DEFECT `async_call(f, fn=...)` -> TypeError, see below) judges the
implementation's observations on their own.  `spec` is exact (C09_spec_exact): it accepts the one report of the
reference table and nothing else - in particular nothing at all for a cell outside the supported bindings (none is
generated: `cells()` enumerates exactly `Decorators.supported`).

13 conventions are driven on the real code.  In the model they are 10 distinct computations: sync / nestedSync,
asynqValue / yieldAsynq and asyncCall / asyncCallSync are one clause each BY DEFINITION (that a yield from a task,
`.value()` and a nested synchronous call deliver the same outcome is C01/C02, assumed here), so agreement inside these
pairs - like the irrelevance of a receiver's truth value and of earlier look-ups (`falsy`, `pre`: dimensions of the
harness that no function of the model reads) - rests on this differential run, not on a theorem (BY_CONSTRUCTION).

Three conventions make a SECOND call of the same decorated attribute - in flight in the same yield (`sibling`, through
async_call: `siblingCall`) or completed / failed just before (`prior`).  The second call goes through another receiver
(a second instance of the class, the other class of the hierarchy for a classmethod) or passes other argument objects;
the objects are plain, falsy, or chosen so that their HASHES COLLIDE with those of the observed call (a user class with
a constant __hash__ and __repr__, built-in ints k / k + 2**61-1, tuples (-1, k) / (-2, k)).  Each of the two calls
must run the body with its own receiver and its own arguments (theorems C09_second_call_partial,
C09_other_keys_irrelevant_partial, C09_own_entries, C09_dict_hash_irrelevant: the in-flight table of deduplicate and the caches of alru_cache /
acached_per_instance are part of the model, with an arbitrary hash function).  When the second call would be the
observed call itself (nothing to vary) the three conventions are skipped: how often a body runs for IDENTICAL calls is
C12's / C13's subject.

HISTORY of the world (`hist`): before the observed convention, in the same world, the attribute is used (in this or
another thread), the helpers are applied to it, the instances are replaced by copy.copy / copy.deepcopy of themselves,
`.asyncio()` calls (of a returning helper, of a failing helper, of the attribute itself) are awaited directly in the
coroutine in which the convention then runs, earlier look-ups are garbage collected, debug options are switched on, a
scoped value is overridden, the class attribute is mock-patched and restored.  The observations must be those of a
fresh world.  The model NAMES the two pieces of state that could matter (asyncio-mode flag, instance __dict__ entries
shadowing the attribute) but no event writes them: that the model's report does not depend on the history holds BY
CONSTRUCTION (C09_history_*_by_construction, not headline claims); that the CODE leaves nothing behind rests on this
differential run (contrast witnesses C09_aio_exit_needed, C09_use_shadow_needed).
OVERRIDE (`ovr`): Sub defines its own attribute of the same name, decorated the same way, whose bodies (5, 6) delegate
to the inherited one through super(): every entry of an own body must be preceded by the overriding body's entry with
the same bound parameters (direct expectation in Lean: ovrLog; no theorem models super(); for these cases CORR and SPEC
are the same comparison against that one expectation).  Decoration options the
model does not read: `shared` (ONE decorator-factory object decorates the own and the twin function), `kwopt` (the
seldom used keywords asyncio_fn= / allow_sync_call= are supplied; the asyncio_fn must never run).

PREDECESSORS (`pred` x `gens` generations, `nwr`): the library identifies functions and instances in its tables by
id() - DeduplicateDecorator.tasks is ONE table for all deduplicated functions keyed by (id(self.fn), key),
acached_per_instance keys by id(self) and drops the entry from a weakref callback - and id() is unique among LIVE objects
only.  Before the object under test is created the world lets predecessors live and die: `fn` = earlier decorated
functions (bodies 7 / 8) installed under the same name on the same class (module level: re-defined), used through the
observed receiver with the observed argument objects, one more task made by `.asynq(...)` and never awaited, then
replaced; `inst` = earlier instances of the same classes that used the attribute with the observed argument objects and
were dropped.  The observations must be those of a fresh world (the model does not read `pred`; theorem
C09_predecessors_irrelevant says why the code can achieve this - every entry pins its owner, so a new object's address
is the address of no entry's owner - and C09_pinned_needed what happens otherwise).  `nwr`: the generated classes
declare `__slots__ = ()`, their instances cannot be weakly referenced: no difference for any decorator but
acached_per_instance, which REFUSES such instances (weakref.ref raises TypeError before anything runs, every convention
alike).  Those cases go to the driver mode `decoratorsNwr` and are judged by a DIRECT EXPECTATION (no theorem): CORR =
every convention that is run ends in TypeError with an empty log; SPEC accepts that or the ordinary reference report
(the conventions agree AND, if they answer, the body ran with the bound instance) and nothing else.

KEYWORD NAMES: a..e and `fn`.  `def async_call(fn, *args, **kwargs)` (decorators.py:398) binds the callable to a
positional-or-keyword parameter: `async_call(f, x, fn=v)` raises TypeError while f(x, fn=v) and f.asynq(x, fn=v) run the
body - a GENUINE VIOLATION of C09 (the conventions disagree) for every body that accepts the keyword.  The model mirrors
the code (Decorators.asyncCall; theorems C09_async_call_kw_fn, C09_async_call_fn_counterexample; every theorem about an
async_call convention carries the hypothesis `fnFree` and is named *_partial), the reserved-name family and 6 % of the
random argument lists reach it, and `signature` gives it the stable name `async_call/keyword-named-fn`.

An UNDECORATED generator function (kind raw x body gen / batch) is ordinary Python: every convention that reaches it
hands back the unstarted generator object, no body is entered (C09_raw_generator_partial).  These cells are outside the
statement of C09 (it speaks about decorated callables) but inside what the helpers accept, so they are modelled and
enumerated (they used to be skipped while the model claimed that the body runs)."""
import hashlib
import inspect
import json
import random

PID = "C09"
LEVEL = "proof"
LEAN_MODULES = ["AsynqModel.Theorems.C09"]
# HEADLINE: the property theorems (statements with content about the model) and the machine-checked necessity
# witnesses of their hypotheses.  `_partial` = carries the decidable hypothesis `fnFree` (no keyword argument is called
# `fn`): the open defect async_call(f, fn=...) (C09_async_call_kw_fn / C09_async_call_fn_counterexample).
HEADLINE = [
    "AsynqModel.Decorators.C09_agree_partial",
    "AsynqModel.Decorators.C09_receiver_partial",
    "AsynqModel.Decorators.C09_sync",
    "AsynqModel.Decorators.C09_direct",
    "AsynqModel.Decorators.C09_outcome_partial",
    "AsynqModel.Decorators.C09_raw_generator_partial",
    "AsynqModel.Decorators.C09_body_kind_irrelevant",
    "AsynqModel.Decorators.C09_get_binder",
    "AsynqModel.Decorators.C09_any_receiver",
    "AsynqModel.Decorators.C09_classify",
    "AsynqModel.Decorators.C09_convert_partial",
    "AsynqModel.Decorators.C09_dedup_own_body",
    "AsynqModel.Decorators.C09_separates",
    "AsynqModel.Decorators.C09_proxy_pure_partial",
    "AsynqModel.Decorators.C09_spec_holds_partial",
    "AsynqModel.Decorators.C09_spec_holds_repaired",
    "AsynqModel.Decorators.C09_spec_exact",
    "AsynqModel.Decorators.C09_dict_hash_irrelevant",
    "AsynqModel.Decorators.C09_second_call_partial",
    "AsynqModel.Decorators.C09_second_call_default_key_partial",
    "AsynqModel.Decorators.C09_second_call_receivers",
    "AsynqModel.Decorators.C09_other_keys_irrelevant_partial",
    "AsynqModel.Decorators.C09_own_entries",
    # predecessors (objects that died before the one under test was created; id() reuse): entries that pin their owners
    # cannot reach a function created later; needed: C09_pinned_needed (seeded C09-10, C09-11)
    "AsynqModel.Decorators.C09_predecessors_irrelevant",
    "AsynqModel.Decorators.C09_pinned_needed",
    # the open defect: a keyword argument called `fn` breaks async_call (for every cell) + the concrete counterexample
    "AsynqModel.Decorators.C09_async_call_kw_fn",
    "AsynqModel.Decorators.C09_async_call_fn_counterexample",
    # the observer the driver evaluates (specX): exact, conservative over spec; the model satisfies it
    "AsynqModel.Decorators.C09_spec_holds_ext_partial",
    "AsynqModel.Decorators.C09_spec_exact_ext",
    "AsynqModel.Decorators.C09_ext_conservative",
    # machine-checked witnesses that the hypotheses of the theorems above are needed
    "AsynqModel.Decorators.C09_supported_needed",
    "AsynqModel.Decorators.C09_available_needed",
    "AsynqModel.Decorators.C09_body_kind_matters_raw",
    "AsynqModel.Decorators.C09_rawgen_needed",
    "AsynqModel.Decorators.C09_self_needed",
    "AsynqModel.Decorators.C09_has_asynq_needed",
    "AsynqModel.Decorators.C09_second_call_key_needed",
    "AsynqModel.Decorators.C09_second_call_distinct_needed",
    "AsynqModel.Decorators.C09_recv_param_needed",
    "AsynqModel.Decorators.C09_key_injective_needed",
    "AsynqModel.Decorators.C09_consistent_needed",
    "AsynqModel.Decorators.C09_cache_consistent_needed",
    "AsynqModel.Decorators.C09_sync_fn_spelling_needed",
    "AsynqModel.Decorators.C09_ovr_ok_needed",
    "AsynqModel.Decorators.C09_ext_conservative_needed",
]
# statements that hold BY CONSTRUCTION of the model (in Theorems/C09.lean for the record, axiom-audited, NOT claimed as
# property theorems): what they are about rests on the differential run only
BY_CONSTRUCTION = [
    "AsynqModel.Decorators.C09_truthiness_history_by_construction",   # Case.falsy / Case.pre are read by nothing
    "AsynqModel.Decorators.C09_convention_pairs_by_definition",       # sync=nestedSync, asynqValue=yieldAsynq, asyncCall=asyncCallSync
    # history of the world: HState.step is the identity on every reachable state (no Ev writes mode / shadowed) and the
    # history is not fed into Env (second audit N12)
    "AsynqModel.Decorators.C09_history_restores_by_construction",
    "AsynqModel.Decorators.C09_history_clean_by_construction",
    "AsynqModel.Decorators.C09_history_irrelevant_by_construction",
    # contrast models: what a leaking .asyncio() exit / a __get__ that caches in the instance __dict__ would do
    "AsynqModel.Decorators.C09_aio_exit_needed",
    "AsynqModel.Decorators.C09_use_shadow_needed",
    # ovrLog unfolded on C09_outcome_partial: holds for ANY observation with that log, no override is modelled
    "AsynqModel.Decorators.C09_override_log_by_construction",
]
THEOREMS = HEADLINE + BY_CONSTRUCTION
BUILDS = {"quick": ["py"], "thorough": ["py", "cy"]}
EXHAUSTIVE = {"quick": True, "thorough": True}
CASE_TIMEOUT = 20
RULE = ("exhaustive product: 12 decorator kinds (undecorated, asynq, asynq pure, async_proxy, async_proxy pure, asynq sync_fn pair, "
        "async_proxy sync_fn pair, make_async_decorator, deduplicate, aretry, alru_cache, acached_per_instance) x 13 "
        "bindings (module function; plain/staticmethod/classmethod x via instance/class/subclass instance/subclass; "
        "function-style wrappers only on the bindings they are written for = exactly the cells with Decorators.supported) x "
        "3 body kinds (plain return, generator, blocks on a batch; for the undecorated kind too) x returns/raises x 3 "
        "signatures (a,b=D,*,c=D | *args,**kw | a,b=D,*args,c=D,**kw) x "
        "11 fixed argument patterns (positional, keyword, default, keyword-only, extra, 4 malformed), then seeded random "
        "argument lists (keyword names a..e and, in 6 % of them and in the RESERVED-NAME family - every kind x 3 bindings x 3 "
        "signatures - `fn`, the name of async_call's own first parameter); every cell runs 13 calling conventions on the real code = 10 distinct computations of the model "
        "(sync call [= sync call inside a task], .asynq().value() [= yield .asynq() from a task], yield async_call.asynq "
        "[= async_call()], get_async_fn, get_async_or_sync_fn, get_async_fn(wrap_if_none=True), .asynq() with a same-named "
        "twin in flight, .asynq() and async_call with a SECOND CALL OF THE SAME ATTRIBUTE in flight, .asynq() after such a "
        "call has completed; the bracketed pairs are identified in the model by the C01/C02 assumption) + the 5 classification helpers; "
        "second-call family: every cell x (second call through another receiver | with other argument objects) x kind of "
        "objects (plain, all hashes and reprs equal, built-in ints with equal hashes, tuples with equal hashes, falsy) x "
        "3 body kinds on a call passing positional, defaulted and keyword-only parameters + seeded random calls; 30 % of "
        "the random calls of the main product draw these dimensions at random, 15 % raise an exception that derives "
        "from BaseException only or is falsy, 10 % use a user task class (asynq(cls=...)), 10 % a user key function "
        "(deduplicate(keygetter=...), alru_cache(key_fn=...)); every class-bound cell is run again with FALSY instances "
        "and classes and after look-ups of the same attribute through the other access paths (base then subclass, "
        "subclass then base, instances in between) - dimensions the model does not read; HISTORY family: every cell x "
        "23 histories of the world before the observed convention (each of 13 events alone: use, use in another "
        "thread, the helpers, copy.copy / copy.deepcopy of the instances, awaited .asyncio() calls that return / fail / "
        "of the attribute itself, gc, debug options on, scoped-value override, mock patch restored, copy.copy of the "
        "binder; then used-then-copied, failed-.asyncio()-then-use, ... ) with body kind, signature, returns/raises, "
        "relation of the second call, value kind and falsy receivers rotating, + 10 % of the random calls with a random "
        "history of 1-4 events (thorough: 12 more random histories per cell); OVERRIDE family: every decorated kind x "
        "(instance method | classmethod) x (via subclass | its instance) x generator / batch body x 5 histories x "
        "relation of the second call, the subclass overriding the attribute and delegating through super(); "
        "decoration options: one decorator-factory object shared by the own and the twin function, asyncio_fn= / "
        "allow_sync_call= supplied, custom task keywords of asynq(pure=True); PREDECESSOR family: every cell x (earlier "
        "decorated functions under the same name on the same class, used with the observed receiver and arguments, one task "
        "never awaited, then replaced | earlier instances of the same classes, used and dropped) x number of generations "
        "(2, 6; thorough 1, 2, 3, 6, 12) so that id() of the object under test can be that of a dead one, + every instance-"
        "method cell with instances that cannot be weakly referenced (__slots__), alone and after 2 / 6 instance generations "
        "/ 3 function generations, + 7 % / 5 % of the random calls; non-trivial = a body was "
        "entered by at least two conventions with a receiver or at least one argument; distinct by hash of the cell")
TRUSTED = [
    "hand-written Lean model AsynqModel.Lib.Decorators (objects built by qcore.decorators.DecoratorBase.__init__/__get__, "
    "the asynq decorator/binder classes and tools wrappers) tied to the code by this exhaustive differential run only",
    "Lean function Decorators.bind = CPython's binding of positional/keyword arguments to parameters (assumed semantics, "
    "covered by the same differential run)",
    "Python harness checks/c09.py (class generation, token <-> object identity mapping; in the two-call conventions an "
    "exception raised while a future is being created is delivered where the future is awaited, so that both calls are made)",
    "qcore.decorators (compiled), qcore.caching.get_args_tuple, CPython descriptor protocol for function/staticmethod/classmethod",
    "predecessor generations are a construction of the harness (World._hierarchy / _ghost_use); whether CPython hands a dead "
    "object's address to the object under test is up to the allocator (observed: within 2-3 generations for decorator "
    "objects and slot-less instances) - a quiet run says nothing was found under the addresses that WERE reused; "
    "driver mode decoratorsNwr (Drv/Decorators.lean nwrReport / nwrClause): direct expectation for acached_per_instance on "
    "instances that cannot be weakly referenced, no theorem speaks about it",
    "history events and the overriding subclass are constructions of the harness (World.event / aio_event / _make_override); "
    "HState (asyncio-mode flag, shadowed instance __dict__ entries) is the model's whole idea of what a use can leave behind, and "
    "no event of the model writes it: that the code leaves nothing behind (these two or anything else) is established by the run only",
]
ASSUMPTIONS = [
    "`.value()`, yielding a future from a task and a nested synchronous call deliver the future's own outcome (C01/C02): "
    "the model identifies the convention pairs sync/nestedSync, asynqValue/yieldAsynq, asyncCall/asyncCallSync by "
    "definition, so that they agree on the real code is established by the differential run only",
    "the observed conventions run with asyncio mode off (what fn.asyncio delivers is C15); earlier .asyncio() calls in the same "
    "context, returning or failing, are history events and must leave the mode off (checked on the real code by the history "
    "family; in the model this holds by construction - C09_history_restores_by_construction, contrast C09_aio_exit_needed; seeded C09-8); "
    "the observed convention runs on one thread (a history event may have used the attribute on another)",
    "restricted to the cells with Decorators.supported (hypothesis of every theorem, conjunct of spec): module-level "
    "callables are plain functions; the function-style wrappers (aretry, alru_cache, acached_per_instance) are exercised "
    "only on functions and instance methods (acached_per_instance on instance methods), as the property's quantifier says; "
    "each convention runs on freshly generated classes; in the MODEL the caches are cold apart from the ONE earlier call of "
    "the convention `prior` - on the real code the history events `use` / `useThread` / `aioSelf` make up to three further calls "
    "per event with THIRD argument objects (other keys: C09_other_keys_irrelevant_partial says such entries cannot matter; the "
    "model does not thread them through the history) (longer cache histories are C13)",
    "OPEN DEFECT, inside the statement: a keyword argument called `fn` - `def async_call(fn, *args, **kwargs)` takes it for a "
    "second value of its own first parameter and raises TypeError where f(fn=...) / f.asynq(fn=...) run the body.  Modelled as "
    "the code is (Decorators.asyncCall); hypothesis `fnFree` of every *_partial theorem, needed: C09_async_call_kw_fn (all "
    "cells), C09_async_call_fn_counterexample; the repaired tree (fn positional-only) is modelCvF / C09_spec_holds_repaired; "
    "signature async_call/keyword-named-fn",
    "keyword NAMES are the identifiers a..e and fn.  A NON-receiver parameter called `self` passed by keyword is not generated: in "
    "the pure-Python build every `def __call__(self, *args, **kwargs)` / `def asynq(self, *args, **kwargs)` of the decorator and "
    "binder classes rejects it with TypeError (ALL conventions alike - they agree, on an error an undecorated function would not "
    "raise), the Cython build accepts it; same root cause as the `fn` defect (a positional-or-keyword parameter of the call "
    "machinery in front of **kwargs), outside what the model's name tokens express",
    "HOW sync_fn is supplied: the model and the harness use, per decorator, the one spelling that works - @asynq(sync_fn=X) over a "
    "classmethod / staticmethod needs X wrapped LIKE fn (AsyncAndSyncPairDecorator.__get__ re-binds it through the descriptor "
    "protocol), @async_proxy(sync_fn=X) needs the BARE function (no __get__ override: it calls sync_fn(receiver, ...) itself).  With "
    "the other spelling the plain call fails or runs sync_fn with the wrong receiver while .asynq works (C09_sync_fn_spelling_needed, "
    "reproduced on the real code): the property's sync_fn sentence is claimed for the working spelling only - an undocumented API "
    "asymmetry, not filed as a defect",
    "an UNDECORATED generator function is outside the statement of C09 (it speaks about decorated callables): calling "
    "it through sync / async_call / get_async_or_sync_fn / get_async_fn(wrap_if_none=True) yields the unstarted "
    "generator object and runs nothing; modelled as it is (C09_raw_generator_partial), not counted as a violation",
    "the second call of sibling / siblingCall / prior always differs from the observed one in its receiver or in every "
    "argument object, with the same spelling (so any key function that keeps the arguments apart separates them: "
    "hypothesis hkey of C09_second_call_partial, needed - C09_second_call_key_needed); how often a body runs for two IDENTICAL "
    "calls (in-flight sharing, cache hits) is C12 / C13 and the conventions are skipped there; argument objects AND RECEIVERS "
    "compare by identity (no two distinct objects are ==).  With a receiver class that has value equality this is false of "
    "the code for the deduplicate cells: while a.m.asynq(x) is in flight, b.m.asynq(x) / async_call(b.m, x) of a DISTINCT "
    "instance b == a are answered with a's task, i.e. the body runs with a as bound instance (reproduced: frozen dataclass "
    "with a compare=False field, own __eq__ / __hash__) - inside C09's 'same bound instance'; recorded as the OPEN FINDING "
    "dedup/fail:equal-instances@call of C12 (known_findings.json, also_properties C09), generated, modelled and "
    "witnessed there (checks/c12.py `insteq`, Lib/DedupEq.lean, C12_equal_instances_counterexample); this check does not "
    "generate it a second time",
    "ASYNCIO MODE, allow_sync_call (audit 3, B7) - OUTSIDE the statement: the sentence 'the synchronous call, .asynq().value(), "
    "yielding .asynq() from a task and async_call all ... give the same outcome; when sync_fn is supplied the synchronous call "
    "runs sync_fn instead' describes asynq mode.  Under a running fn.asyncio() the library REFUSES the synchronous call of every "
    "@asynq / sync_fn-pair callable by design (RuntimeError 'asyncio mode does not support synchronous calls', "
    "decorators.py AsyncDecorator.__call__ / AsyncAndSyncPairDecorator.__call__), so the conventions cannot agree there for any "
    "decorator kind and the property's quantifier has no mode dimension (what asyncio mode delivers is C15).  "
    "Reproduced on 28d2b07 and NOT judged here: (1) allow_sync_call=True turns the refusal into a logged warning and the call "
    "then returns None WITHOUT running the body or sync_fn (the `else:` branch holds the only return); (2) "
    "AsyncAndSyncPairDecorator.__get__ (decorators.py:283-289) rebuilds the decorator without allow_sync_call, "
    "so for a METHOD with sync_fn the opt-out is lost: "
    "C().m(2) raises RuntimeError where the module-level function returns None; C.__dict__['m'].allow_sync_call is True, "
    "C().m.decorator.allow_sync_call False.  One-line repair of (2): pass self.allow_sync_call as last argument of "
    "qcore.decorators.decorate(AsyncAndSyncPairDecorator, ...) in __get__ - described in INTEGRATION.md, no finding recorded "
    "because neither behaviour is reachable with asyncio mode off, where every observed convention of this check runs "
    "(decoration option `kwopt` supplies allow_sync_call=True and checks that it changes nothing there)",
    "C09_dedup_own_body / C09_own_entries: entries of the function under test in the in-flight table / the caches were "
    "put there by calls of that function (Table.ownConsistent) and none that runs with other arguments sits under this "
    "call's key (Table.separates: any injective key function - the default is - or no own entry: C09_separates); both "
    "needed: C09_consistent_needed, C09_key_injective_needed",
    "override cases (Sub overrides the attribute and delegates through super()) are judged by a DIRECT EXPECTATION written in "
    "Lean (ovrLog: the overriding body's entry, same bound parameters, just before every entry of an own body; outcome "
    "unchanged; the conventions with two calls in flight are not run; a doubly wrapped result of make_async_decorator is unwrapped "
    "twice by the harness) - no theorem models super(), CORR and SPEC are the same comparison for these cases "
    "(C09_override_log_by_construction is ovrLog unfolded, not a claim); the delegation step alone is "
    "an instance of C09_any_receiver (super(Sub, self).target is __get__(self, Sub) of the inherited attribute)",
    "ALL history events are the identity on every state of the model a history can reach, by construction (no event writes the "
    "asyncio-mode flag or a shadowing __dict__ entry; copy on nothing shadowed and a set-then-reset .asyncio() are the identity "
    "too): the C09_history_*_by_construction statements are not claims about the code; `use` / `aioSelf` degrade to a look-up / "
    "to nothing when the case passes no arguments (the call would BE the observed call); one decorator-factory object for several functions, asyncio_fn= / "
    "allow_sync_call=, custom task keywords are not inputs of the model",
    "predecessors (`pred`, `gens`) and slot-only instances (`nwr`) are not inputs of the model; C09_predecessors_irrelevant is "
    "stated over addresses (token 1 = address of the function under test) under the hypothesis Table.pinned (every entry's "
    "owner is alive) that the CODE has to maintain - whether it does is the differential run's part (C09_pinned_needed: the two "
    "ways it was broken by seeded changes); acached_per_instance refuses instances that cannot be weakly referenced (TypeError "
    "in every convention: they agree, nothing runs) - accepted as the code's documented-by-behaviour restriction, judged by the "
    "direct expectation of mode decoratorsNwr",
    "the truth value of receivers, the history of attribute look-ups, the class of the raised exception, a user task "
    "class and a user key function are not inputs of the model: its answer is the same for all of them (by "
    "construction - no theorem is claimed; the harness varies them on the real code)",
]

KINDS = ["raw", "asynq", "pure", "proxy", "proxyPure", "pair", "pairProxy", "mad", "dedup", "aretry", "alru", "acpi"]
# @async_proxy(pure=True) used to hand the function back unmarked, so the helpers did not recognise it (found by this
# check, fixed in the library, theorem C09_proxy_pure_partial); the cells stay in the enumeration as a regression guard.
INCLUDE_PROXY_PURE = True
FN_STYLE = ("aretry", "alru", "acpi")
FTS = ["plain", "static", "classm"]
ACCS = ["inst", "cls", "subInst", "subCls"]
BODIES = ["plain", "gen", "batch"]
SIGS = ["fixed", "var", "mixed"]
CONVS = ["sync", "asynqValue", "yieldAsynq", "nestedSync", "asyncCall", "asyncCallSync", "getAsyncFn", "getAsyncOrSync",
         "getAsyncFnWrap", "twin", "sibling", "siblingCall", "prior"]
# conventions with a SECOND call of the same attribute; `rel` = how that call differs from the observed one,
# `vk` = what kind of objects the argument values (and, for chash, the receivers) are
SIBCONVS = ("sibling", "siblingCall", "prior")
RELS = ["args", "recv"]
VKS = ["tok", "chash", "bigint", "tuple", "falsy"]
SUBST = 100   # the value that replaces value token n in the second call is token n + SUBST
THIRD = 200   # ... and in the calls of the history events (`use`, `aioSelf`) token n + THIRD
INST2, SUBINST2 = 9, 10   # second instances of Base and of Sub
ORIG = 50     # after a `copy` event the copies carry the instance tokens, the originals live on as token + ORIG
# events in the world of the observed convention BEFORE it (Lean: Decorators.Ev; the model's state is the asyncio-mode
# flag and the instance __dict__s: by construction no event writes them - C09_history_restores_by_construction)
EVS = ["use", "useThread", "helpers", "copy", "deepcopy", "aioOk", "aioFail", "aioSelf", "gc", "dbg", "scoped", "mocked",
       "bcopy"]
AIO_EVS = ("aioOk", "aioFail", "aioSelf")
# histories of the fixed family: every single event, then the combinations that matter (an instance that was USED and
# then copied; a failed .asyncio() call and then a copy; everything at once)
HISTS = [[e] for e in EVS] + [["use", "copy"], ["use", "deepcopy"], ["useThread", "copy"], ["helpers", "use", "gc"],
                               ["aioFail", "use"], ["aioOk", "aioFail", "aioSelf"], ["use", "aioSelf", "copy"],
                               ["dbg", "scoped", "use"], ["mocked", "use", "copy", "aioFail"], ["use", "copy", "bcopy"]]
# PREDECESSORS (`pred`, `gens` generations): objects that lived and DIED before the object under test was created, so
# that CPython may hand their address (`id()`) to it - whatever the library keyed by id() and did not clean up is found
# again.  "fn": earlier decorated functions (other bodies, identities 7 / 8) installed under the same name on the same
# class (module level: bound to the same variable), used with the observed receiver and argument objects, one more
# task created by `.asynq(...)` and never awaited, then replaced; "inst": earlier instances of the same classes that
# used the attribute with the observed argument objects and were dropped.  `nwr`: the generated classes declare
# `__slots__ = ()` - their instances have no __dict__ and cannot be weakly referenced.
PREDS = ["fn", "inst"]
GHOST, GHOST_SYNC = 7, 8
# conventions with two calls in flight at once: not run on override cases (Lean: Cv.inFlight)
INFLIGHT = ("twin", "sibling", "siblingCall")
# dimensions the model does not look at (it is the same for all of them): class of the exception a body raises,
# a user task class (asynq(cls=...)), a user supplied key function (deduplicate(keygetter=...), alru_cache(key_fn=...))
EKS = ["exc", "base", "falsy"]
UNKNOWN = 999
# tokens: receivers 1-8, separators 0, defaults 20/21, argument values 30.., names a=1 b=2 c=3 d=4 e=5 fn=6
INST, CLS, SUBINST, SUBCLS = 1, 2, 3, 4
TWIN = 4  # twin receivers are 5..8
DB, DC = 20, 21
NAMES = {1: "a", 2: "b", 3: "c", 4: "d", 5: "e", 6: "fn"}
FN = 6   # Lean: Decorators.nameFn - the keyword that collides with the first parameter of `def async_call(fn, *args, **kwargs)`
# fixed argument patterns (pos, kw): valid for `fixed`, then 4 malformed for `fixed`
PATTERNS = [
    ([30], []),                         # positional
    ([30, 31], []),                     # positional filling the default
    ([30], [[2, 31]]),                  # default given by keyword
    ([], [[1, 30]]),                    # required given by keyword
    ([30], [[3, 32]]),                  # keyword-only
    ([30, 31], [[3, 32]]),
    ([], [[3, 32], [2, 31], [1, 30]]),  # all by keyword, out of order
    ([], []),                           # malformed for fixed/mixed: missing required
    ([30, 31, 32], []),                 # malformed for fixed: too many positional
    ([30], [[1, 31]]),                  # malformed for fixed/mixed: multiple values for `a`
    ([30], [[4, 33]]),                  # malformed for fixed: unknown keyword
]


def cells():
    for kind in KINDS:
        if kind == "proxyPure" and not INCLUDE_PROXY_PURE:
            continue
        if kind != "acpi":
            yield kind, "plain", "direct"
        for ft in FTS:
            if kind in FN_STYLE and ft != "plain":
                continue
            for acc in ACCS:
                yield kind, ft, acc


def gen_args(rng):
    npos = rng.choice([0, 1, 1, 2, 2, 3, 4])
    if rng.random() < 0.04:
        npos = rng.choice([9, 12])   # long argument lists (valid for the *args signatures)
    pos = [30 + i for i in range(npos)]
    names = [n for n in (1, 2, 3, 4, 5) if rng.random() < 0.35]
    if rng.random() < 0.06:
        names.append(FN)   # a keyword called `fn`: accepted by **kwargs bodies - and a second value for async_call's `fn`
    rng.shuffle(names)
    kw = [[n, 40 + n] for n in names]
    return pos, kw


def corpus():
    import glob
    import os
    res = []
    d = os.path.join(os.path.dirname(os.path.dirname(os.path.dirname(os.path.abspath(__file__)))), "corpus", PID)
    for p in sorted(glob.glob(os.path.join(d, "*.json"))):
        with open(p) as f:
            res.append(json.load(f))
    return res


REDUCED = (0, 5, 7)   # indices into PATTERNS used for the truthiness / access-history variants


def variants(tier, acc):
    """(falsy, pre) variants of a cell beyond the basic one: instances AND classes that are falsy (`__len__` -> 0 on
    instances, `__bool__` -> False on the metaclass), and look-ups of the same decorated attribute through the other
    access paths BEFORE the observed one (anything `__get__` remembers between accesses becomes observable)"""
    if acc == "direct":
        return []
    others = [a for a in ACCS if a != acc]
    res = [(1, []), (0, others), (1, list(reversed(others)))]
    if tier != "quick":
        res += [(0, [a]) for a in others] + [(0, list(reversed(others))), (1, others)]
    return res


def eff_recv(case):
    """the second call really uses another receiver (otherwise every argument value is replaced)"""
    return case.get("rel", "args") == "recv" and case["acc"] != "direct" and case["ft"] != "static"


def identical_second(case):
    """the second call would be the observed call itself: nothing to vary"""
    return not eff_recv(case) and not case["pos"] and not case["kw"]


def ovr_ok(case):
    """where the override family is defined (Lean: XCase.ovrOk): fetched through the subclass or its instance, a
    function with a receiver (a classmethod only when the second call does not go through the base class), a
    generator body"""
    return (case["acc"] in ("subInst", "subCls") and case["body"] != "plain" and
            (case["ft"] == "plain" or (case["ft"] == "classm" and case.get("rel", "args") == "args")))


def eff_pred(case):
    """the predecessors a case really has: instance generations need an instance receiver (else: function generations)"""
    pred = case.get("pred")
    if pred == "inst" and not (case["ft"] == "plain" and case["acc"] != "direct"):
        return "fn"
    return pred


def nwr_refused(case):
    """acached_per_instance keeps a weak reference to the instance: instances that cannot be weakly referenced are
    refused (TypeError) by every convention alike - judged by the direct expectation of the driver mode decoratorsNwr"""
    return bool(case.get("nwr")) and case["kind"] == "acpi" and case["acc"] != "direct"


def valid(case):
    if case.get("ovr") and (case.get("pred") or case.get("nwr")):
        return False
    return not case.get("ovr") or ovr_ok(case)


def gen_hist(rng):
    n = rng.choice([1, 1, 2, 2, 3, 4])
    return [rng.choice(EVS) for _ in range(n)]


def history_family(tier, rng):
    """every cell x every history of HISTS (each single event, then the combinations: used-then-copied, failed
    .asyncio() then use, ...) on a call that passes positional, defaulted and keyword-only parameters; body kind,
    signature, returns/raises and the relation of the second call rotate; thorough: + random histories"""
    cases = []
    n = 0
    for kind, ft, acc in cells():
        hists = list(HISTS)
        if tier != "quick":
            hists += [gen_hist(rng) for _ in range(12)]
        for hist in hists:
            n += 1
            base = dict(kind=kind, ft=ft, acc=acc, body=BODIES[n % 3], sig=SIGS[(n // 3) % 3], raises=1 if n % 5 == 0 else 0,
                        hist=list(hist), rel=RELS[n % 2])
            if n % 7 == 0:
                base["vk"] = VKS[(n // 7) % len(VKS)]
            if n % 11 == 0:
                base["falsy"] = 1
            cases.append(dict(base, pos=[30, 31], kw=[[3, 32]]))
            if tier != "quick":
                pos, kw = gen_args(rng)
                cases.append(dict(base, pos=pos, kw=kw))
    return cases


OVR_HISTS = [[], ["use"], ["use", "copy"], ["aioFail", "use"], ["helpers", "useThread", "gc"]]


def override_family(tier, rng):
    """the subclass overrides the decorated attribute and delegates through super(): every decorated kind x (instance
    method | classmethod) x (via the subclass | its instance) x generator / batch body x history (none, a second use,
    used then copied, ...) x relation of the second call x returns/raises"""
    cases = []
    n = 0
    for kind, ft, acc in cells():
        if kind == "raw" or ft == "static" or acc not in ("subInst", "subCls"):
            continue
        for body in BODIES[1:]:
            for hist in OVR_HISTS:
                for rel in RELS:
                    if rel == "recv" and ft != "plain":
                        continue
                    n += 1
                    base = dict(kind=kind, ft=ft, acc=acc, body=body, sig=SIGS[n % 3], ovr=1, hist=list(hist), rel=rel)
                    cases.append(dict(base, raises=1 if n % 4 == 0 else 0, pos=[30, 31], kw=[[3, 32]]))
                    for _ in range(0 if tier == "quick" else 3):
                        pos, kw = gen_args(rng)
                        cases.append(dict(base, raises=rng.choice([0, 0, 1]), pos=pos, kw=kw))
    return cases


KWOPT_KINDS = ("asynq", "proxy", "pair", "pairProxy", "mad", "dedup", "aretry", "alru", "acpi")


def gen_opts(rng, p=0.3):
    """random values of the second-call dimensions and of the dimensions the model does not look at"""
    o = {}
    if rng.random() < p / 3:
        o["hist"] = gen_hist(rng)
    if rng.random() < p / 4:
        o["shared"] = 1
    if rng.random() < p / 4:
        o["kwopt"] = 1
    if rng.random() < p:
        o["rel"] = rng.choice(RELS)
        o["vk"] = rng.choice(VKS)
    if rng.random() < p / 2:
        o["ek"] = rng.choice(EKS[1:])
    if rng.random() < p / 3:
        o["tcls"] = 1
    if rng.random() < p / 3:
        o["kg"] = 1
    if rng.random() < p / 4:
        o["pred"] = rng.choice(PREDS)
        o["gens"] = rng.choice([1, 2, 3, 5, 8])
    if rng.random() < p / 6:
        o["nwr"] = 1
    return o


def second_call_family(tier, rng):
    """every cell x (relation of the second call x kind of value objects) x body kind, on a call that passes
    positional, defaulted and keyword-only parameters, plus one random call; the signature rotates"""
    cases = []
    n = 0
    for kind, ft, acc in cells():
        has_recv = acc != "direct" and ft != "static"
        for rel in RELS:
            if rel == "recv" and not has_recv:
                continue
            for vk in VKS:
                if (rel, vk) == ("args", "tok"):
                    continue  # the default of every other case
                for body in BODIES:
                    n += 1
                    sig = SIGS[n % 3]
                    base = dict(kind=kind, ft=ft, acc=acc, body=body, sig=sig, rel=rel, vk=vk)
                    cases.append(dict(base, raises=0, pos=[30, 31], kw=[[3, 32]]))
                    for _ in range(1 if tier == "quick" else 4):
                        pos, kw = gen_args(rng)
                        extra = {k: v for k, v in gen_opts(rng).items() if k not in ("rel", "vk")}
                        cases.append(dict(base, raises=rng.choice([0, 0, 1]), pos=pos, kw=kw, **extra))
    return cases


def options_family():
    """every decorator kind on an instance method (module function for the rest) and a classmethod via the subclass x
    body kind x {exception deriving from BaseException only, falsy exception, user task class, user key function}"""
    cases = []
    for kind in KINDS:
        binds = [("plain", "inst"), ("classm", "subCls")] if kind not in FN_STYLE else [("plain", "inst")]
        for ft, acc in binds:
            for i, body in enumerate(BODIES):
                base = dict(kind=kind, ft=ft, acc=acc, body=body, sig=SIGS[i], pos=[30], kw=[[3, 32]])
                for ek in EKS[1:]:
                    cases.append(dict(base, raises=1, ek=ek, rel="recv"))
                cases.append(dict(base, raises=0, tcls=1))
                if kind in ("dedup", "alru"):
                    for vk in ("chash", "bigint"):
                        cases.append(dict(base, raises=0, kg=1, vk=vk))
                # ONE decorator-factory object for the own and the twin function; the seldom used keywords
                if kind not in ("raw", "pair", "pairProxy"):
                    cases.append(dict(base, raises=0, shared=1))
                    cases.append(dict(base, raises=0, shared=1, pos=[], kw=[]))   # own and twin calls spelled alike
                if kind in KWOPT_KINDS:
                    cases.append(dict(base, raises=i % 2, kwopt=1, hist=[["use"], ["aioOk"], []][i]))
    return cases


def predecessor_family(tier, rng):
    """every cell x (function generations | instance generations where there is an instance receiver) x number of
    generations (2 and 6; thorough: + 1, 3, 12) on a call that passes positional, defaulted and keyword-only parameters,
    body kind / signature / returns-raises / value kind rotating; instance methods again with instances that cannot be
    weakly referenced (`nwr`), alone and after instance generations; + the call without arguments on `var`"""
    cases = []
    n = 0
    sizes = [2, 6] if tier == "quick" else [1, 2, 3, 6, 12]
    for kind, ft, acc in cells():
        has_inst = ft == "plain" and acc != "direct"
        for pred in PREDS:
            if pred == "inst" and not has_inst:
                continue
            for gens in sizes:
                n += 1
                base = dict(kind=kind, ft=ft, acc=acc, body=BODIES[n % 3], sig=SIGS[(n // 3) % 3],
                            raises=1 if n % 5 == 0 else 0, pred=pred, gens=gens, rel=RELS[n % 2])
                if n % 4 == 0:
                    base["vk"] = VKS[(n // 4) % len(VKS)]
                if n % 6 == 0:
                    base["hist"] = [["gc"], ["use"], ["helpers", "gc"]][(n // 6) % 3]
                if n % 9 == 0:
                    base["shared"] = 1
                cases.append(dict(base, pos=[30, 31], kw=[[3, 32]]))
                if gens == sizes[-1]:
                    cases.append(dict(base, sig="var", pos=[], kw=[]))
                if tier != "quick":
                    pos, kw = gen_args(rng)
                    cases.append(dict(base, pos=pos, kw=kw))
        if has_inst:
            for i, (pred, gens) in enumerate([(None, 0), ("inst", 2), ("inst", 6), ("fn", 3)]):
                n += 1
                base = dict(kind=kind, ft=ft, acc=acc, body=BODIES[n % 3], sig=SIGS[(n // 3) % 3],
                            raises=1 if n % 5 == 0 else 0, nwr=1, rel=RELS[n % 2])
                if pred:
                    base.update(pred=pred, gens=gens)
                cases.append(dict(base, pos=[30, 31], kw=[[3, 32]]))
                if tier != "quick" or kind == "acpi":
                    cases.append(dict(base, pos=[30], kw=[], hist=[["use"], ["gc"], [], ["copy"]][i]))
    return cases


def reserved_name_family(tier, rng):
    """a keyword argument called `fn` (the name of async_call's own first parameter): every decorator kind x (module
    function | instance method | classmethod via the subclass) x signature x body kind rotating; alone and next to other
    keywords; bodies with **kwargs accept it (`var`, `mixed`), `fixed` bodies reject it in EVERY convention alike"""
    cases = []
    n = 0
    for kind in KINDS:
        binds = [("plain", "direct"), ("plain", "inst"), ("classm", "subCls")]
        if kind in FN_STYLE:
            binds = [("plain", "inst")] if kind == "acpi" else [("plain", "direct"), ("plain", "inst")]
        for ft, acc in binds:
            for sig in SIGS:
                n += 1
                base = dict(kind=kind, ft=ft, acc=acc, body=BODIES[n % 3], sig=sig, raises=1 if n % 6 == 0 else 0,
                            rel=RELS[n % 2])
                cases.append(dict(base, pos=[30], kw=[[FN, 46]]))
                if sig != "fixed":
                    cases.append(dict(base, pos=[30, 31], kw=[[3, 43], [FN, 46], [5, 45]]))
                if tier != "quick":
                    pos, kw = gen_args(rng)
                    kw = [x for x in kw if x[0] != FN] + [[FN, 46]]
                    cases.append(dict(base, pos=pos, kw=kw, **gen_opts(rng)))
    return cases


def plan(tier, seed):
    rng = random.Random(seed * 1000003 + 9)
    cases = corpus()
    nrand = 2 if tier == "quick" else 30
    cases += options_family()
    cases += reserved_name_family(tier, random.Random(seed * 1000003 + 13))
    cases += second_call_family(tier, random.Random(seed * 1000003 + 10))
    cases += history_family(tier, random.Random(seed * 1000003 + 11))
    cases += override_family(tier, random.Random(seed * 1000003 + 12))
    cases += predecessor_family(tier, random.Random(seed * 1000003 + 14))
    for kind, ft, acc in cells():
        for falsy, pre in variants(tier, acc):
            for body in BODIES:
                for sig in SIGS:
                    args = [PATTERNS[i] for i in REDUCED] + [gen_args(rng)]
                    for pos, kw in args:
                        cases.append(dict(kind=kind, ft=ft, acc=acc, body=body, raises=0, sig=sig, pos=list(pos),
                                          kw=[list(x) for x in kw], falsy=falsy, pre=list(pre)))
        for body in BODIES:
            # (an undecorated generator function is ordinary Python: every convention that reaches it hands back the
            # generator object and enters no body - theorem C09_raw_generator_partial; these cells used to be skipped)
            for raises in (0, 1):
                for sig in SIGS:
                    for pos, kw in PATTERNS:
                        # the full pattern list on returning bodies; raising bodies need fewer (the path is the same)
                        if raises and (pos, kw) not in (PATTERNS[0], PATTERNS[5], PATTERNS[7]):
                            continue
                        cases.append(dict(kind=kind, ft=ft, acc=acc, body=body, raises=raises, sig=sig,
                                          pos=list(pos), kw=[list(x) for x in kw]))
                    for _ in range(nrand if not raises else 1):
                        pos, kw = gen_args(rng)
                        cases.append(dict(kind=kind, ft=ft, acc=acc, body=body, raises=raises, sig=sig, pos=pos, kw=kw,
                                          **gen_opts(rng)))
    return cases


def shrink(case):
    for c in _shrink(case):
        if valid(c):
            yield c


def _shrink(case):
    hist = case.get("hist") or []
    for i in range(len(hist)):
        yield dict(case, hist=hist[:i] + hist[i + 1:])
    for k in ("ovr", "shared", "kwopt"):
        if case.get(k):
            yield {x: y for x, y in case.items() if x != k}
    if case.get("pred"):
        yield {x: y for x, y in case.items() if x not in ("pred", "gens")}
        if case.get("gens", 3) > 1:
            yield dict(case, gens=case.get("gens", 3) // 2)
    if case.get("nwr"):
        yield {x: y for x, y in case.items() if x != "nwr"}
    for i in range(len(case["pos"])):
        yield dict(case, pos=case["pos"][:i] + case["pos"][i + 1:])
    for i in range(len(case["kw"])):
        yield dict(case, kw=case["kw"][:i] + case["kw"][i + 1:])
    if case["body"] != "plain":
        yield dict(case, body="plain")
    if case["raises"]:
        yield dict(case, raises=0)
    if case["sig"] != "var":
        yield dict(case, sig="var")
    pre = case.get("pre", [])
    for i in range(len(pre)):
        yield dict(case, pre=pre[:i] + pre[i + 1:])
    if case.get("falsy"):
        yield dict(case, falsy=0)
    for k in ("ek", "tcls", "kg"):
        if case.get(k):
            yield {x: y for x, y in case.items() if x != k}
    if case.get("vk", "tok") != "tok":
        yield dict(case, vk="tok")
    if case.get("rel", "args") != "args":
        yield dict(case, rel="args")


def neighbours(case, rng):
    for c in _neighbours(case, rng):
        if valid(c):
            yield c


def _neighbours(case, rng):
    for hist in HISTS:
        yield dict(case, hist=list(hist))
    for hist in OVR_HISTS:
        yield {x: y for x, y in dict(case, ovr=1, hist=list(hist)).items() if x not in ("pred", "gens", "nwr")}
    for pred in PREDS:
        for gens in (2, 6):
            yield dict(case, pred=pred, gens=gens)
    for body in BODIES:
        for sig in SIGS:
            for raises in (0, 1):
                yield dict(case, body=body, sig=sig, raises=raises)
    for acc in ACCS:
        yield dict(case, acc=acc)
    if case["acc"] != "direct":
        for falsy in (0, 1):
            for a in ACCS:
                yield dict(case, falsy=falsy, pre=[a])
    for rel in RELS:
        for vk in VKS:
            yield dict(case, rel=rel, vk=vk)
    for _ in range(16):
        pos, kw = gen_args(rng)
        yield dict(case, pos=pos, kw=kw)
    if not any(n == FN for n, _ in case["kw"]):
        yield dict(case, kw=[list(x) for x in case["kw"]] + [[FN, 46]])


FN_FINDING = "async_call/keyword-named-fn"


def signature(case, v):
    # WHAT fails: the cell of the table and the clause (convention/helper), not the argument values
    if any(n == FN for n, _ in case["kw"]) and str(v["spec"]).endswith("@asyncCall"):
        # the FIRST convention that disagrees is async_call, and the call passes a keyword called `fn`: the open defect
        # `def async_call(fn, *args, **kwargs)` (one defect whatever the cell; the model mirrors it, so the framework
        # accepts the recorded finding only together with CORR=ok)
        return FN_FINDING
    sig = "%s/%s/%s/%s" % (case["kind"], case["ft"], case["acc"], v["spec"])
    if case.get("falsy"):
        sig += "/falsy-receiver"
    if case.get("pre"):
        sig += "/after-" + "-".join(case["pre"])
    if case.get("rel", "args") != "args" and any(("@" + c) in str(v["spec"]) for c in SIBCONVS):
        sig += "/second-call-other-receiver"
    if case.get("vk", "tok") != "tok":
        sig += "/values-" + case["vk"]
    for k in ("ek", "tcls", "kg"):
        if case.get(k):
            sig += "/%s=%s" % (k, case[k])
    if case.get("hist"):
        sig += "/history-" + "+".join(sorted(set(case["hist"])))
    if case.get("ovr"):
        sig += "/override-via-super"
    if case.get("shared"):
        sig += "/shared-decorator-factory"
    if case.get("pred"):
        sig += "/after-dead-predecessor-" + eff_pred(case)
    if case.get("nwr"):
        sig += "/slots-instances"
    if case.get("kwopt"):
        sig += "/asyncio_fn+allow_sync_call"
    return sig


# ---------------------------------------------------------------------------------------------------
# implementation side
# ---------------------------------------------------------------------------------------------------

class UserErr(Exception):
    pass


class NeverRaised(Exception):
    pass


class UserBaseErr(BaseException):
    """an application error that does not derive from Exception"""


class UserFalsyErr(Exception):
    """an application error that is falsy (`if error:` is not `if error is not None:`)"""

    def __bool__(self):
        return False

    def __len__(self):
        return 0


ERRCLS = {"exc": UserErr, "base": UserBaseErr, "falsy": UserFalsyErr}


class CHash(object):
    """argument objects whose hashes ALL collide and whose repr()/str() are all alike; equality is identity"""
    __slots__ = ("n", "__weakref__")

    def __init__(self, n):
        self.n = n

    def __hash__(self):
        return 7

    def __repr__(self):
        return "<value>"

    def __eq__(self, other):
        return self is other

    def __ne__(self, other):
        return self is not other


class FalsyVal(object):
    """argument objects that are falsy and look like empty containers"""
    __slots__ = ("n", "__weakref__")

    def __init__(self, n):
        self.n = n

    def __bool__(self):
        return False

    def __len__(self):
        return 0


HASH_MODULUS = __import__("sys").hash_info.modulus


def make_value(vk, n):
    """the object standing for value token n (30..45 the caller's, + SUBST the replacements of the second call)"""
    third = n >= THIRD
    if third:
        n2 = n - THIRD
        k, second = n2, False
    else:
        k, second = (n - SUBST, True) if n >= SUBST else (n, False)
    k -= 29
    if vk == "tok":
        return Tok(n)
    if vk == "chash":
        return CHash(n)
    if vk == "falsy":
        return FalsyVal(n)
    if vk == "bigint":
        # hash(k) == hash(k + modulus) for built-in ints: different values, equal hashes
        return k + 2 * HASH_MODULUS if third else k + HASH_MODULUS if second else k
    if vk == "tuple":
        # hash(-1) == hash(-2), hence hash((-1, k)) == hash((-2, k))
        return (-3, k) if third else (-2, k) if second else (-1, k)
    raise ValueError(vk)


class Tok(object):
    """argument / default / return objects: compared by identity only"""
    __slots__ = ("n", "__weakref__")

    def __init__(self, n):
        self.n = n


def _params(recv, sig):
    """(parameter list source, expression computing the list of bound values) of a generated body"""
    ps = [recv] if recv else []
    seen = [recv] if recv else []
    if sig == "fixed":
        ps += ["a", "b=DB", "*", "c=DC"]
        return ", ".join(ps), "[%s] + [SEP] + [SEP] + [c] + [SEP]" % ", ".join(seen + ["a", "b"])
    if sig == "var":
        ps += ["*args", "**kwargs"]
        return ", ".join(ps), "[%s] + [SEP] + list(args) + [SEP] + [SEP] + KWFLAT(kwargs)" % ", ".join(seen)
    if sig == "mixed":
        ps += ["a", "b=DB", "*args", "c=DC", "**kwargs"]
        return ", ".join(ps), "[%s] + [SEP] + list(args) + [SEP] + [c] + [SEP] + KWFLAT(kwargs)" % ", ".join(seen + ["a", "b"])
    raise ValueError(sig)


def _make_function(env, name, recv, sig, body, raises, bid, proxy):
    """source-generated user function.  `bid` = body identity token; returns RET[bid] or raises ERR[bid].
    proxy=True: the function must return a future (async_proxy contract)."""
    params, seen = _params(recv, sig)
    lines = ["def %s(%s):" % (name, params), "    entry = [%d, %s, 1]" % (bid, seen), "    LOG.append(entry)"]
    fin = "raise ERR[%d]" % bid if raises else "return RET[%d]" % bid
    if proxy:
        if body == "plain":
            lines.append("    return ErrorFuture(ERR[%d])" % bid if raises else "    return ConstFuture(RET[%d])" % bid)
        else:
            lines.append("    return HELPER_%s_%d.asynq(%d)" % (body, raises, bid))
    elif body == "plain":
        lines.append("    " + fin)
    elif body == "gen":
        lines += ["    got = yield ConstFuture(YV)", "    entry[2] = 1 if got is YV else 0", "    " + fin]
    elif body == "batch":
        lines += ["    got = yield DebugBatchItem('c09', YV)", "    entry[2] = 1 if got is YV else 0", "    " + fin]
    else:
        raise ValueError(body)
    exec(_compiled("\n".join(lines)), env)
    return env[name]


def _make_override(env, name, recv, sig, kind, bid, sync):
    """source-generated OVERRIDING function of the subclass (`ovr` cases): same parameter list as the inherited one, logs
    its bound parameters under identity `bid` (5 = async body, 6 = sync_fn) and delegates to the inherited attribute
    through super() with the same arguments - the async body by `yield super().target.asynq(...)` (the plain call for
    the kinds whose plain call hands back a future; a proxied body returns the future), sync_fn by the plain call"""
    params, seen = _params(recv, sig)
    call = {"fixed": "a, b, c=c", "var": "*args, **kwargs", "mixed": "a, b, *args, c=c, **kwargs"}[sig]
    inherited = "super(SUBCLS[0], %s).%s" % (recv, name)
    lines = ["def %s(%s):" % (name, params), "    entry = [%d, %s, 1]" % (bid, seen), "    LOG.append(entry)"]
    if sync:
        lines.append("    return %s(%s)" % (inherited, call))
    else:
        fut = "%s(%s)" % (inherited, call) if kind in ("pure", "proxyPure", "raw") else "%s.asynq(%s)" % (inherited, call)
        if kind in ("proxy", "proxyPure", "pairProxy"):
            lines.append("    return " + fut)
        else:
            lines += ["    got = yield " + fut, "    return got"]
    exec(_compiled("\n".join(lines)), env)
    return env[name]


_CODE = {}


def _compiled(src):
    code = _CODE.get(src)
    if code is None:
        code = _CODE[src] = compile(src, "<c09 generated>", "exec")
    return code


class World(object):
    """fresh classes / instances / log for one convention of one cell"""

    def __init__(self, case, lib, with_twin=False):
        asynq = lib["asynq"]
        self.case = case
        self.log = []
        self.objtok = {}       # id(object) -> token
        self.keep = []
        self.ret = {i: Tok(("ret", i)) for i in (1, 2, 3, 4, GHOST, GHOST_SYNC)}
        self.err = {i: ERRCLS[case.get("ek", "exc")]("e%d" % i) for i in (1, 2, 3, 4, GHOST, GHOST_SYNC)}
        self.abandoned = []    # predecessors: tasks created by `.asynq(...)` and never awaited (run by `close`)
        vals = {}
        vk = case.get("vk", "tok")
        for n in (DB, DC):
            vals[n] = Tok(n)
        for n in set(case["pos"]) | set(v for _, v in case["kw"]):
            vals[n] = make_value(vk, n)
            vals[n + SUBST] = make_value(vk, n + SUBST)
            vals[n + THIRD] = make_value(vk, n + THIRD)
        for n, v in vals.items():
            self.objtok[id(v)] = n
        self.vals = vals
        yv = Tok("yv")

        def kwflat(kwargs):
            out = []
            for k in sorted(kwargs):
                out.append(Tok(("name", k)))
                out.append(kwargs[k])
            return out

        env = dict(LOG=self.log, RET=self.ret, ERR=self.err, DB=vals[DB], DC=vals[DC], SEP=None, YV=yv,
                   KWFLAT=kwflat, ConstFuture=asynq.ConstFuture, ErrorFuture=asynq.ErrorFuture, DebugBatchItem=lib["DebugBatchItem"], asynq=asynq.asynq)
        # helpers for proxied bodies: tasks of the requested body kind that return RET[bid] / raise ERR[bid]
        if case["kind"] in ("proxy", "proxyPure", "pairProxy") and case["body"] != "plain":
            exec(_compiled("\n".join([
                "@asynq()", "def HELPER_gen_0(bid):", "    yield ConstFuture(YV)", "    return RET[bid]",
                "@asynq()", "def HELPER_gen_1(bid):", "    yield ConstFuture(YV)", "    raise ERR[bid]",
                "@asynq()", "def HELPER_batch_0(bid):", "    yield DebugBatchItem('c09', YV)", "    return RET[bid]",
                "@asynq()", "def HELPER_batch_1(bid):", "    yield DebugBatchItem('c09', YV)", "    raise ERR[bid]",
            ])), env)
        self.env = env
        self.lib = lib
        self.cleanup = []      # undo actions of the events that last (`dbg`, `scoped`), run by `close`
        self.factories = {}    # decoration option `shared`: ONE factory object per decorator kind
        self.aiofn_calls = []  # decoration option `kwopt`: calls of the supplied asyncio_fn (must stay empty)
        self.bcopy = False     # event `bcopy`: use copy.copy of what attribute access returns
        kind, ft, acc = case["kind"], case["ft"], case["acc"]
        self.own = self._hierarchy(lib, 0)
        if case.get("pred"):
            del self.log[:]    # what the predecessors ran is their own business
            del self.aiofn_calls[:]
        self.twin = self._hierarchy(lib, 1) if with_twin else {}
        for i, h in enumerate((self.own, self.twin)):
            off = TWIN * i
            for k, t in (("inst", INST), ("Base", CLS), ("subinst", SUBINST), ("Sub", SUBCLS)):
                if k in h:
                    self.objtok[id(h[k])] = t + off
        for k, t in (("inst2", INST2), ("subinst2", SUBINST2)):
            if k in self.own:
                self.objtok[id(self.own[k])] = t

    def _decorate(self, lib, f, sf, ft, inner_name):
        asynq, tools, decorators = lib["asynq"], lib["tools"], lib["decorators"]
        kind = self.case["kind"]
        wrap = {"plain": (lambda x: x), "static": staticmethod, "classm": classmethod}[ft]
        opts = {}
        if self.case.get("tcls"):
            # a user task class (public keyword `cls` of asynq()): the calling conventions do not depend on it
            opts["cls"] = self.factories.setdefault("tcls", type("UserTask", (asynq.AsyncTask,), {}))
            if kind == "pure":
                # asynq(pure=True, cls=..., **kwargs): custom keywords are handed to the task class
                class TaggedTask(asynq.AsyncTask):
                    def __init__(self, generator, fn, args, kwargs, tag=None):
                        asynq.AsyncTask.__init__(self, generator, fn, args, kwargs)
                        self.c09_tag = tag
                opts.update(cls=TaggedTask, tag="c09")
        popts = {}
        if self.case.get("kwopt"):
            # seldom used public keywords of asynq() / async_proxy(): an asyncio_fn (used by .asyncio() only: outside
            # asyncio mode it must never run) and allow_sync_call (only read in asyncio mode)
            calls = self.aiofn_calls

            async def asyncio_fn(*args, **kwargs):
                calls.append((args, kwargs))
                raise NeverRaised("asyncio_fn called outside asyncio mode")
            popts = dict(asyncio_fn=asyncio_fn, allow_sync_call=True)
        keyfn = None
        if self.case.get("kg"):
            # a user supplied key function (public keyword of deduplicate / alru_cache) that separates calls as the
            # default one does
            keyfn = lambda args, kwargs: (args, tuple(sorted(kwargs.items())))  # noqa: E731

        def factory(name, make):
            # decoration option `shared`: the SAME decorator-factory object (what `asynq()` / `deduplicate()` / ...
            # return) is applied to every function of the world - own, overriding and twin; a sync_fn belongs to one
            # function, so the pair factories are never shared
            if not self.case.get("shared"):
                return make()
            if name not in self.factories:
                self.factories[name] = make()
            return self.factories[name]

        if kind == "raw":
            return wrap(f)
        if kind == "asynq":
            return factory("asynq", lambda: asynq.asynq(**dict(opts, **popts)))(wrap(f))
        if kind == "pure":
            return factory("pure", lambda: asynq.asynq(pure=True, **opts))(wrap(f))
        if kind == "proxy":
            return factory("proxy", lambda: asynq.async_proxy(**popts))(wrap(f))
        if kind == "proxyPure":
            return factory("proxyPure", lambda: asynq.async_proxy(pure=True))(wrap(f))
        if kind == "pair":
            return asynq.asynq(sync_fn=wrap(sf), **dict(opts, **popts))(wrap(f))
        if kind == "pairProxy":
            return asynq.async_proxy(sync_fn=sf, **popts)(wrap(f))
        inner = factory("inner", lambda: asynq.asynq(**dict(opts, **popts)))(wrap(f))
        if kind == "mad":
            @asynq.asynq(pure=True)
            def wrapper_fn(*args, **kwargs):
                value = yield inner.asynq(*args, **kwargs)
                return Wrapped(value)  # a wrapper that does something: every convention must go through it
            return decorators.make_async_decorator(inner, wrapper_fn, "c09_wrapper")
        if kind == "dedup":
            return factory("dedup", lambda: tools.deduplicate(keygetter=keyfn))(inner)
        if kind == "aretry":
            return factory("aretry", lambda: tools.aretry(NeverRaised, max_tries=2, sleep=0))(inner)
        if kind == "alru":
            return factory("alru", lambda: tools.alru_cache(key_fn=keyfn))(inner)
        if kind == "acpi":
            return factory("acpi", lambda: tools.acached_per_instance())(inner)
        raise ValueError(kind)

    def _ghost_use(self, b, pos, kw, abandon=True):
        """a predecessor is used the ways a callable is used, then one more task is created and never awaited"""
        asynq = self.lib["asynq"]
        self._quiet(lambda: b(*pos, **kw))
        self._quiet(lambda: _asynq_attr(b)(*pos, **kw))
        self._quiet(lambda: asynq.async_call(b, *pos, **kw))
        del self.log[:]   # what a predecessor ran is its own business (and the entries keep the bound receiver alive)
        del self.aiofn_calls[:]
        if not abandon:
            return
        try:
            t = _asynq_attr(b)(*pos, **kw)
        except BaseException as e:  # noqa
            if _fatal(e):
                raise
        else:
            # (a strong reference to the TASK: it keeps the raw function and the arguments alive, never the decorator)
            if isinstance(t, self.lib["FutureBase"]):
                self.abandoned.append(t)
            del self.log[:]

    def _hierarchy(self, lib, twin):
        import gc
        case = self.case
        kind, ft, acc = case["kind"], case["ft"], case["acc"]
        bid, sbid = (3, 4) if twin else (1, 2)
        proxy = kind in ("proxy", "proxyPure", "pairProxy")
        if acc == "direct":
            recv = None
        else:
            recv = {"plain": "self", "static": None, "classm": "cls"}[ft]
        raises = 0 if twin else case["raises"]  # the twin's bodies always return
        pred = None if twin else eff_pred(case)
        gens = int(case.get("gens", 3)) if pred else 0

        def decorated(bid, sbid, raises):
            f = _make_function(self.env, "target", recv, case["sig"], case["body"], raises, bid, proxy)
            sf = _make_function(self.env, "target", recv, case["sig"], "plain", raises, sbid, False)
            return self._decorate(lib, f, sf, ft, "target")

        vpos = [self.vals[n] for n in case["pos"]]
        vkw = {NAMES[n]: self.vals[v] for n, v in case["kw"]}
        if acc == "direct":
            if pred == "fn":
                # earlier functions bound to the same name: used, one task abandoned, then re-defined
                for _ in range(gens):
                    self._ghost_use(decorated(GHOST, GHOST_SYNC, 0), vpos, vkw)
                    gc.collect(1)
            return {"fn": decorated(bid, sbid, raises)}
        mdict, cdict, sdict = {}, {}, {}
        if pred != "fn":
            cdict["target"] = decorated(bid, sbid, raises)
        if case.get("falsy"):
            # receivers that are FALSY: empty-container-like instances, classes whose metaclass says False
            mdict["__bool__"] = lambda cls: False
            cdict["__len__"] = lambda self: 0
        if case.get("vk") == "chash":
            # receivers whose hashes ALL collide (instances and classes); equality stays identity
            for d in (mdict, cdict):
                d["__hash__"] = lambda x: 7
                d["__repr__"] = lambda x: "<receiver>"
                d["__eq__"] = lambda x, y: x is y
                d["__ne__"] = lambda x, y: x is not y
        if case.get("nwr"):
            # instances without __dict__ that cannot be weakly referenced
            cdict["__slots__"] = ()
            sdict["__slots__"] = ()
        meta = type("Meta", (type,), mdict) if mdict else type
        Base = meta("Base", (object,), cdict)
        if case.get("ovr") and not twin:
            # the subclass OVERRIDES the attribute (decorated the same way) and delegates through super()
            holder = []
            self.env["SUBCLS"] = holder
            of = _make_override(self.env, "target", recv, case["sig"], kind, 5, False)
            osf = _make_override(self.env, "target", recv, case["sig"], kind, 6, True)
            sdict["target"] = self._decorate(lib, of, osf, ft, "target")
        Sub = meta("Sub", (Base,), sdict)
        if "target" in sdict:
            holder.append(Sub)

        def through(inst, subinst):
            """(callable, positional arguments) of the observed access path with these instances"""
            b = {"inst": inst, "cls": Base, "subInst": subinst, "subCls": Sub}[acc].target
            pos = list(vpos)
            if ft == "plain" and acc in ("cls", "subCls"):
                pos = [inst if acc == "cls" else subinst] + pos
            return b, pos

        if pred == "inst":
            # earlier instances of the same classes: they used the attribute with the observed argument objects and died
            # (the task that is never awaited keeps its arguments - the instance - alive: only the first generation
            # leaves one behind); every other generation dies as part of a reference CYCLE (freed - and its weakref
            # callbacks run - by the garbage collector, not by the reference count)
            for g in range(gens):
                gi, gs = Base(), Sub()
                b, pos = through(gi, gs)
                self._ghost_use(b, pos, vkw, abandon=(g == 0))
                cyclic = g % 2 == 1 and not case.get("nwr")
                if cyclic:
                    gi.c09_cycle, gs.c09_cycle = gs, gi
                del b, pos, gi, gs
                if cyclic:
                    gc.collect(1)
        h = {"Base": Base, "Sub": Sub, "inst": Base(), "subinst": Sub()}
        if not twin:
            h["inst2"], h["subinst2"] = Base(), Sub()
        if pred == "fn":
            # earlier functions installed under the same name on the same class, used through the observed receiver
            for _ in range(gens):
                Base.target = decorated(GHOST, GHOST_SYNC, 0)
                b, pos = through(h["inst"], h["subinst"])
                self._ghost_use(b, pos, vkw)
                del b, pos
                del Base.target
                gc.collect(1)
            Base.target = decorated(bid, sbid, raises)
        if not twin:
            # earlier look-ups of the same attribute through other access paths (results kept alive, never called)
            for a in case.get("pre", []):
                holder = {"inst": h["inst"], "cls": Base, "subInst": h["subinst"], "subCls": Sub}[a]
                self.keep.append(holder.target)
        return h

    def access(self, twin=False):
        h = self.twin if twin else self.own
        acc = self.case["acc"]
        if acc == "direct":
            return self._fetched(h["fn"])
        holder = {"inst": h["inst"], "cls": h["Base"], "subInst": h["subinst"], "subCls": h["Sub"]}[acc]
        return self._fetched(holder.target)

    def call_args(self, twin=False):
        """the caller's positional and keyword arguments (explicit self for an unbound instance method)"""
        h = self.twin if twin else self.own
        case = self.case
        pos = [self.vals[n] for n in case["pos"]]
        if case["ft"] == "plain" and case["acc"] in ("cls", "subCls"):
            pos = [h["inst"] if case["acc"] == "cls" else h["subinst"]] + pos
        kw = {NAMES[n]: self.vals[v] for n, v in case["kw"]}
        return pos, kw

    def access_sib(self):
        """the same attribute as fetched for the SECOND call (relation recv: through a second instance of the same
        class; a classmethod through the other class of the hierarchy)"""
        if not eff_recv(self.case):
            return self.access()
        h, acc = self.own, self.case["acc"]
        if self.case["ft"] == "plain":
            holder = {"inst": h["inst2"], "cls": h["Base"], "subInst": h["subinst2"], "subCls": h["Sub"]}[acc]
        else:
            holder = {"inst": h["subinst"], "cls": h["Sub"], "subInst": h["inst"], "subCls": h["Base"]}[acc]
        return self._fetched(holder.target)

    def sib_args(self):
        """the caller's arguments of the second call"""
        h, case = self.own, self.case
        if eff_recv(case):
            pos = [self.vals[n] for n in case["pos"]]
            if case["ft"] == "plain" and case["acc"] in ("cls", "subCls"):
                pos = [h["inst2"] if case["acc"] == "cls" else h["subinst2"]] + pos
            kw = {NAMES[n]: self.vals[v] for n, v in case["kw"]}
            return pos, kw
        pos = [self.vals[n + SUBST] for n in case["pos"]]
        if case["ft"] == "plain" and case["acc"] in ("cls", "subCls"):
            pos = [h["inst"] if case["acc"] == "cls" else h["subinst"]] + pos
        kw = {NAMES[n]: self.vals[v + SUBST] for n, v in case["kw"]}
        return pos, kw

    # ---- history of the world -------------------------------------------------------------------------

    def hist_args(self):
        """the caller's arguments of the calls made by history events: THIRD objects, the observed receiver"""
        h, case = self.own, self.case
        pos = [self.vals[n + THIRD] for n in case["pos"]]
        if case["ft"] == "plain" and case["acc"] in ("cls", "subCls"):
            pos = [h["inst"] if case["acc"] == "cls" else h["subinst"]] + pos
        kw = {NAMES[n]: self.vals[v + THIRD] for n, v in case["kw"]}
        return pos, kw

    def _quiet(self, thunk):
        """an earlier call: its outcome is its own business"""
        FutureBase = self.lib["FutureBase"]
        try:
            r = thunk()
            if isinstance(r, FutureBase):
                r = r.value()
            if inspect.isgenerator(r) or inspect.iscoroutine(r):
                r.close()
        except BaseException as e:  # noqa
            if _fatal(e):
                raise

    def _use(self):
        asynq = self.lib["asynq"]
        b = self.access()
        self.keep.append(b)
        if not self.case["pos"] and not self.case["kw"]:
            return   # a call without arguments would BE the observed call (cache hits are C13): look-up only
        pos, kw = self.hist_args()
        self._quiet(lambda: b(*pos, **kw))
        self._quiet(lambda: _asynq_attr(b)(*pos, **kw))
        self._quiet(lambda: asynq.async_call(b, *pos, **kw))

    def event(self, ev):
        """one synchronous history event"""
        import copy
        import gc
        import threading
        lib = self.lib
        asynq, decorators = lib["asynq"], lib["decorators"]
        if ev == "use":
            self._use()
        elif ev == "useThread":
            errs = []

            def run():
                try:
                    self._use()
                except BaseException as e:  # noqa
                    errs.append(e)
            t = threading.Thread(target=run)
            t.start()
            t.join()
            if errs:
                raise errs[0]
        elif ev == "helpers":
            h = self.own
            holders = [h["fn"]] if "fn" in h else [h["inst"].target, h["Base"].target, h["subinst"].target, h["Sub"].target]
            for b in holders:
                for f in (decorators.is_async_fn, decorators.is_pure_async_fn, decorators.has_async_fn,
                          decorators.get_async_fn, decorators.get_async_or_sync_fn,
                          lambda x: decorators.get_async_fn(x, wrap_if_none=True)):
                    try:
                        self.keep.append(f(b))
                    except Exception:  # noqa - judged by the classification of the case itself
                        pass
        elif ev in ("copy", "deepcopy"):
            h = self.own
            fn = copy.copy if ev == "copy" else copy.deepcopy
            for k in ("inst", "subinst", "inst2", "subinst2"):
                if k in h:
                    old = h[k]
                    new = fn(old)
                    t = self.objtok.pop(id(old))
                    self.objtok[id(old)] = t + ORIG
                    self.objtok[id(new)] = t
                    self.keep.append(old)
                    h[k] = new
        elif ev == "gc":
            del self.keep[:]
            gc.collect(1)   # the young generations: finalisers and weakref callbacks of what was just dropped
        elif ev == "dbg":
            options = asynq.debug.options
            names = ["DUMP_NEW_TASKS", "DUMP_SCHEDULE_TASK", "DUMP_CONTINUE_TASK", "DUMP_SCHEDULE_BATCH", "DUMP_FLUSH_BATCH",
                     "DUMP_DEPENDENCIES", "DUMP_COMPUTED", "DUMP_YIELD_RESULTS", "DUMP_QUEUED_RESULTS", "DUMP_CONTEXTS",
                     "DUMP_SYNC", "DUMP_STACK", "DUMP_SYNC_CALLS", "COLLECT_PERF_STATS", "KEEP_DEPENDENCIES"]
            saved = [(n, getattr(options, n)) for n in names]

            def undo():
                for n, v in saved:
                    setattr(options, n, v)
                asynq.profiler.reset()
            self.cleanup.append(undo)
            for n in names:
                setattr(options, n, True)
        elif ev == "scoped":
            ctx = asynq.AsyncScopedValue(0).override(1)
            ctx.__enter__()
            self.cleanup.append(lambda: ctx.__exit__(None, None, None))
        elif ev == "mocked":
            if "Base" in self.own:
                with asynq.mock.patch.object(self.own["Base"], "target") as m:
                    self.keep.append(m)
                    self.keep.append(self.own["Base"].target)
        elif ev == "bcopy":
            self.bcopy = True
        else:
            raise ValueError(ev)

    def _fetched(self, b):
        """event `bcopy`: a shallow copy of the binder / bound method that attribute access returned"""
        if not self.bcopy:
            return b
        import copy
        try:
            c = copy.copy(b)
        except Exception:  # noqa - a decorator object (module function, staticmethod) refuses to be copied
            return b
        self.keep.append(b)
        return c

    async def aio_event(self, ev):
        """`.asyncio()` calls awaited DIRECTLY here: same asyncio task, same context as the observed convention"""
        env = self.env
        if "AIO_OK" not in env:
            # helpers of the .asyncio() events: returning / failing, generator and plain bodies
            env["HELPERERR"] = UserErr("aio helper")
            exec(_compiled("\n".join([
                "@asynq()", "def AIO_LEAF(x):", "    return x",
                "@asynq()", "def AIO_OK(x):", "    y = yield AIO_LEAF.asynq(x)", "    return y",
                "@asynq()", "def AIO_FAIL(x):", "    y = yield AIO_LEAF.asynq(x)", "    raise HELPERERR",
                "@asynq()", "def AIO_FAIL_PLAIN(x):", "    raise HELPERERR",
            ])), env)

        async def quiet(thunk):
            try:
                await thunk()
            except BaseException as e:  # noqa
                if _fatal(e):
                    raise
        if ev == "aioOk":
            await quiet(lambda: env["AIO_OK"].asyncio(1))
            await quiet(lambda: env["AIO_LEAF"].asyncio(1))
        elif ev == "aioFail":
            await quiet(lambda: env["AIO_FAIL"].asyncio(1))
            await quiet(lambda: env["AIO_FAIL_PLAIN"].asyncio(1))
        elif ev == "aioSelf":
            b = self.access()
            if self.case["pos"] or self.case["kw"]:
                pos, kw = self.hist_args()
                await quiet(lambda: b.asyncio(*pos, **kw))
        else:
            raise ValueError(ev)

    def close(self):
        while self.cleanup:
            self.cleanup.pop()()
        if self.abandoned:
            # the abandoned tasks of the predecessors are finished now (nothing of this world stays in the library's
            # tables); what they log is not part of the observation
            n = len(self.log)
            for t in self.abandoned:
                self._quiet(lambda: t)
            del self.abandoned[:]
            del self.log[n:]

    def tok(self, o):
        if o is None:
            return 0
        if isinstance(o, Tok) and isinstance(o.n, tuple) and o.n[0] == "name":
            return {v: k for k, v in NAMES.items()}.get(o.n[1], UNKNOWN)
        return self.objtok.get(id(o), UNKNOWN)

    def entries(self):
        out = []
        for bid, seen, got in self.log:
            out.append("(%d (%s) %d)" % (bid, " ".join(str(self.tok(o)) for o in seen), got))
        return " ".join(out)


class NoAsynq(Exception):
    pass


class Skipped(Exception):
    """the convention is not run on this case"""


class Wrapped(object):
    """what the make_async_decorator wrapper_fn of the harness returns"""
    __slots__ = ("value",)

    def __init__(self, value):
        self.value = value


def _asynq_attr(b):
    try:
        return b.asynq
    except AttributeError:
        raise NoAsynq()


def _classify_exc(e, errs):
    """map an exception to the small vocabulary of outcomes"""
    for i, x in errs.items():
        if e is x:
            return "(raisedUser %d)" % i
    if isinstance(e, NoAsynq):
        return "(raised noAsynq)"
    if isinstance(e, Skipped):
        return "(raised skipped)"
    if isinstance(e, TypeError):
        return "(raised typeError)"
    if isinstance(e, AttributeError):
        return "(raised attrError)"
    return "(raised other %s)" % type(e).__name__


def _fatal(e):
    return isinstance(e, (KeyboardInterrupt, SystemExit, MemoryError)) or type(e).__name__ == "CaseTimeout"


def _in_world(case, lib, with_twin, box, body):
    """a fresh world, the history events of the case, then `body(world)`; the world is left in box["w"]"""
    hist = case.get("hist") or []

    def start():
        box["w"] = World(case, lib, with_twin=with_twin)
        return box["w"]

    try:
        if any(e in AIO_EVS for e in hist):
            import asyncio

            async def main():
                # plain coroutine code, NOT in asyncio mode: the .asyncio() calls are awaited directly and the
                # observed convention runs afterwards in the same asyncio task (same contextvars context)
                w = start()
                for ev in hist:
                    if ev in AIO_EVS:
                        await w.aio_event(ev)
                    else:
                        w.event(ev)
                del w.log[:]
                del w.aiofn_calls[:]   # an asyncio_fn may run during the .asyncio() calls of the history, never later
                return body(w)
            return asyncio.run(main())
        w = start()
        for ev in hist:
            w.event(ev)
        if hist:
            del w.log[:]
            del w.aiofn_calls[:]
        return body(w)
    finally:
        if box["w"] is not None:
            box["w"].close()


def _convention(case, lib, conv):
    """one calling convention on freshly generated classes, after the history events of the case
    -> (log entries, outcome, future flag, bodies entered)"""
    flag = [0]
    box = {"w": None}
    try:
        if case.get("ovr") and conv in INFLIGHT:
            raise Skipped()   # two calls in flight at once under an override: the interleaving is scheduling
        out = _in_world(case, lib, conv == "twin", box, lambda w: _observe(case, lib, conv, w, flag))
    except BaseException as e:  # noqa - whatever the library raises is the outcome of the convention
        if _fatal(e):
            raise
        out = _classify_exc(e, box["w"].err if box["w"] is not None else {})
    w = box["w"]
    entries = w.entries() if w is not None else ""
    entered = 0
    if w is not None and any(any(o is not None for o in seen) for _, seen, _ in w.log):
        entered = 1
    if w is not None and w.aiofn_calls:
        out = "(raised other asyncio_fn-called)"   # a supplied asyncio_fn ran outside asyncio mode
    # whether a binding error surfaces when the future is created or when it first runs is not observed
    return entries, out, (0 if out == "(raised typeError)" else flag[0]), entered


def _observe(case, lib, conv, w, flag):
    """the observed convention itself; returns the outcome, raises what the library raises"""
    asynq, decorators, FutureBase = lib["asynq"], lib["decorators"], lib["FutureBase"]
    if True:
        b = w.access()
        pos, kw = w.call_args()

        def value_of(r):
            if isinstance(r, FutureBase):
                flag[0] = 1
                return r.value()
            return r

        if conv == "sync":
            r = value_of(b(*pos, **kw))
        elif conv == "asynqValue":
            r = _asynq_attr(b)(*pos, **kw).value()
        elif conv == "yieldAsynq":
            @asynq.asynq()
            def outer():
                return (yield _asynq_attr(b)(*pos, **kw))
            r = outer()
        elif conv == "nestedSync":
            @asynq.asynq()
            def outer():
                x = b(*pos, **kw)
                if isinstance(x, FutureBase):
                    flag[0] = 1
                    x = yield x
                return x
            r = outer()
        elif conv == "asyncCall":
            @asynq.asynq()
            def outer():
                return (yield asynq.async_call.asynq(b, *pos, **kw))
            r = outer()
        elif conv == "asyncCallSync":
            r = asynq.async_call(b, *pos, **kw)
        elif conv == "getAsyncFn":
            g = decorators.get_async_fn(b)
            if g is None:
                raise NoAsynq()
            r = g(*pos, **kw).value()
        elif conv == "getAsyncOrSync":
            r = value_of(decorators.get_async_or_sync_fn(b)(*pos, **kw))
        elif conv == "getAsyncFnWrap":
            r = decorators.get_async_fn(b, wrap_if_none=True)(*pos, **kw).value()
        elif conv == "twin":
            tb = w.access(twin=True)
            tpos, tkw = w.call_args(twin=True)

            @asynq.asynq()
            def outer():
                t1 = _asynq_attr(tb)(*tpos, **tkw)
                t2 = _asynq_attr(b)(*pos, **kw)
                both = yield [t1, t2]
                return both[1]
            r = outer()
        elif conv in SIBCONVS:
            if identical_second(case):
                raise Skipped()
            sb = w.access_sib()
            spos, skw = w.sib_args()

            def deferred(thunk):
                # both calls are MADE, one after the other; an exception raised while a future is being created
                # (a missing attribute, arguments that do not bind a generator function, an undecorated function
                # that async_call runs on the spot) is delivered where the future is awaited
                try:
                    return thunk()
                except BaseException as e:  # noqa
                    if _fatal(e):
                        raise
                    return asynq.ErrorFuture(e)

            if conv == "sibling":
                @asynq.asynq()
                def outer():
                    t1 = deferred(lambda: _asynq_attr(sb)(*spos, **skw))
                    t2 = deferred(lambda: _asynq_attr(b)(*pos, **kw))
                    both = yield [t1, t2]
                    return both[1]
                r = outer()
            elif conv == "siblingCall":
                @asynq.asynq()
                def outer():
                    t1 = deferred(lambda: asynq.async_call.asynq(sb, *spos, **skw))
                    t2 = deferred(lambda: asynq.async_call.asynq(b, *pos, **kw))
                    both = yield [t1, t2]
                    return both[1]
                r = outer()
            else:
                try:
                    _asynq_attr(sb)(*spos, **skw).value()
                except BaseException as e:  # noqa - the first call's outcome is its own business
                    if _fatal(e):
                        raise
                r = _asynq_attr(b)(*pos, **kw).value()
        else:
            raise ValueError(conv)
        wrapped = 0
        if isinstance(r, Wrapped):
            wrapped, r = 1, r.value
            if case.get("ovr") and isinstance(r, Wrapped):
                r = r.value   # the overriding attribute's wrapper_fn wrapped what the inherited one's had wrapped
        out = "(gotFuture)" if isinstance(r, FutureBase) else "(ok %d %d)" % (UNKNOWN, wrapped)
        if inspect.isgenerator(r):
            out = "(gotGenerator)"   # an unstarted generator object came back (an undecorated generator function)
            r.close()
        for i, x in w.ret.items():
            if r is x:
                out = "(ok %d %d)" % (i, wrapped)
        return out


def _classification(case, lib):
    """the five helpers + the receiver bound by attribute access, on one more fresh set of classes"""
    return _in_world(case, lib, False, {"w": None}, lambda w: _classify_in(w, lib))


def _classify_in(w, lib):
    import types
    decorators = lib["decorators"]
    b = w.access()

    def safe(f):
        try:
            return f()
        except Exception as e:  # noqa
            return e

    ia = safe(lambda: decorators.is_async_fn(b))
    ip = safe(lambda: decorators.is_pure_async_fn(b))
    ha = safe(lambda: decorators.has_async_fn(b))
    g = safe(lambda: decorators.get_async_fn(b))
    gs = safe(lambda: decorators.get_async_or_sync_fn(b))
    attr = getattr(b, "asynq", None)

    def conv_kind(x):
        if x is None:
            return "none"
        if x is b:
            return "self"
        if attr is not None and not isinstance(x, Exception) and x == attr:
            return "attr"
        return "other"

    def boolean(x):
        # callers test the answer for truth; an exception out of a helper is not an answer
        return "other" if isinstance(x, Exception) else ("1" if x else "0")

    lines = ["(cls %s %s %s %s %s)" % (boolean(ia), boolean(ip), boolean(ha), conv_kind(g), conv_kind(gs))]
    # the receiver bound by attribute access: `.instance` of a binder, `__self__` of a bound method, else none
    if isinstance(b, types.MethodType):
        lines.append("(get %d)" % w.tok(b.__self__))
    elif hasattr(b, "is_decorator") and hasattr(b, "decorator"):
        lines.append("(get %d)" % w.tok(b.instance))
    else:
        lines.append("(get 0)")
    return lines


def run_case(case):
    import asynq
    from asynq import decorators, tools
    from asynq.batching import DebugBatchItem
    from asynq.futures import FutureBase

    lib = {"asynq": asynq, "decorators": decorators, "tools": tools, "DebugBatchItem": DebugBatchItem,
           "FutureBase": FutureBase}
    lines = ["(case %s %d %s %s %s %s %d %s (%s) (%s) %d (%s) %s %s (%s) %d)" % (
        "decoratorsNwr" if nwr_refused(case) else "decorators", case["id"], case["kind"], case["ft"], case["acc"], case["body"], case["raises"], case["sig"],
        " ".join(str(x) for x in case["pos"]), " ".join("(%d %d)" % (n, v) for n, v in case["kw"]),
        1 if case.get("falsy") else 0, " ".join(case.get("pre", [])), case.get("rel", "args"), case.get("vk", "tok"),
        " ".join(case.get("hist") or []), 1 if case.get("ovr") else 0)]
    entered = 0
    for conv in CONVS:
        entries, out, flag, ent = _convention(case, lib, conv)
        lines.append("(obs %s (%s) %s %d)" % (conv, entries, out, flag))
        entered += ent
    try:
        lines += _classification(case, lib)
    except Exception as e:  # noqa - e.g. the decorator factory itself raises
        lines.append("(cls other other other other other)")
        lines.append("(get %d)" % UNKNOWN)
    lines.append("(end)")
    feats = ["kind=" + case["kind"], "bind=%s/%s" % (case["ft"], case["acc"]), "body=" + case["body"],
             "raises=%d" % case["raises"], "sig=" + case["sig"], "npos=%d" % min(len(case["pos"]), 4),
             "nkw=%d" % min(len(case["kw"]), 4), "falsy=%d" % (1 if case.get("falsy") else 0),
             "prior-accesses=%d" % len(case.get("pre", [])),
             "second-call=%s" % ("skipped" if identical_second(case) else "other-receiver" if eff_recv(case) else "other-values"),
             "values=" + case.get("vk", "tok"), "error-class=" + case.get("ek", "exc"),
             "user-task-cls=%d" % (1 if case.get("tcls") else 0), "user-key-fn=%d" % (1 if case.get("kg") else 0),
             "history=%s" % ("+".join(case.get("hist") or []) or "none"), "override=%d" % (1 if case.get("ovr") else 0),
             "shared-factory=%d" % (1 if case.get("shared") else 0), "asyncio_fn+allow_sync_call=%d" % (1 if case.get("kwopt") else 0),
             "predecessors=%s" % ("%s*%d" % (eff_pred(case), min(int(case.get("gens", 3)), 8)) if case.get("pred") else "none"),
             "slots-instances=%d" % (1 if case.get("nwr") else 0)]
    nontrivial = None
    if entered >= 2:
        nontrivial = hashlib.sha1(json.dumps({k: v for k, v in case.items() if k != "id"}, sort_keys=True).encode()).hexdigest()[:16]
    return {"lines": lines, "features": feats, "nontrivial": nontrivial}


if __name__ == "__main__":
    import sys
    c = dict(kind=sys.argv[1], ft=sys.argv[2], acc=sys.argv[3], body=sys.argv[4], raises=int(sys.argv[5]), sig=sys.argv[6],
             pos=json.loads(sys.argv[7]), kw=json.loads(sys.argv[8]), id=0)
    print("\n".join(run_case(c)["lines"]))
