"""C19  asynq.mock.patch replaces every calling convention and always restores.

Patch histories (construct / with-block / decorator / start / stop / stopall, nested and sequential, exits by
exception) on a fresh module + class + instance, run on the real asynq.mock.patch / patch.object; after every
operation the harness records the result and the identity of what every patched host holds, and for `call`
operations what each of the four calling conventions returned and which replacement ran with which arguments.
The Lean model (AsynqModel.Lib.Mock) replays the same history (correspondence) and the Lean observer
`Mock.spec` (the statement of C19, proved of the model for all histories) judges the implementation's
observations on their own.

Round 3 dimensions (all part of the model and of what the theorems quantify over): the KIND of object a replacement
returns / raises (tokens by identity: a future handed back must come back as that very future under every
convention), and RE-BINDING of the owner named in the dotted path (`rebind`: a string patcher acts on what its name
refers to at each `__enter__`, a patch.object patcher on the object given at construction).  Harness-level
realisations of existing model notions: exotic argument objects, long argument lists, class decoration as a block
style, BaseException-only block exits, more replacement variants, deep nesting.

After the independent audit (AUDIT-lib.md): the observer checks WHICH object every successful `__enter__` / `start()`
installs, for every replacement kind (`Mock.expectedTok`: a new mock / factory product per entry, the pair, the
Wrapper, the caller's own object); `@asynq()` functions / classmethods / staticmethods are a replacement kind of their
own (`Repl.asyncFn`: installed as they are, but they bind like the function they wrap); the signature defaults of the
model (`Defaults.current`) are the ones of the tree (autospec=None); family `enterfail` is judged by a protocol model
per activation style (`Mock.EnterFail.run`).

After the second audit (AUDIT2-lib.md, N2): replacements can be SENSITIVE TO ASYNCIO MODE (behaviour `sync` = a fake that
makes an ordinary synchronous call of another @asynq() function; `Behav.syncCall`; family `modes` and ~8% of the patchers
of random histories).  Before /repo fix 45a545c the `.asyncio` of an `asynq(sync_fn=new)(new)` pair reached through a class /
an instance ran `new` inside asyncio mode, the other three conventions did not (finding
`fail:asyncio-mode-reaches-replacement/through-class@call`, FIXED).  The model has `conv` as the repaired code is: no spec is
mode-exposed any more, the hypothesis `hm` of the `_partial` theorems is discharged for every history (`C19_spec_holds`,
`C19_conventions_agree`), and `C19_asyncio_mode_repaired` shows the history of the former finding accepted.  The observer
now also demands of EVERY observation, tainted history or not, a well-formed result (four outcomes per call, one store entry
per target) and that construct / call / peek / rebind change no host (`shape@`, `frame@`).

Round 5 (interactions): keyword arguments are passed under realistic NAMES (`fn=`, `args=`, `mock_fn=`, `cls=` ...;
KW_NAMES: a key of the model >= KWN_BASE is realised as that identifier) - family `kwnames` (every name x replacement kind)
and a quarter of the random histories; callables (a callback, an @asynq() function, a mock) among the argument objects;
family `enterfail` got the CLASS of the exception the product's `__setattr__` raises (`EnterFail.ExcClass`; the class is
inert in the model, so `C19_enter_failure_restores_any_exception` / `C19_enter_failure_catch_all_necessary` hold by
construction - the claim "every class is caught" rests on this harness family run on the real code), the assignment that fails (`asynq`
/ `async` / `asyncio`), a DEFAULT mock made attribute-rejecting by `spec_set=`, the activation inside an open patch of
the same target and a second use of the failing patcher."""
import hashlib
import json
import random

PID = "C19"
LEVEL = "proof"
LEAN_MODULES = ["AsynqModel.Theorems.C19", "AsynqModel.Theorems.C19b"]
# Theorems with content of their own (what level_claimed.text in MANIFEST.json rests on) ...
HEADLINE_THEOREMS = [
    "AsynqModel.Mock.C19_restore",
    "AsynqModel.Mock.C19_store_tracks_innermost",
    "AsynqModel.Mock.C19_block_restores",
    "AsynqModel.Mock.C19_block_restores_balance_necessary",
    "AsynqModel.Mock.C19_block_restores_skip_necessary",
    "AsynqModel.Mock.C19_block_restores_across_rebind",
    "AsynqModel.Mock.C19_restore_nested_blocks",
    "AsynqModel.Mock.C19_restore_stopall",
    "AsynqModel.Mock.C19_nested_blocks_nodup_necessary",
    "AsynqModel.Mock.C19_stopall_nodup_necessary",
    "AsynqModel.Mock.C19_conventions_agree_partial",
    "AsynqModel.Mock.C19_conventions_agree",
    "AsynqModel.Mock.C19_conventions_agree_fake",
    "AsynqModel.Mock.C19_asynq_function_replacement",
    "AsynqModel.Mock.C19_installed_object",
    "AsynqModel.Mock.C19_spec_holds_partial",
    "AsynqModel.Mock.C19_spec_holds_current_partial",
    "AsynqModel.Mock.C19_spec_holds_module_level",
    "AsynqModel.Mock.C19_spec_holds_mode_insensitive",
    "AsynqModel.Mock.C19_spec_holds",
    # Theorems/C19b.lean: an accepted history of any length and origin is accepted at EVERY position (watchStep from
    # the watch state of the predecessors, shape clause, frame clause of read-only operations); prefix-closed
    "AsynqModel.Mock.C19_spec_every_step",
    "AsynqModel.Mock.C19_spec_prefix",
    "AsynqModel.Mock.C19_asyncio_mode_repaired",
    "AsynqModel.Mock.C19_new_callable_asynq16_counterexample",
    "AsynqModel.Mock.EnterFail.C19_enter_failure_restores",
    "AsynqModel.Mock.EnterFail.C19_enter_failure_needs_undo",
]
# ... and statements that HOLD BY CONSTRUCTION OF THE MODEL (one unfolding of `step` / `enter` / `resolveP` from an
# arbitrary state, or a corollary of C19_conventions_agree_partial; the model has no way to say anything else: objects are
# immutable values, result kinds are never inspected, `exit` echoes its flag, `resolveP` is DEFINED as "string -> the
# current binding, object -> unchanged", `EnterFail.run` does not look at the style for its outcome).  They are kept as
# readable lemmas and audited like the others, but they are NOT evidence for the property: for these facts the content is
# the correspondence run (families `product`, `kinds`, `rebind`, `shared`, `enterfail`, exits by exception).
BY_CONSTRUCTION_THEOREMS = [
    "AsynqModel.Mock.C19_exception_propagates",
    "AsynqModel.Mock.C19_result_object_untouched",
    "AsynqModel.Mock.C19_rebind_touches_no_host",
    "AsynqModel.Mock.C19_shared_replacement_same_object",
    "AsynqModel.Mock.C19_enter_installs",
    "AsynqModel.Mock.C19_noncallable_as_is",
    "AsynqModel.Mock.C19_noncallable_as_is_own",
    "AsynqModel.Mock.C19_path_resolved_at_every_enter",
    "AsynqModel.Mock.C19_path_resolved_at_every_start",
    "AsynqModel.Mock.C19_object_target_fixed",
    "AsynqModel.Mock.C19_calls_through_name_reach_replacement",
    "AsynqModel.Mock.EnterFail.C19_enter_undo_only_matters_on_failure",
    "AsynqModel.Mock.EnterFail.C19_enter_failure_style_irrelevant",
    # third audit, section C: the exception class `exc` is inert in the model (`runWith catchAll p e s = runCurrent p s` by
    # rfl; `runWith catches .rejecting e s` depends on `catches e` only): both are C19_enter_failure_restores /
    # C19_enter_failure_needs_undo re-stated.  The real content - the except clause of mock_.py catches every class the
    # product's __setattr__ raises - is the harness family `enterfail` (7 exception classes on the real _PatchAsync)
    "AsynqModel.Mock.EnterFail.C19_enter_failure_restores_any_exception",
    "AsynqModel.Mock.EnterFail.C19_enter_failure_catch_all_necessary",
]
HEADLINE = HEADLINE_THEOREMS
BY_CONSTRUCTION = BY_CONSTRUCTION_THEOREMS
THEOREMS = HEADLINE_THEOREMS + BY_CONSTRUCTION_THEOREMS
BUILDS = {"quick": ["py"], "thorough": ["py", "cy"]}
EXHAUSTIVE = {"quick": False, "thorough": True}
CASE_TIMEOUT = 20
RULE_OLD = ("exhaustive product target configuration (module function; method via instance / via class / patched on the "
        "instance; classmethod and staticmethod via class / via instance; plain attribute on module / class; absent "
        "attribute with and without create) x replacement kind (DEFAULT, function, classmethod object, staticmethod "
        "object, bound method, callable object, __slots__ callable, callable whose __setattr__ raises TypeError, "
        "non-callable object, non-callable int, new_callable callable / non-callable with autospec=None, new_callable "
        "with the signature's own default autospec, @asynq() function / classmethod / staticmethod with a plain or a "
        "generator body) x activation+exit (with normal / by exception, decorator normal / by exception, "
        "start+stop, start+stopall, start+stop+stop) x replacement returns / raises, each cell with patch() AND "
        "patch.object() in the thorough tier and with ONE of the two (alternating) in the quick tier; "
        "exhaustive pairs of replacement kinds nested on one target in 6 nesting shapes; random histories over 1-3 "
        "targets and 1-6 patchers (nested / sequential / interleaved blocks, start/stop/stopall, calls with args and "
        "kwargs, ~12% deliberately ill-nested or misused). non-trivial = a history with at least one successful "
        "activation and a call observed inside it or two patches of one target open at once; distinct by case hash")
RULE = RULE_OLD + (
    "; ROUND 3: result/exception KINDS of the replacement (None, falsy, ConstFuture / lazy Future / ErrorFuture / AsyncTask "
    "handles, exception instance as value, object with raising __eq__/__bool__/__repr__, container subclass; "
    "BaseException-only, falsy, KeyError-subclass errors) x replacement kind x access path (family `kinds`, identity of "
    "what each convention returns); exotic ARGUMENT objects (None, False, falsy, futures, raising __eq__) and long "
    "argument lists (family `sizes`, up to 40 positional + 20 keyword arguments); REBINDING of the owner named in the "
    "dotted path between construction / first use / second use / inside an open block (family `rebind`: 7 owner "
    "pairs x 4 scenarios x 8 activation styles x 6 replacement kinds, with patch() and patch.object() each in the "
    "thorough tier and one of them per cell in the quick tier, plus alternates and "
    "rebind operations in ~25% of the random histories); class decoration (`classdeco`, goes through "
    "_PatchAsync.copy) as a third block style; blocks left by a BaseException-only error; replacement variants "
    "lambda / functools.partial / class object / falsy callable / callable with raising __eq__ / None / falsy value; "
    "falsy original attribute; family `deep`: 3..24 patches of ONE target open at once in mixed styles; family "
    "`shared`: one replacement object given to two patchers; family `enterfail`: new_callable products that take / "
    "reject attributes x 5 activation styles (judged by Mock.EnterFail)"
    "; SECOND AUDIT: family `modes`: a replacement that makes an ordinary synchronous call of another @asynq() function "
    "(sensitive to asyncio mode) x 11 target configurations x 26 replacement configurations x 3 activations (quick; 10 in "
    "thorough), and the same behaviour for ~8% of the patchers of the random histories"
    "; ROUND 5: keyword arguments under 64 realistic NAMES (fn, func, args, kwargs, mock_fn, cls, new, target, async, ...; "
    "a key of the model >= 1000 is realised as that identifier): family `kwnames` = every name x 16 replacement "
    "configurations (x 6 access paths in the thorough tier, one per cell in the quick tier), each with the name alone, "
    "next to positional / exotic arguments and among two other names, and ~25% of the random histories; callables "
    "(callback, @asynq() function, MagicMock) among the exotic argument objects; family `enterfail` widened to 4 targets "
    "x (4 old products + 6 exception classes raised by the product's __setattr__ [AttributeError subclass, ValueError, "
    "KeyError subclass, RuntimeError, falsy exception, BaseException-only] x 3 failing assignments [asynq / async / "
    "asyncio] + DEFAULT mock with spec_set= a callable class / an @asynq() function) x 5 activation styles, alone / inside "
    "an open patch of the same target, first / second use of the patcher (all four combinations in the thorough tier, one "
    "per cell in the quick tier)")
TRUSTED = [
    "hand-written Lean model AsynqModel.Lib.Mock tied to the code by this differential run only",
    "Python harness checks/c19.py (object <-> token identity registry, vars(host) peeks, recursive-descent "
    "realisation of with-blocks / decorators from the flat operation list)",
    "unittest.mock._patch (modelled by contract: __init__ checks, get_original, __enter__, __exit__, start, stop, "
    "stopall), CPython descriptor protocol / `with` semantics, asynq.decorators for `asynq(sync_fn=new)(new)`",
]
ASSUMPTIONS = [
    "FORMER FINDING (fixed by /repo 45a545c), inside the statement: a replacement "
    "whose behaviour depends on asyncio mode - modelled and generated: a fake that makes an ordinary synchronous call of "
    "another @asynq() function - given as a plain function / classmethod / staticmethod object and reached through a "
    "class or an instance got RuntimeError from .asyncio() alone.  On the repaired tree no spec is mode-exposed: the hypothesis "
    "`hm` of C19_conventions_agree_partial / C19_spec_holds_partial / C19_spec_holds_current_partial is discharged for every "
    "history by C19_conventions_agree / C19_spec_holds; C19_asyncio_mode_repaired replays the former counterexample; a "
    "regression is a CORR difference plus the observer's clause asyncio-mode-reaches-replacement.  Other ways of being mode-sensitive "
    "(reading is_asyncio_mode() directly, awaiting) are the same code path and are not generated separately",
    "a replacement that IS some target's original (`patch('m.f', m.f)`, or `new` = another target's original) is not "
    "generated and not modelled (model objects are immutable values): the code restores the host by identity, but "
    "`__enter__` has put `_AsynqWrapper` / `_AsyncioWrapper` attributes on that original for good (afterwards "
    "`orig.asynq(...)` runs eagerly and returns a ConstFuture).  'The original object is back in place' is claimed, "
    "checked and proved for WHICH object the host holds, not for the attributes of that object",
    "the replacement object itself is the caller's: `_PatchAsync.__enter__` leaves `.asynq` / `.async` / `.asyncio` "
    "attributes on a callable object / `@asynq()` function given as `new` and `__exit__` does not remove them (on an "
    "`@asynq()` function the instance attribute shadows its own `.asynq` method for good: afterwards `fn.asynq(...)` "
    "runs the function eagerly and returns a ConstFuture).  C19 as stated speaks about the patched TARGET (original "
    "back in place) and about results while the patch is active, both of which hold; what remains on the "
    "replacement after the patch has ended is outside the statement and is neither modelled nor checked",
    "replacement functions are ordinary (non-generator) callables that do not return generator objects or "
    "mock.DEFAULT; spec/autospec=True/kwargs of patch are not exercised, spec_set only as a way to make the DEFAULT mock "
    "reject attributes (family enterfail); keyword argument names are never "
    "`self` (CPython: `__call__(self, *args, **kwargs)` of every wrapper, also of asynq's own decorators, rejects it); "
    "the names that ARE used (KW_NAMES) are a finite list of identifiers a helper of the library could plausibly use for "
    "a parameter of its own - a collision with a name outside the list is not seen",
    "exceptions whose __repr__/__eq__ raise are not used as errors of a replacement (asyncio.run itself fails on "
    "them in the standard library); they are used as RESULT objects and ARGUMENTS",
    "rebinding is done by the test itself (`setattr(pkg, 'Owner', other)`); only the owner directly before the "
    "attribute in the dotted path is rebound",
    "well-nestedness (per target LIFO, no re-entering an open patcher) is the hypothesis of the restore clause; "
    "ill-nested histories are still run and compared with the model (CORR), but after the FIRST ill-nested operation "
    "(duplicate enter / start of an open patcher, ending a patch that is not the innermost of its target, ending a "
    "started patch as a block, stopall over a non-LIFO list) the observer `spec` judges - for ALL targets and the rest of "
    "the history - only shape (kind of result per operation, four outcomes per call, one store entry per target) and "
    "frame (construct / call / peek / rebind change no host); which object such a history leaves where is "
    "unittest.mock's business.  Calls on unpatched targets and on replacements that are not callable where they were "
    "put are judged for shape only",
    "single thread; patch.dict / patch.multiple are unittest.mock's own and out of scope; class decoration is exercised "
    "for well-nested histories only (a copy of the patcher has its own state, the model identifies it with the patcher)",
]

UNKNOWN = 999999
INST_TOK = 900001
CLS_TOK = 900002
NONE_TOK = 900003          # the result token of every replacement that returns None (one object, one token)
ARG_BASE = 800000          # argument tokens ARG_BASE+i stand for the exotic argument objects of the world (see run_case)
N_ARGOBJ = 13
# ROUND 5: keyword argument NAMES.  A keyword key k < KWN_BASE is passed as `k<k>`; key KWN_BASE+i is passed under the
# realistic identifier KW_NAMES[i] - names a helper inside the library could use for a parameter of its own, so that a
# caller's `**kwargs` sharing a namespace with it (`helper(fn, *args, **kwargs)`) shows.  The model has keys as numbers
# and quantifies over all of them; the name is the harness-level realisation of the key.  `self` is excluded (see
# ASSUMPTIONS), `_c` / `_b` are keyword-only parameters of the harness's own original functions.
KWN_BASE = 1000
KW_NAMES = ["fn", "func", "f", "function", "callback", "mock_fn", "_mock_fn", "mock", "new", "target", "args", "kwargs",
            "a", "k", "kw", "cls", "instance", "owner", "obj", "wrapper", "wrapped", "async_fn", "asyncio_fn", "sync_fn",
            "task", "value", "result", "future", "name", "attr", "attribute", "getter", "spec", "create", "autospec",
            "new_callable", "return_value", "side_effect", "pure", "coro", "loop", "_args", "_kwargs", "generator",
            "send", "exception", "exc", "attempts", "key", "default", "timeout", "callable", "method", "this",
            "mock_self", "_mock_self", "parent", "_new_name", "async", "asynq", "asyncio", "lambda_", "it", "x"]


def kw_name(k):
    return KW_NAMES[k - KWN_BASE] if KWN_BASE <= k < KWN_BASE + len(KW_NAMES) else "k%d" % k


_KW_NUM = {n: KWN_BASE + i for i, n in enumerate(KW_NAMES)}


def kw_num(name):
    if name in _KW_NUM:
        return _KW_NUM[name]
    return int(name[1:]) if name[:1] == "k" and name[1:].isdigit() else UNKNOWN

RKINDS = ["plain", "none", "falsy", "constFuture", "lazyFuture", "errorFuture", "task", "excInstance", "exotic",
          "container"]
EKINDS = ["exception", "baseOnly", "falsy", "builtinSub"]

# (kind, where, host, via)
TARGET_CONFIGS = [
    ("func", "module", "loc", "plain"),       # module function
    ("func", "class", "loc", "inst"),         # method reached through an instance
    ("func", "class", "loc", "cls"),          # method reached through the class
    ("func", "instance", "inherited", "plain"),  # method patched on one instance (patch.object(obj, ...))
    ("cm", "class", "loc", "cls"),
    ("cm", "class", "loc", "inst"),
    ("sm", "class", "loc", "cls"),
    ("sm", "class", "loc", "inst"),
    ("attr", "module", "loc", "plain"),
    ("attr", "class", "loc", "inst"),
    ("attr", "module", "absent", "plain"),
]
# (repl, variant, autospecNone)
REPL_CONFIGS = [
    ("default", "", 0), ("func", "", 0), ("cmobj", "", 0), ("smobj", "", 0), ("bound", "", 0), ("callobj", "", 0),
    ("sealed", "slots", 0), ("sealed", "typeerr", 0), ("value", "plain", 0), ("value", "int", 0),
    (["newCallable", 1], "", 1), (["newCallable", 0], "", 1), (["newCallable", 1], "", 0), ("default", "", 1),
    # round 3: unusual objects of the same kinds
    ("func", "lambda", 0), ("callobj", "partial", 0), ("callobj", "class", 0), ("callobj", "falsy", 0),
    ("callobj", "eqraise", 0), ("value", "none", 0), ("value", "falsy", 0),
    # an `@asynq()` function / `@asynq()` classmethod / staticmethod as the replacement (plain body, or a generator
    # body that yields another async call first)
    ("afunc", "", 0), ("afunc", "gen", 0), ("acm", "", 0), ("acm", "gen", 0), ("asm", "", 0),
]
ASYNC_REPLS = {"afunc": "func", "acm": "cm", "asm": "sm"}
CORE_REPLS = [("default", "", 0), ("func", "", 0), ("cmobj", "", 0), ("smobj", "", 0), ("bound", "", 0),
              ("callobj", "", 0), ("sealed", "slots", 0), ("value", "plain", 0), (["newCallable", 1], "", 1),
              ("afunc", "", 0)]
ACTIVATIONS = ["with", "with-exc", "deco", "deco-exc", "start-stop", "start-stopall", "start-stop-stop"]
ACTIVATIONS3 = ACTIVATIONS + ["classdeco", "classdeco-exc", "with-base"]


def tgt(cfg, slot=None, ovar=None):
    d = {"kind": cfg[0], "where": cfg[1], "host": cfg[2], "via": cfg[3]}
    if slot is not None:
        d["slot"] = slot        # an ALTERNATE owner for the name of target `slot` (same attribute name, other host)
    if ovar:
        d["ovar"] = ovar        # variant of the original value of a plain attribute ("falsy")
    return d


def retarget_cfg(ts, cfg):
    """the target description `ts` with another configuration, keeping its role (alternate of a slot)"""
    d = tgt(cfg, ts.get("slot"))
    return d


def construct(p, t, rc, create, behav, api, share=None):
    """share=q: the `new` argument of p is the very object patcher q was given (same kind, variant, behaviour)"""
    op = ["construct", p, t, rc[0], 1 if create else 0, rc[2], behav, api, rc[1]]
    return op if share is None else op + [share]


def share_of(op):
    return op[9] if op[0] == "construct" and len(op) > 9 else None


def activation_ops(p, act, inner):
    """the operations that activate patcher p around `inner` in the given style"""
    if act in ("with", "with-exc"):
        return [["enter", p, "with"]] + inner + [["exit", p, 1 if act.endswith("exc") else 0]]
    if act == "with-base":
        return [["enter", p, "with"]] + inner + [["exit", p, 2]]      # left by a BaseException-only error
    if act in ("classdeco", "classdeco-exc"):
        return [["enter", p, "classdeco"]] + inner + [["exit", p, 1 if act.endswith("exc") else 0]]
    if act in ("deco", "deco-exc"):
        return [["enter", p, "deco"]] + inner + [["exit", p, 1 if act.endswith("exc") else 0]]
    if act == "start-stop":
        return [["start", p]] + inner + [["stop", p]]
    if act == "start-stopall":
        return [["start", p]] + inner + [["stopall"]]
    if act == "start-stop-stop":
        return [["start", p]] + inner + [["stop", p], ["stop", p]]
    raise ValueError(act)


def product_cases(tier):
    cases = []
    n = 0
    for tc in TARGET_CONFIGS:
        for rc in REPL_CONFIGS:
            for act in ACTIVATIONS:
                for bi, behav in enumerate((["ret", 11], ["raise", 2])):
                    n += 1
                    apis = ["patch", "object"] if tier == "thorough" else [["patch", "object"][n % 2]]
                    creates = [True, False] if tc[2] == "absent" else [False]
                    for api in apis:
                        for create in creates:
                            inner = [["call", 0, [1, 2], []], ["call", 0, [3], [[0, 4], [1, 5]]]]
                            ops = [construct(0, 0, rc, create, behav, api), ["peek"]]
                            ops += activation_ops(0, act, inner) + [["call", 0, [6], []]]
                            cases.append({"targets": [tgt(tc)], "ops": ops, "family": "product"})
    return cases


NEST_SHAPES = ["with/with", "with/start", "start/start-stopall", "start/start-lifo", "seq", "deco/with-exc"]


def nested_cases():
    cases = []
    i = 0
    for tc in (TARGET_CONFIGS[0], TARGET_CONFIGS[1], TARGET_CONFIGS[3]):
        for ra in CORE_REPLS:
            for rb in CORE_REPLS:
                for shape in NEST_SHAPES:
                    i += 1
                    call = [["call", 0, [i % 7], [[0, 1]] if i % 2 else []]]
                    pre = [construct(0, 0, ra, False, ["ret", 21], "patch"),
                           construct(1, 0, rb, False, ["ret", 22] if i % 3 else ["raise", 1], "object")]
                    if shape == "with/with":
                        body = activation_ops(0, "with", call + activation_ops(1, "with-exc" if i % 2 else "with", call) + call)
                    elif shape == "with/start":
                        body = activation_ops(0, "with", activation_ops(1, "start-stop", call) + call)
                    elif shape == "start/start-stopall":
                        body = [["start", 0]] + call + [["start", 1]] + call + [["stopall"]]
                    elif shape == "start/start-lifo":
                        body = [["start", 0], ["start", 1]] + call + [["stop", 1]] + call + [["stop", 0]]
                    elif shape == "seq":
                        body = activation_ops(0, "with", call) + activation_ops(1, "deco", call) + activation_ops(0, "start-stopall", call)
                    else:
                        body = activation_ops(0, "deco", call + activation_ops(1, "with-exc", call) + call)
                    cases.append({"targets": [tgt(tc)], "ops": pre + body + call, "family": "nested"})
    return cases


def behav_of(kind, n, raises=False):
    """a behaviour of the given result / exception kind with token n"""
    if not raises:
        if kind == "plain":
            return ["ret", n]
        return ["ret", NONE_TOK if kind == "none" else n, kind]
    return ["raise", n % 8] if kind == "exception" else ["raise", n % 8, kind]


KIND_TARGETS = [TARGET_CONFIGS[0], TARGET_CONFIGS[1], TARGET_CONFIGS[2], TARGET_CONFIGS[3], TARGET_CONFIGS[4],
                TARGET_CONFIGS[7]]
KIND_REPLS = [("default", "", 0), ("func", "", 0), ("cmobj", "", 0), ("bound", "", 0), ("callobj", "", 0),
              ("sealed", "slots", 0), (["newCallable", 1], "", 1), ("callobj", "class", 0), ("afunc", "", 0),
              ("acm", "gen", 0)]


def kinds_cases(tier):
    """every kind of result object / exception x replacement kind x access path: each convention must hand back
    that very object (or raise that very exception)"""
    cases = []
    n = 0
    for kind, raises in [(k, False) for k in RKINDS[1:]] + [(k, True) for k in EKINDS[1:]]:
        for tc in KIND_TARGETS:
            for rc in KIND_REPLS:
                n += 1
                api = ["patch", "object"][n % 2]
                act = ACTIVATIONS3[n % len(ACTIVATIONS3)] if tier == "thorough" else ["with", "deco", "start-stop"][n % 3]
                inner = [["call", 0, [1, ARG_BASE + n % N_ARGOBJ], [[0, 4]]], ["call", 0, [], []]]
                ops = [construct(0, 0, rc, False, behav_of(kind, 30 + n % 50, raises), api)]
                ops += activation_ops(0, act, inner) + [["call", 0, [6], []]]
                cases.append({"targets": [tgt(tc)], "ops": ops, "family": "kinds"})
    return cases


def sizes_cases():
    """long argument lists, exotic argument objects in every position"""
    cases = []
    n = 0
    for tc in (TARGET_CONFIGS[0], TARGET_CONFIGS[1], TARGET_CONFIGS[4], TARGET_CONFIGS[6]):
        for rc in KIND_REPLS:
            for na, nk in ((0, 0), (1, 0), (0, 1), (5, 3), (17, 0), (40, 20), (3, 12)):
                n += 1
                args = [(ARG_BASE + (i + n) % N_ARGOBJ) if (i + n) % 3 == 0 else (i * 7 + n) % 100 for i in range(na)]
                kw = [[k, (ARG_BASE + (k + n) % N_ARGOBJ) if k % 2 else k] for k in range(nk)]
                ops = [construct(0, 0, rc, False, ["ret", 60 + n % 30], ["patch", "object"][n % 2])]
                ops += activation_ops(0, ["with", "deco", "start-stop", "classdeco"][n % 4], [["call", 0, args, kw]])
                cases.append({"targets": [tgt(tc)], "ops": ops, "family": "sizes"})
    return cases


KWNAME_REPLS = KIND_REPLS + [("smobj", "", 0), ("func", "lambda", 0), ("callobj", "partial", 0), ("afunc", "gen", 0),
                             (["newCallable", 1], "", 0), ("sealed", "typeerr", 0)]


def kwnames_cases(tier):
    """ROUND 5: keyword arguments under realistic NAMES (`fn=`, `args=`, `mock_fn=`, `cls=` ...): every name x every
    replacement kind (x every access path in the thorough tier, one of them per cell in the quick tier); each case calls
    with the name alone, with the name next to positional arguments, and with two more names"""
    cases = []
    n = 0
    for i in range(len(KW_NAMES)):
        for rc in KWNAME_REPLS:
            tcs = KIND_TARGETS if tier == "thorough" else [KIND_TARGETS[(n + i) % len(KIND_TARGETS)]]
            for tc in tcs:
                n += 1
                k0 = KWN_BASE + i
                k1 = KWN_BASE + (i + 1 + n % 7) % len(KW_NAMES)
                k2 = KWN_BASE + (i + 9 + n % 11) % len(KW_NAMES)
                if k2 == k1:
                    k2 = 3
                inner = [["call", 0, [], [[k0, 5]]],
                         ["call", 0, [1, ARG_BASE + n % N_ARGOBJ], [[k0, ARG_BASE + (n + 3) % N_ARGOBJ], [0, 4]]],
                         ["call", 0, [2], [[k1, 6], [k0, 7], [k2, 8]]]]
                ops = [construct(0, 0, rc, False, ["ret", 30 + n % 50] if n % 5 else ["raise", n % 4],
                                 ["patch", "object"][n % 2])]
                ops += activation_ops(0, ["with", "deco", "start-stop", "classdeco"][n % 4], inner)
                ops += [["call", 0, [6], [[k0, 9]]]]
                cases.append({"targets": [tgt(tc)], "ops": ops, "family": "kwnames"})
    return cases


# (primary configuration, configuration of the alternate owner that the name is rebound to)
REBIND_PAIRS = [
    (("func", "class", "loc", "inst"), ("func", "class", "loc", "inst")),     # pkg.Service -> pkg.ServiceV2
    (("func", "class", "loc", "cls"), ("sm", "class", "loc", "cls")),
    (("cm", "class", "loc", "cls"), ("cm", "class", "loc", "inst")),
    (("func", "module", "loc", "plain"), ("func", "module", "loc", "plain")),  # pkg.sub -> another module object
    (("func", "instance", "inherited", "plain"), ("func", "instance", "inherited", "plain")),  # pkg.service_obj
    (("attr", "class", "loc", "inst"), ("attr", "class", "absent", "inst")),   # the new owner lacks the attribute
    (("func", "class", "loc", "inst"), ("attr", "class", "loc", "inst")),
]
REBIND_REPLS = [("default", "", 0), ("func", "", 0), ("callobj", "", 0), ("value", "plain", 0),
                (["newCallable", 1], "", 1), ("afunc", "gen", 0)]
REBIND_SCENARIOS = ["reuse", "fresh-after-rebind", "construct-then-rebind", "rebind-inside"]


def rebind_cases(tier):
    """the owner named in the dotted path is rebound between construction, first use and second use of a patcher"""
    cases = []
    n = 0
    acts = ACTIVATIONS + ["classdeco"]
    for pc, ac in REBIND_PAIRS:
        for scen in REBIND_SCENARIOS:
            for act in acts:
                for rc in REBIND_REPLS:
                    n += 1
                    apis = ["patch", "object"] if tier == "thorough" else [["patch", "patch", "object"][n % 3]]
                    for api in apis:
                        c = lambda k: [["call", 0, [k], [[0, 1]] if k % 2 else []]]
                        C = [construct(0, 0, rc, False, ["ret", 40 + n % 40], api)]
                        to_alt, back = [["rebind", 0, 1]], [["rebind", 0, 0]]
                        if scen == "reuse":
                            ops = C + activation_ops(0, act, c(1)) + to_alt + c(2) + activation_ops(0, act, c(3)) + \
                                c(4) + back + c(5) + activation_ops(0, act, c(6))
                        elif scen == "fresh-after-rebind":
                            ops = to_alt + C + activation_ops(0, act, c(1)) + back + c(2) + activation_ops(0, act, c(3))
                        elif scen == "construct-then-rebind":
                            ops = C + to_alt + activation_ops(0, act, c(1)) + back + activation_ops(0, act, c(2)) + c(3)
                        else:
                            ops = C + activation_ops(0, act, c(1) + to_alt + c(2)) + c(3) + back + c(4) + \
                                activation_ops(0, act, c(5))
                        cases.append({"targets": [tgt(pc), tgt(ac, slot=0)], "ops": ops, "family": "rebind"})
    return cases


def deep_cases():
    """many patches of ONE target open at the same time (mixed styles), closed innermost first / by stopall"""
    cases = []
    n = 0
    for tc in (TARGET_CONFIGS[0], TARGET_CONFIGS[1], TARGET_CONFIGS[3]):
        for depth in (3, 4, 5, 8, 13, 24):
            for shape in ("blocks", "starts-lifo", "starts-stopall", "mixed"):
                n += 1
                pre, opening, closing = [], [], []
                for p in range(depth):
                    rc = CORE_REPLS[(p + n) % len(CORE_REPLS)]
                    pre.append(construct(p, 0, rc, False, ["ret", 100 + p], ["patch", "object"][(p + n) % 2]))
                    call = ["call", 0, [p], []]
                    if shape == "blocks" or (shape == "mixed" and p % 2 == 0):
                        style = ["with", "deco", "classdeco"][(p + n) % 3]
                        opening += [["enter", p, style], call]
                        closing = [call, ["exit", p, (p + n) % 3 % 2]] + closing
                    else:
                        opening += [["start", p], call]
                        closing = [call, ["stop", p]] + closing
                if shape == "starts-stopall":
                    closing = [["stopall"]]
                cases.append({"targets": [tgt(tc)], "ops": pre + opening + closing + [["call", 0, [99], []]],
                              "family": "deep"})
    return cases


SHARED_REPLS = [("func", "", 0), ("cmobj", "", 0), ("bound", "", 0), ("callobj", "", 0), ("callobj", "falsy", 0),
                ("callobj", "class", 0), ("sealed", "slots", 0), ("value", "plain", 0), ("afunc", "", 0)]


def shared_cases():
    """ONE replacement object serves two patches (same target nested / two targets overlapping / one after the other)"""
    cases = []
    n = 0
    for tc in (TARGET_CONFIGS[0], TARGET_CONFIGS[1], TARGET_CONFIGS[3]):
        for rc in SHARED_REPLS:
            for shape in ("nested-blocks", "nested-starts-lifo", "nested-starts-stopall", "two-targets", "sequential",
                          "block-in-start"):
                n += 1
                t1 = 1 if shape == "two-targets" else 0
                b = ["ret", 80 + n % 10] if n % 4 else ["raise", n % 5]
                pre = [construct(0, 0, rc, False, b, "patch"), construct(1, t1, rc, False, b, ["object", "patch"][n % 2], 0)]
                c0, c1 = [["call", 0, [n % 7], []]], [["call", t1, [1], [[0, 2]]]]
                if shape in ("nested-blocks", "two-targets"):
                    body = activation_ops(0, ["with", "deco", "classdeco"][n % 3],
                                          c0 + activation_ops(1, ["with-exc", "deco", "with"][n % 3], c0 + c1) + c0 + c1)
                elif shape == "nested-starts-lifo":
                    body = [["start", 0], ["start", 1]] + c0 + [["stop", 1]] + c0 + [["stop", 0]]
                elif shape == "nested-starts-stopall":
                    body = [["start", 0]] + c0 + [["start", 1]] + c0 + [["stopall"]]
                elif shape == "sequential":
                    body = activation_ops(0, "with", c0) + c0 + activation_ops(1, "deco-exc", c0) + activation_ops(0, "start-stop", c0)
                else:
                    body = [["start", 0]] + activation_ops(1, "with", c0) + c0 + [["stop", 0]]
                targets = [tgt(tc)] + ([tgt(TARGET_CONFIGS[2])] if t1 else [])
                cases.append({"targets": targets, "ops": pre + body + c0 + c1, "family": "shared"})
    return cases


MODE_ACTS = ["with", "deco-exc", "start-stop"]


def modes_cases(tier):
    """a replacement that is SENSITIVE TO ASYNCIO MODE - a fake that makes an ordinary synchronous call of another
    @asynq() function (behaviour `sync`) - for every target configuration x replacement kind: the four conventions must
    still agree (`.asyncio(...)` must not run the replacement inside asyncio mode when the others do not)"""
    cases = []
    n = 0
    for tc in TARGET_CONFIGS:
        for rc in REPL_CONFIGS:
            for act in (ACTIVATIONS3 if tier == "thorough" else MODE_ACTS):
                n += 1
                api = ["patch", "object"][n % 2]
                create = tc[2] == "absent"
                inner = [["call", 0, [1], [[0, 4]]], ["call", 0, [], []]]
                ops = [construct(0, 0, rc, create, ["sync", 50 + n % 40], api)]
                ops += activation_ops(0, act, inner) + [["call", 0, [6], []]]
                cases.append({"targets": [tgt(tc)], "ops": ops, "family": "modes"})
    return cases


ENTERFAIL_TARGETS = [TARGET_CONFIGS[0], TARGET_CONFIGS[1], TARGET_CONFIGS[3], TARGET_CONFIGS[9]]
ENTERFAIL_PRODUCTS = [("accepting", ""), ("noncallable", ""), ("rejecting", "slots"), ("rejecting", "typeerr")]
ENTERFAIL_STYLES = ["with", "deco", "classdeco", "start-stop", "start-stopall"]
# ROUND 5: WHICH exception the product's `__setattr__` raises (variant name = AsynqModel.Mock.EnterFail.ExcClass), and
# at WHICH of the three assignments of `_PatchAsync.__enter__` (`asynq` = the first, `async`, `asyncio` = only the last)
ENTERFAIL_EXCS = ["attrSub", "valueError", "lookupSub", "runtimeError", "falsyExc", "baseOnly"]
ENTERFAIL_AT = ["asynq", "async", "asyncio"]
ENTERFAIL_EXC_ATOM = {"": "attributeError", "slots": "attributeError", "typeerr": "typeError",
                      "specset": "attributeError", "specsetfn": "attributeError"}


def enterfail_cases(tier="quick"):
    """new_callable products that `_PatchAsync.__enter__` can / cannot decorate (judged by the small Lean model
    AsynqModel.Mock.EnterFail - the history model has no attribute-rejecting product).  Round 5: the class of the
    exception the product raises x the assignment that fails x alone / inside an open patch of the same target x first /
    second use of the patcher"""
    cases = []
    n = 0
    prods = [(p, v, "asynq") for p, v in ENTERFAIL_PRODUCTS]
    prods += [("rejecting", e, at) for e in ENTERFAIL_EXCS for at in ENTERFAIL_AT]
    # not a new_callable product but the DEFAULT mock made attribute-rejecting by `spec_set=` (a callable class: refuses
    # `asynq`; an @asynq() function: has `asynq` and `asyncio`, refuses `async`) - the same half-done `__enter__`
    prods += [("rejecting", "specset", "asynq"), ("rejecting", "specsetfn", "async")]
    for tc in ENTERFAIL_TARGETS:
        for prod, var, at in prods:
            for style in ENTERFAIL_STYLES:
                n += 1
                combos = [(o, u) for o in (0, 1) for u in (1, 2)] if tier == "thorough" else [(n % 2, 1 + (n // 2) % 2)]
                for outer, uses in combos:
                    c = {"family": "enterfail", "targets": [tgt(tc)], "product": prod, "pvariant": var,
                         "style": style, "api": ["patch", "object"][n % 2]}
                    if at != "asynq":
                        c["reject_at"] = at
                    if outer:
                        c["outer"] = 1
                    if uses > 1:
                        c["uses"] = uses
                    cases.append(c)
    return cases


def gen_history(rng, malformed=False):
    nt = rng.choice([1, 1, 2, 2, 3])
    targets = [tgt(rng.choice(TARGET_CONFIGS)) for _ in range(nt)]
    for ts in targets:
        if ts["kind"] == "attr" and ts["host"] == "loc" and rng.random() < 0.3:
            ts["ovar"] = "falsy"
    # alternates: other owners that the name of a slot can be rebound to (about a quarter of the histories)
    alts = {}      # slot -> [target indices that may stand for it]
    if rng.random() < 0.27:
        for _ in range(rng.choice([1, 1, 2])):
            s_ = rng.randrange(nt)
            same = [c for c in TARGET_CONFIGS if c[1] == targets[s_]["where"]]
            targets.append(tgt(rng.choice(same), slot=s_))
            alts.setdefault(s_, [s_]).append(len(targets) - 1)
    exotic = rng.random() < 0.3       # this history uses unusual result / argument objects
    named = rng.random() < 0.25       # this history passes keyword arguments under realistic names (KW_NAMES)
    np_ = rng.choice([1, 2, 2, 3, 3, 4, 5, 6])
    ops = []
    if alts and rng.random() < 0.3:   # the name already refers to another owner when the patchers are built
        s_ = rng.choice(sorted(alts))
        ops.append(["rebind", s_, rng.choice(alts[s_][1:])])
    for p in range(np_):
        t = rng.randrange(nt) if rng.random() < 0.6 else 0
        if alts and rng.random() < 0.6:
            t = rng.choice(sorted(alts))
        rc = rng.choice(REPL_CONFIGS if rng.random() < 0.3 else CORE_REPLS)
        if rc[0] == ["newCallable", 1] and rc[2] == 0 and rng.random() < 0.7:
            rc = (["newCallable", 1], "", 1)
        create = targets[t]["host"] == "absent" and rng.random() < 0.8
        if exotic and rng.random() < 0.6:
            raises = rng.random() < 0.3
            behav = behav_of(rng.choice(EKINDS if raises else RKINDS), 10 + p, raises)
        else:
            behav = ["ret", 10 + p] if rng.random() < 0.8 else ["raise", 1 + p % 3]
        if rng.random() < 0.08:
            behav = ["sync", 10 + p]      # a fake that makes a synchronous asynq call
        share = None
        explicit = [o for o in ops if o[0] == "construct" and isinstance(o[3], str) and o[3] != "default"
                    and share_of(o) is None and not (o[3] == "value" and o[8] == "none")]
        if explicit and rng.random() < 0.12:
            q = rng.choice(explicit)     # the same object once more (its kind, variant and behaviour come with it)
            rc, behav, share = (q[3], q[8], q[5]), q[6], q[1]
        ops.append(construct(p, t, rc, create, behav, rng.choice(["patch", "object"]), share))
    started = []   # patchers started and (as far as the generator knows) still active

    def rand_arg():
        return ARG_BASE + rng.randrange(N_ARGOBJ) if exotic and rng.random() < 0.3 else rng.randint(0, 9)

    def rand_call():
        t = rng.randrange(nt)
        if alts and rng.random() < 0.6:
            t = rng.choice(sorted(alts))
        args = [rand_arg() for _ in range(rng.choice([0, 1, 1, 2, 3]))]
        kw = [[k, rand_arg()] for k in range(rng.choice([0, 0, 1, 2]))]
        if named:
            # realistic keyword NAMES (distinct keys), before / between / after the numbered ones
            for k in rng.sample(range(len(KW_NAMES)), rng.choice([1, 1, 2, 3])):
                kw.insert(rng.randint(0, len(kw)), [KWN_BASE + k, rand_arg()])
        return ["call", t, args, kw]

    def seq(depth, open_, budget):
        out = []
        n = rng.choice([1, 2, 2, 3, 4]) if depth == 0 else rng.choice([0, 1, 1, 2, 3])
        for _ in range(n):
            if budget[0] <= 0:
                break
            budget[0] -= 1
            r = rng.random()
            free = [p for p in range(np_) if p not in open_ and p not in started]
            if r < 0.35 and free and depth < 4:
                p = rng.choice(free)
                style = rng.choice(["with", "with", "deco", "classdeco"])
                out.append(["enter", p, style])
                mark = len(started)
                out.extend(seq(depth + 1, open_ + [p], budget))
                # patches started inside a block mostly end before the block does (keeps the history well nested)
                late = []
                while len(started) > mark:
                    q = started.pop()
                    if rng.random() < 0.9:
                        out.append(["stop", q])
                    else:
                        late.append(q)
                out.append(["exit", p, rng.choice([1, 1, 1, 2]) if rng.random() < 0.35 else 0])
                started.extend(reversed(late))
            elif r < 0.5 and free:
                p = rng.choice(free)
                out.append(["start", p])
                started.append(p)
            elif r < 0.6 and started:
                out.append(["stop", started.pop()])      # LIFO
            elif r < 0.65 and started and depth == 0:
                out.append(["stopall"])
                del started[:]
            elif alts and r < 0.77:
                s_ = rng.choice(sorted(alts))
                out.append(["rebind", s_, rng.choice(alts[s_])])
            elif r < 0.9:
                out.append(rand_call())
            else:
                out.append(["peek"])
        return out

    budget = [rng.choice([4, 8, 12, 20, 30])]
    body = seq(0, [], budget)
    ops.extend(body)
    if started:
        if rng.random() < 0.5:
            ops.append(["stopall"])
        else:
            for p in reversed(started):
                ops.append(["stop", p])
        del started[:]
    ops.append(rand_call())
    if malformed:
        ops = mutate_ops(rng, ops, np_)
    return {"targets": targets, "ops": ops, "family": "malformed" if malformed else "random"}


def mutate_ops(rng, ops, np_):
    """ill-nested / misused histories: the bracket structure of enter/exit is kept, everything else may move"""
    # a class decorator works on COPIES of the patcher (own state): outside well-nested use that differs from the
    # patcher itself, which is all the model has - ill-nested histories use the function decorator instead
    ops = [[o[0], o[1], "deco"] if o[0] == "enter" and o[2] == "classdeco" else list(o) for o in ops]
    for _ in range(rng.choice([1, 1, 2, 3])):
        k = rng.random()
        p = rng.randrange(np_)
        pos = rng.randint(np_, len(ops))
        if k < 0.3:
            ops.insert(pos, ["stop", p])
        elif k < 0.55:
            ops.insert(pos, ["start", p])
        elif k < 0.7:
            ops.insert(pos, ["stopall"])
        elif k < 0.85:
            # a block of p wrapped around a random op position (may nest p inside itself)
            ops.insert(pos, ["enter", p, rng.choice(["with", "deco"])])
            ops.insert(pos + 1, ["exit", p, rng.randint(0, 1)])
        else:
            simple = [i for i, o in enumerate(ops) if o[0] in ("start", "stop")]
            if len(simple) >= 2:
                i, j = rng.sample(simple, 2)
                ops[i], ops[j] = ops[j], ops[i]
    return ops


def corpus():
    import glob
    import os
    res = []
    d = os.path.join(os.path.dirname(os.path.dirname(os.path.dirname(os.path.abspath(__file__)))), "corpus", PID)
    for p in sorted(glob.glob(os.path.join(d, "*.json"))):
        with open(p) as f:
            res.append(json.load(f))
    return res


def plan(tier, seed):
    rng = random.Random(seed * 1000003 + 19)
    cases = corpus() + product_cases(tier) + nested_cases()
    cases += kinds_cases(tier) + sizes_cases() + rebind_cases(tier) + deep_cases() + shared_cases() + enterfail_cases(tier)
    cases += modes_cases(tier) + kwnames_cases(tier)
    n = 1200 if tier == "quick" else 20000
    for i in range(n):
        cases.append(gen_history(rng, malformed=(i % 8 == 7)))
    return cases


def _matching(ops):
    """index of the exit that closes each enter (with-blocks nest like parentheses); None if ill-formed"""
    stack, match = [], {}
    for i, o in enumerate(ops):
        if o[0] == "enter":
            stack.append(i)
        elif o[0] == "exit":
            if not stack or ops[stack[-1]][1] != o[1]:
                return None
            match[stack.pop()] = i
    return None if stack else match


def shrink(case):
    if "ops" not in case:
        return
    ops = case["ops"]
    match = _matching(ops)
    if match is None:
        return
    closing = set(match.values())

    def mk(new_ops):
        return {"targets": case["targets"], "ops": new_ops, "family": case.get("family", "")}

    # drop a whole block, unwrap a block, drop a single non-bracket operation
    for i, j in sorted(match.items()):
        yield mk(ops[:i] + ops[j + 1:])
    for i, j in sorted(match.items()):
        yield mk(ops[:i] + ops[i + 1:j] + ops[j + 1:])
    shared = {share_of(o) for o in ops} - {None}
    for i, o in enumerate(ops):
        if o[0] not in ("enter", "exit") and i not in closing and not (o[0] == "construct" and o[1] in shared):
            yield mk(ops[:i] + ops[i + 1:])
    # an object of its own instead of a shared one
    for i, o in enumerate(ops):
        if share_of(o) is not None:
            yield mk(ops[:i] + [o[:9]] + ops[i + 1:])
    # the plainest target configuration (alternates keep their role and the kind of owner)
    has_alt = {ts["slot"] for ts in case["targets"] if "slot" in ts}
    for i, ts in enumerate(case["targets"]):
        if "slot" in ts or i in has_alt:
            plain = retarget_cfg(ts, next(c for c in TARGET_CONFIGS if c[1] == ts["where"]))
        else:
            plain = tgt(TARGET_CONFIGS[0])
        if ts != plain and not any(o[0] == "construct" and o[2] == i and o[4] for o in ops):
            yield {"targets": case["targets"][:i] + [plain] + case["targets"][i + 1:], "ops": ops,
                   "family": case.get("family", "")}
    # ordinary result / exception, ordinary block style, ordinary replacement variant
    for i, o in enumerate(ops):
        involved = o[0] == "construct" and (o[1] in shared or share_of(o) is not None)
        if o[0] == "construct" and o[6][0] == "sync" and not involved:
            yield mk(ops[:i] + [o[:6] + [["ret", o[6][1]]] + o[7:]] + ops[i + 1:])
        if o[0] == "construct" and len(o[6]) > 2 and not involved:
            b = ["ret", 10 + o[1]] if o[6][0] == "ret" else ["raise", o[6][1]]
            yield mk(ops[:i] + [o[:6] + [b] + o[7:]] + ops[i + 1:])
        if o[0] == "construct" and len(o) > 8 and o[8] not in ("", "plain", "slots") and not involved:
            yield mk(ops[:i] + [o[:8] + [{"value": "plain", "sealed": "slots"}.get(o[3], "")]] + ops[i + 1:])
        if o[0] == "enter" and o[2] != "with":
            yield mk(ops[:i] + [[o[0], o[1], "with"]] + ops[i + 1:])
        if o[0] == "exit" and o[2] == 2:
            yield mk(ops[:i] + [[o[0], o[1], 1]] + ops[i + 1:])
        if o[0] == "call" and any(a >= ARG_BASE for a in o[2]):
            yield mk(ops[:i] + [["call", o[1], [a for a in o[2] if a < ARG_BASE], o[3]]] + ops[i + 1:])
    # a numbered keyword instead of a named one, one keyword less
    for i, o in enumerate(ops):
        if o[0] == "call" and any(kk >= KWN_BASE for kk, _ in o[3]):
            used = {kk for kk, _ in o[3]}
            free = iter(k for k in range(90, 0, -1) if k not in used)
            yield mk(ops[:i] + [["call", o[1], o[2], [[next(free) if kk >= KWN_BASE else kk, vv] for kk, vv in o[3]]]]
                     + ops[i + 1:])
        if o[0] == "call" and len(o[3]) > 1:
            for j in range(len(o[3])):
                yield mk(ops[:i] + [["call", o[1], o[2], o[3][:j] + o[3][j + 1:]]] + ops[i + 1:])
    # fewer arguments in calls
    for i, o in enumerate(ops):
        if o[0] == "call" and (o[2] or o[3]):
            yield mk(ops[:i] + [["call", o[1], [], []]] + ops[i + 1:])


def neighbours(case, rng):
    if "ops" not in case:
        return
    np_ = 1 + max([o[1] for o in case["ops"] if o[0] == "construct"] or [0])
    for rc in REPL_CONFIGS:
        ops = [list(o[:9]) if o[0] == "construct" else list(o) for o in case["ops"]]   # (nothing shared any more)
        for o in ops:
            if o[0] == "construct" and rng.random() < 0.6:
                o[3], o[8], o[5] = rc[0], rc[1], rc[2]
        yield {"targets": case["targets"], "ops": ops, "family": "neighbour"}
    if not any("slot" in ts for ts in case["targets"]):
        for tc in TARGET_CONFIGS:
            yield {"targets": [tgt(tc) for _ in case["targets"]], "ops": case["ops"], "family": "neighbour"}
    for _ in range(16):
        yield {"targets": case["targets"], "ops": mutate_ops(rng, case["ops"], np_), "family": "neighbour"}


def signature(case, v):
    """WHAT fails: the spec clause; for a failing construction also whether it is the defect repaired by 60e77e0
    coming back (the first new_callable patcher that leaves `autospec` to the signature's default, at a point where
    model and implementation still agree) - the signature recorded as `fixed` in known_findings.json"""
    import re
    clause = v.get("spec", "ok")
    extra = ""
    if case.get("family") == "enterfail":
        raises = "/setattr-raises-%s" % case["pvariant"] if case.get("pvariant") in ENTERFAIL_EXCS else ""
        return "%s/new_callable-product-%s%s" % (clause, case.get("product"), raises)
    if clause.startswith("fail:construct@"):
        nc = [i for i, o in enumerate(case["ops"]) if o[0] == "construct" and isinstance(o[3], list) and not o[5]]
        m = re.match(r"obs (\d+):", v.get("detail", "") or "")
        first_diff = int(m.group(1)) if m else None
        agree = v.get("corr") == "ok" or (first_diff is not None and nc and first_diff > nc[0])
        extra = "/new_callable-with-default-autospec" if (nc and agree) else "/other"
    elif clause.startswith("fail:conventions"):
        # which kind of result / exception object the conventions disagree on - read from the model's side of the
        # first differing observation (the framework asks for the signature BEFORE it shrinks the case, so nothing
        # else of the case may enter it)
        m = re.search(r"model=(.*?) impl=", v.get("detail", "") or "")
        kinds = (set(re.findall(r"(?:RKind|EKind)\.(\w+)", m.group(1))) if m else set()) - {"plain", "exception"}
        m2 = re.search(r"model=(.*?) impl=(.*)$", v.get("detail", "") or "", re.S)
        named = m2 and re.search(r"Op\.call \d+ \[[^\]]*\] \[[^\]]*\((\d{4,}),", m2.group(2))
        if named and int(named.group(1)) >= KWN_BASE and "Exc.typeError" in m2.group(2) \
                and "Exc.typeError" not in m2.group(1):
            # one convention alone answers TypeError to a call that passes a keyword argument under a realistic name
            extra = "/typeError-for-named-keyword"
        elif kinds & {"constFuture", "lazyFuture", "errorFuture", "task"}:
            extra = "/result-is-an-asynq-future"
        elif kinds:
            extra = "/result-kind=" + "+".join(sorted(kinds))
    return "%s%s" % (clause, extra)


# ---------------------------------------------------------------------------------------------------
# implementation side
# ---------------------------------------------------------------------------------------------------

class UserErr(Exception):
    pass


class BaseOnlyErr(BaseException):
    """an error that is not an `Exception`"""


class FalsyErr(Exception):
    def __bool__(self):
        return False

    def __len__(self):
        return 0


class KeyErrSub(KeyError):
    pass


class Leave(Exception):
    """raised by the harness at the end of a block that is to be left by exception"""

    def __init__(self, k):
        Exception.__init__(self, "leave block %d" % k)
        self.k = k


class LeaveBase(BaseException):
    """the same, but not an `Exception`"""

    def __init__(self, k):
        BaseException.__init__(self, "leave block %d" % k)
        self.k = k


class Plain(object):
    """a non-callable object"""


class Weird(object):
    """comparing, hashing, truth-testing or printing it fails"""
    __hash__ = None

    def __eq__(self, other):
        raise RuntimeError("Weird.__eq__")

    def __ne__(self, other):
        raise RuntimeError("Weird.__ne__")

    def __bool__(self):
        raise RuntimeError("Weird.__bool__")

    def __repr__(self):
        raise RuntimeError("Weird.__repr__")

    __str__ = __repr__


class ListSub(list):
    pass


_MISSING = object()
_world_counter = [0]


def run_enterfail(case):
    """one activation of `patch(..., new_callable=factory)` in the given style; what the host holds inside the block
    and when everything is over"""
    import sys
    import types
    from unittest import mock

    import asynq

    _active = getattr(getattr(mock, "_patch", None), "_active_patches", None)
    if _active:
        del _active[:]
    _world_counter[0] += 1
    modname = "c19_world_%d" % _world_counter[0]
    mod = types.ModuleType(modname)
    sys.modules[modname] = mod

    class Svc(object):
        pass

    inst = Svc()
    mod.Svc, mod.inst = Svc, inst
    ts = case["targets"][0]

    def fn(*a, **k):
        return 7000

    orig = asynq.asynq()(fn) if ts["kind"] == "func" else Plain()
    name = "a0"
    if ts["where"] == "module":
        hobj, path = mod, "%s.%s" % (modname, name)
    elif ts["where"] == "class":
        hobj, path = Svc, "%s.Svc.%s" % (modname, name)
    else:
        hobj, path = inst, "%s.inst.%s" % (modname, name)
    setattr(Svc if ts["host"] == "inherited" else hobj, name, orig)
    prods = []
    raised = []       # the exception objects the products' `__setattr__` raised (identity)
    pvar = case.get("pvariant", "")
    at = case.get("reject_at", "asynq")
    refused = {"asynq": ("asynq", "async", "asyncio"), "async": ("async", "asyncio"), "asyncio": ("asyncio",)}[at]

    class AttrSub(AttributeError):
        pass

    exc_cls = {"attrSub": AttrSub, "valueError": ValueError, "lookupSub": KeyErrSub, "runtimeError": RuntimeError,
               "falsyExc": FalsyErr, "baseOnly": BaseOnlyErr}.get(pvar)

    def factory(**kw):
        if case["product"] == "accepting":
            class Made(object):
                def __call__(self, *a, **k):
                    return 1
        elif case["product"] == "noncallable":
            Made = Plain
        elif pvar == "typeerr":
            class Made(object):
                __slots__ = ()

                def __setattr__(self, k, v):
                    raise TypeError("no attributes on this extension type")

                def __call__(self, *a, **k):
                    return 1
        elif exc_cls is not None:
            # a callable fake in the style of a validated model: undeclared fields are refused with its own exception
            class Made(object):
                def __setattr__(self, k, v):
                    if k in refused:
                        e = exc_cls('"Made" object has no field "%s"' % k)
                        raised.append(e)
                        raise e
                    object.__setattr__(self, k, v)

                def __call__(self, *a, **k):
                    return 1
        else:
            class Made(object):
                __slots__ = ()

                def __call__(self, *a, **k):
                    return 1
        o = Made()
        prods.append(o)
        return o

    class OuterFake(object):
        def __call__(self, *a, **k):
            return 2

    outer_fake = OuterFake()
    before = [orig]        # what the host holds when the activation under test begins

    def held():
        v = vars(hobj).get(name, _MISSING)
        if v is before[0] or (before[0] is orig and v is _MISSING and ts["host"] == "inherited"):
            return "orig"
        return "product" if any(v is x for x in prods) else "other"

    kw = {"new_callable": factory, "autospec": None}
    if pvar == "specset":
        class SpecCls(object):
            def __call__(self, *a, **k):
                return 3
        kw = {"spec_set": SpecCls}
    elif pvar == "specsetfn":
        kw = {"spec_set": asynq.asynq()(lambda *a, **k: 3)}
    pt = asynq.mock.patch.object(hobj, name, **kw) if case["api"] == "object" else asynq.mock.patch(path, **kw)
    state = {"entered": 0, "during": "none"}

    def body(*extra):
        state["entered"] = 1
        if state["during"] in ("none", "product"):      # (a second use must show the same as the first)
            state["during"] = held()

    style = case["style"]

    def ours(e):
        """the failure of the attribute assignment itself (and nothing else)"""
        if any(e is x for x in raised):
            return True
        return exc_cls is None and isinstance(e, (AttributeError, TypeError))

    def activate():
        try:
            if style == "with":
                with pt:
                    body()
            elif style == "deco":
                pt(lambda *extra: body())()
            elif style == "classdeco":
                class Tests(object):
                    def test_body(self, *extra):
                        body()
                pt(Tests)().test_body()
            else:
                try:
                    pt.start()
                    body()
                finally:
                    # what a careful test does in tearDown / addCleanup, whether or not setUp got through
                    if style == "start-stop":
                        pt.stop()
                    else:
                        asynq.mock.patch.stopall()
        except BaseException as e:
            if state["entered"] or not ours(e):
                raise

    try:
        if case.get("outer"):
            # the activation under test happens inside an open patch of the SAME target: the outer replacement must be
            # back when it is over, and the original when the outer block is
            with asynq.mock.patch.object(hobj, name, outer_fake):
                before[0] = outer_fake
                for _ in range(case.get("uses", 1)):
                    activate()
                after = held()
            before[0] = orig
            if held() != "orig":
                after = "other"
        else:
            for _ in range(case.get("uses", 1)):
                activate()
            after = held()
    finally:
        if _active:
            del _active[:]
        sys.modules.pop(modname, None)
    exc_atom = ENTERFAIL_EXC_ATOM.get(pvar, pvar)
    lines = ["(case mockfail %d %s %s %s)" % (case["id"], case["product"], style, exc_atom),
             "(obs %d %s %s)" % (state["entered"], state["during"], after), "(end)"]
    feats = ["family=enterfail", "product=%s%s" % (case["product"], "/" + case["pvariant"] if case["pvariant"] else ""),
             "style=" + style, "target=%s/%s/%s/%s" % (ts["kind"], ts["where"], ts["host"], ts["via"]),
             "reject_at=" + at, "inside_open_patch=%d" % (1 if case.get("outer") else 0),
             "uses=%d" % case.get("uses", 1)]
    key = hashlib.sha1(json.dumps(case, sort_keys=True).encode()).hexdigest()[:16]
    return {"lines": lines, "features": feats, "nontrivial": key}


def run_case(case):
    import asyncio
    import functools
    import inspect
    import sys
    import types
    from unittest import mock

    import asynq
    import asynq.decorators
    import asynq.futures

    if case.get("family") == "enterfail":
        return run_enterfail(case)
    ops = case["ops"]
    match = _matching(ops)
    if match is None:
        raise ValueError("ill-formed block structure in case")
    # isolation between cases of one worker process: unittest.mock keeps started patches in a process-wide list
    # (stdlib internals, touched for hygiene only - never to observe)
    _active = getattr(getattr(mock, "_patch", None), "_active_patches", None)
    if _active:
        del _active[:]
    _world_counter[0] += 1
    modname = "c19_world_%d" % _world_counter[0]
    mod = types.ModuleType(modname)
    sys.modules[modname] = mod

    class Svc(object):
        pass

    inst = Svc()
    mod.Svc = Svc
    mod.inst = inst

    keep = []
    ident = {}        # id(object) -> token s-expression (without tag) ; keeps objects alive through `keep`
    log = []          # (callee token string, args, kwargs) of every user-level callable that ran
    ctx = {"inst": inst, "cls": Svc}   # the instance / class the current call goes through

    # ---- exceptions and result objects: tokens by identity ------------------------------------------
    err_objs = {}     # (e, kind) -> exception object
    err_tok = {}      # id(exception) -> "(raised user e [kind])"

    def err_obj(e, kind):
        if (e, kind) not in err_objs:
            if kind == "baseOnly":
                x = BaseOnlyErr("b%d" % e)
            elif kind == "falsy":
                x = FalsyErr("f%d" % e)
            elif kind == "builtinSub":
                x = KeyErrSub("k%d" % e, e)
            else:
                x = UserErr("e%d" % e)
            err_objs[(e, kind)] = x
            err_tok[id(x)] = "(raised user %d)" % e if kind == "exception" else "(raised user %d %s)" % (e, kind)
        return err_objs[(e, kind)]

    res_tok = {}      # id(result object) -> "(ok r kind)"

    @asynq.asynq()
    def handle_task():
        return 424242

    @asynq.asynq()
    def dep_fn(n):
        return n + 1

    def result_obj(r, kind):
        """a NEW object of the given kind standing for result token r (None is the one exception)"""
        if kind == "none":
            return None
        if kind == "falsy":
            o = [[], 0.0 * (r + 1), ListSub()][r % 3]
        elif kind == "constFuture":
            o = asynq.ConstFuture(("inner", r))
        elif kind == "lazyFuture":
            o = asynq.Future(lambda: ("lazy", r))
        elif kind == "errorFuture":
            o = asynq.futures.ErrorFuture(UserErr("inside a future that is only handed around"))
        elif kind == "task":
            o = handle_task.asynq()
        elif kind == "excInstance":
            o = [ValueError("a value, not an error"), BaseOnlyErr("a value"), FalsyErr()][r % 3]
        elif kind == "exotic":
            o = Weird()
        elif kind == "container":
            o = [ListSub([r, r]), tuple([r, "x"]), {"r": r}][r % 3]
        else:
            raise ValueError(kind)
        keep.append(o)
        res_tok[id(o)] = "(ok %d %s)" % (r, kind)
        return o

    def out_tok(r):
        if r is None:
            return "(ok %d none)" % NONE_TOK
        if id(r) in res_tok:
            return res_tok[id(r)]
        return "(ok %d)" % (r if isinstance(r, int) and not isinstance(r, bool) and 0 <= r < ARG_BASE else UNKNOWN)

    # exotic argument objects: token ARG_BASE+i <-> argobjs[i], by identity
    argobjs = [None, False, [], asynq.ConstFuture(("arg", 3)), asynq.Future(lambda: ("arg", 4)), Weird(), (), 0.0,
               ValueError("an argument"), mock.DEFAULT,
               # round 5: callables handed through as arguments (a callback, an @asynq() function, a mock)
               (lambda: "cb"), dep_fn, mock.MagicMock()]
    assert len(argobjs) == N_ARGOBJ

    def arg_obj(a):
        return argobjs[a - ARG_BASE] if ARG_BASE <= a < ARG_BASE + N_ARGOBJ else a

    def arg_tok(a):
        for i, o in enumerate(argobjs):
            if a is o:
                return ARG_BASE + i
        if a is ctx["inst"]:
            return INST_TOK
        if a is ctx["cls"]:
            return CLS_TOK
        if isinstance(a, int) and not isinstance(a, bool) and 0 <= a < ARG_BASE:
            return a
        return UNKNOWN

    def do(callee, behav, a, k):
        log.append("(%s (%s) (%s))" % (callee, " ".join(str(arg_tok(x)) for x in a),
                                       " ".join("(%d %d)" % (kw_num(kk), arg_tok(vv)) for kk, vv in k.items())))
        if behav[0] == "raise":
            raise behav[1]
        if behav[0] == "sync":
            # a fake that delegates: an ORDINARY SYNCHRONOUS call of another @asynq() function; its value is the result
            return dep_fn(behav[1] - 1)
        return behav[1]

    def realise(behav):
        """[kind-of-behaviour, the very object to return / raise]"""
        if behav[0] == "sync":
            return ["sync", behav[1]]
        if behav[0] == "raise":
            return ["raise", err_obj(behav[1], behav[2] if len(behav) > 2 else "exception")]
        if len(behav) > 2 and behav[2] != "plain":
            return ["ret", result_obj(behav[1], behav[2])]
        return ["ret", behav[1]]

    # ---- the world: targets -------------------------------------------------------------------
    # Every target is (host object, attribute name).  A target with "slot": s is an ALTERNATE owner for the name of
    # target s: same attribute name on another class / instance / module.  A slot that has alternates is reached
    # through an alias `pkg.Own<s>` in the dotted path, and `rebind s t` is `setattr(pkg, "Own<s>", owner of t)`.
    tspecs = case["targets"]
    aliased = {ts["slot"] for ts in tspecs if "slot" in ts}
    hosts = []        # t -> (host object, attribute name)
    insts = {}        # t -> instance used for via == "inst" / the host instance
    classes = {}      # t -> the class the attribute is (also) found on
    for t, ts in enumerate(tspecs):
        slot = ts.get("slot", t)
        if slot != t and ("slot" in tspecs[slot] or tspecs[slot]["where"] != ts["where"]):
            raise ValueError("alternate %d does not fit slot %d" % (t, slot))
        name = "a%d" % slot
        kind, where, host = ts["kind"], ts["where"], ts["host"]
        behav = ["ret", 7000 + t]
        callee = "(orig %d)" % t

        def plain_fn(*a, _c=callee, _b=behav, **k):
            return do(_c, _b, a, k)

        if kind == "func":
            obj = asynq.asynq()(plain_fn)
        elif kind == "cm":
            obj = asynq.asynq()(classmethod(plain_fn))
        elif kind == "sm":
            obj = asynq.asynq()(staticmethod(plain_fn))
        else:
            obj = [] if ts.get("ovar") == "falsy" else Plain()
        keep.append(obj)
        ident[id(obj)] = "(orig %d)" % t
        if slot == t:
            the_mod, the_cls, the_inst = mod, Svc, inst
        else:
            the_mod = types.ModuleType("%s_alt%d" % (modname, t))
            the_cls = type("AltSvc%d" % t, (object,), {})
            the_inst = the_cls()
            keep.extend([the_mod, the_cls, the_inst])
        if where == "module":
            hobj = the_mod
            if host == "loc":
                setattr(hobj, name, obj)
        elif where == "class":
            hobj = the_cls
            if host == "loc":
                setattr(hobj, name, obj)
        else:
            hobj = the_inst
            if host == "inherited":
                setattr(the_cls, name, obj)
        hosts.append((hobj, name))
        insts[t] = the_inst
        classes[t] = the_cls
    bound = {}        # slot -> the target its name refers to now
    for s_ in range(len(tspecs)):
        if "slot" not in tspecs[s_]:
            bound[s_] = s_
            if s_ in aliased:
                setattr(mod, "Own%d" % s_, hosts[s_][0])

    def path_of(s_):
        name = hosts[s_][1]
        if s_ in aliased:
            return "%s.Own%d.%s" % (modname, s_, name)
        where = tspecs[s_]["where"]
        return "%s.%s%s" % (modname, {"module": "", "class": "Svc.", "instance": "inst."}[where], name)

    def lookup(s_):
        """what a caller gets who goes through the NAME of slot s_ now"""
        t = bound[s_]
        ts = tspecs[t]
        owner = getattr(mod, "Own%d" % s_) if s_ in aliased else hosts[t][0]
        if owner is not hosts[t][0]:
            raise ValueError("harness: owner of slot %d out of step" % s_)
        ctx["inst"], ctx["cls"] = insts[t], classes[t]
        if ts["where"] == "class" and ts["via"] != "cls":
            return getattr(insts[t], hosts[t][1])
        return getattr(owner, hosts[t][1])

    patchers = {}
    specs = {}
    made = {}         # p -> list of objects made for p (in order of first appearance)
    fresh = set()     # ids of objects produced by a new_callable factory
    none_given = []   # the one patcher whose replacement is None itself
    raw_new = {}      # p -> the object passed as `new`

    def tok(o):
        """token of an object found in a host's __dict__ / returned by __enter__"""
        if o is None and none_given:
            return "(given %d)" % none_given[0]
        s = ident.get(id(o))
        if s is not None:
            return s
        for p, lst in made.items():
            for n, x in enumerate(lst):
                if x is o:
                    if id(o) in fresh:
                        tag = "fresh"
                    elif isinstance(o, mock.NonCallableMock):
                        tag = "mock"
                    elif isinstance(o, asynq.decorators.AsyncDecorator):
                        tag = "pair"
                    else:
                        tag = "wrapper"
                    return "(made %d %d %s)" % (p, n, tag)
        return "(unknown)"

    def callee_tok(p, o):
        for n, x in enumerate(made.get(p, [])):
            if x is o:
                return "(made %d %d)" % (p, n)
        return "(unknown)"

    def peeks():
        out = []
        for hobj, name in hosts:
            v = vars(hobj).get(name, _MISSING)
            out.append("none" if v is _MISSING else tok(v))
        return "(%s)" % " ".join(out)

    def exc_tok(e):
        if id(e) in err_tok:
            return err_tok[id(e)]
        if isinstance(e, TypeError):
            return "(raised typeError)"
        if isinstance(e, AttributeError):
            return "(raised attributeError)"
        if isinstance(e, ValueError):
            return "(raised valueError)"
        if isinstance(e, RuntimeError) and str(e).startswith("asyncio mode does not support synchronous calls"):
            return "(raised runtimeError)"      # asynq's refusal of a synchronous call in asyncio mode
        return "(raised other %s)" % type(e).__name__

    def default_is_none(fn):
        # data read from the code on every run: the default of `autospec` in the signature (unittest.mock's is None)
        try:
            return 1 if inspect.signature(fn).parameters["autospec"].default is None else 0
        except (KeyError, TypeError, ValueError):
            return 0

    lines = ["(case mock %d (targets %s) (defaults %d %d))" % (
        case["id"], " ".join("(tgt %s %s %s)" % (ts["kind"], ts["host"], ts["via"]) for ts in tspecs),
        default_is_none(asynq.mock.patch), default_is_none(asynq.mock.patch.object))]
    stats = {"entered": 0, "calls_in_patch": 0, "maxdepth": 0, "exc_exits": 0, "enter_failed": 0, "rebinds": 0,
             "entered_rebound": 0}
    open_targets = []

    def behav_sexp(b):
        return "(%s %d)" % (b[0], b[1]) if len(b) < 3 or b[2] in ("plain", "exception") else "(%s %d %s)" % tuple(b)

    def op_sexp(op):
        k = op[0]
        if k == "construct":
            r = op[3]
            rs = ("(asyncFn %s)" % ASYNC_REPLS[r] if r in ASYNC_REPLS else r) if isinstance(r, str) \
                else "(newCallable %d)" % r[1]
            return "(construct %d %d %s %d %d %d %s%s)" % (
                op[1], op[2], rs, op[4], op[5], 1 if op[7] == "object" else 0, behav_sexp(op[6]),
                "" if share_of(op) is None else " (share %d)" % share_of(op))
        if k == "enter":
            return "(enter %d)" % op[1]
        if k == "exit":
            return "(exit %d %d)" % (op[1], 1 if op[2] else 0)
        if k in ("start", "stop"):
            return "(%s %d)" % (k, op[1])
        if k == "call":
            return "(call %d (%s) (%s))" % (op[1], " ".join(str(a) for a in op[2]),
                                            " ".join("(%d %d)" % (kk, vv) for kk, vv in op[3]))
        if k == "rebind":
            return "(rebind %d %d)" % (op[1], op[2])
        return "(%s)" % k

    def emit(op, res):
        lines.append("(obs %s %s %s)" % (op_sexp(op), res, peeks()))

    # ---- replacements ---------------------------------------------------------------------------
    def make_new(p, spec):
        """the keyword arguments for patch() that realise replacement kind spec['repl']"""
        repl, variant, behav = spec["repl"], spec["variant"], spec["rbehav"]
        given = "(given %d)" % p
        if spec.get("share") is not None:
            q = spec["share"]
            if q not in raw_new or specs[q]["repl"] != repl or specs[q]["variant"] != variant:
                raise ValueError("harness: patcher %d cannot share the replacement of %d" % (p, q))
            raw_new[p] = raw_new[q]
            return {"new": raw_new[q]}

        def fn(*a, **k):
            return do(given, behav, a, k)

        if repl == "default":
            return {}
        if isinstance(repl, list):
            callable_ = bool(repl[1])

            def factory(**kw):
                if callable_:
                    class Made(object):
                        def __call__(self, *a, **k):
                            return do(callee_tok(p, self), behav, a, k)
                    o = Made()
                else:
                    o = Plain()
                keep.append(o)
                fresh.add(id(o))
                return o
            return {"new_callable": factory}
        if repl == "func":
            new = (lambda *a, **k: do(given, behav, a, k)) if variant == "lambda" else fn
        elif repl == "cmobj":
            new = classmethod(fn)
        elif repl == "smobj":
            new = staticmethod(fn)
        elif repl == "bound":
            class Holder(object):
                def bm(self, *a, **k):
                    return do(given, behav, a, k)
            new = Holder().bm
        elif repl == "callobj":
            if variant == "partial":
                new = functools.partial(fn)
            elif variant == "class":
                class CallCls(object):
                    def __new__(cls, /, *a, **k):
                        return do(given, behav, a, k)
                new = CallCls
            elif variant == "falsy":
                class CallFalsy(object):
                    def __call__(self, *a, **k):
                        return do(given, behav, a, k)

                    def __bool__(self):
                        return False

                    def __len__(self):
                        return 0
                new = CallFalsy()
            elif variant == "eqraise":
                class CallWeird(Weird):
                    def __call__(self, *a, **k):
                        return do(given, behav, a, k)
                new = CallWeird()
            else:
                class CallObj(object):
                    def __call__(self, *a, **k):
                        return do(given, behav, a, k)
                new = CallObj()
        elif repl == "sealed":
            if variant == "typeerr":
                class Sealed(object):
                    __slots__ = ()

                    def __setattr__(self, k, v):
                        raise TypeError("no attributes on this extension type")

                    def __call__(self, *a, **k):
                        return do(given, behav, a, k)
            else:
                class Sealed(object):
                    __slots__ = ()

                    def __call__(self, *a, **k):
                        return do(given, behav, a, k)
            new = Sealed()
        elif repl in ASYNC_REPLS:
            # `patch(target, some_other_async_function)`: an AsyncDecorator object (not `inspect.isfunction`)
            if variant == "gen":
                def body(*a, **k):
                    yield dep_fn.asynq(len(a))
                    return do(given, behav, a, k)
            else:
                body = fn
            kind = ASYNC_REPLS[repl]
            new = asynq.asynq()(classmethod(body) if kind == "cm" else staticmethod(body) if kind == "sm" else body)
        elif repl == "value":
            if variant == "none" and not none_given:
                none_given.append(p)
                return {"new": None}
            if variant == "int":
                new = 10 ** 9 + p
            elif variant in ("falsy", "none"):
                new = [[], ListSub(), 0.0 * (p + 1)][p % 3]
            else:
                new = Plain()
        else:
            raise ValueError(repl)
        keep.append(new)
        ident[id(new)] = given
        raw_new[p] = new
        return {"new": new}

    def after_enter(p, obj):
        """register what __enter__ returned; give a DEFAULT mock its behaviour"""
        stats["entered"] += 1
        if id(obj) not in ident and not (obj is None and none_given):
            lst = made.setdefault(p, [])
            if not any(x is obj for x in lst):
                lst.append(obj)
                keep.append(obj)
        spec = specs[p]
        if spec["repl"] == "default" and isinstance(obj, mock.NonCallableMock):
            ct = callee_tok(p, obj)
            behav = spec["rbehav"]
            obj.side_effect = lambda *a, **k: do(ct, behav, a, k)
        t = spec["target"]
        if bound.get(t, t) != t:
            stats["entered_rebound"] += 1
        open_targets.append(t)
        stats["maxdepth"] = max(stats["maxdepth"], open_targets.count(t))
        return "(entered %s)" % tok(obj)

    def closed(p):
        t = specs[p]["target"]
        if t in open_targets:
            open_targets.remove(t)

    # ---- operations --------------------------------------------------------------------------------
    skip = [0]

    def do_simple(op):
        k = op[0]
        if skip[0]:
            emit(op, "(skipped)")
            return
        try:
            if k == "construct":
                p, t = op[1], op[2]
                if p in patchers:
                    res = "(skipped)"
                else:
                    spec = {"target": t, "repl": op[3], "create": op[4], "an": op[5], "behav": op[6], "api": op[7],
                            "variant": op[8] if len(op) > 8 else "", "share": share_of(op)}
                    # a shared object behaves as it behaves: the behaviour realised for the patcher it came from
                    spec["rbehav"] = specs[spec["share"]]["rbehav"] if spec["share"] in specs else realise(op[6])
                    kw = make_new(p, spec)
                    if spec["create"]:
                        kw["create"] = True
                    if spec["an"]:
                        kw["autospec"] = None
                    if spec["api"] == "object":
                        # the caller hands over the owner the name refers to at this moment
                        spec["otarget"] = bound[t]
                        hobj, name = hosts[bound[t]]
                        pt = asynq.mock.patch.object(hobj, name, **kw)
                    else:
                        pt = asynq.mock.patch(path_of(t), **kw)
                    patchers[p] = pt
                    specs[p] = spec
                    res = "(made)"
            elif k == "start":
                pt = patchers.get(op[1])
                if pt is None:
                    res = "(noPatcher)"
                else:
                    res = after_enter(op[1], pt.start())
            elif k == "stop":
                pt = patchers.get(op[1])
                if pt is None:
                    res = "(noPatcher)"
                else:
                    r = pt.stop()
                    if r is None:
                        res = "(notActive)"
                    else:
                        res = "(stopped)"
                        closed(op[1])
            elif k == "stopall":
                asynq.mock.patch.stopall()
                del open_targets[:]
                res = "(unit)"
            elif k == "call":
                res = do_call(op)
            elif k == "peek":
                res = "(unit)"
            elif k == "rebind":
                s_, t = op[1], op[2]
                if s_ not in aliased or not (t == s_ or tspecs[t].get("slot") == s_):
                    raise ValueError("unknown op %r (no such alternate)" % (op,))
                setattr(mod, "Own%d" % s_, hosts[t][0])
                bound[s_] = t
                stats["rebinds"] += 1
                res = "(unit)"
            else:
                raise ValueError("unknown op %r" % (op,))
        except Exception as e:  # the outcome of the operation, not a harness failure
            if isinstance(e, ValueError) and str(e).startswith(("unknown op", "harness:")):
                raise
            if k == "start":
                stats["enter_failed"] += 1
            res = exc_tok(e)
        emit(op, res)

    def do_call(op):
        t, args, kwl = op[1], [arg_obj(a) for a in op[2]], op[3]
        kw = {kw_name(kk): arg_obj(vv) for kk, vv in kwl}
        if len(kw) != len(kwl):
            raise ValueError("harness: duplicate keyword key in %r" % (op,))
        get = lambda: lookup(t)
        if t in open_targets:
            stats["calls_in_patch"] += 1

        def sync():
            return get()(*args, **kw)

        def value():
            return get().asynq(*args, **kw).value()

        def yield_():
            @asynq.asynq()
            def task():
                return (yield get().asynq(*args, **kw))
            return task()

        def asyncio_():
            return asyncio.run(get().asyncio(*args, **kw))

        out = []
        for f in (sync, value, yield_, asyncio_):
            del log[:]
            try:
                o = out_tok(f())
            except BaseException as e:
                if not isinstance(e, Exception) and id(e) not in err_tok:
                    raise                      # not ours (KeyboardInterrupt, a harness bug): never an observation
                if isinstance(e, ValueError) and str(e).startswith("harness:"):
                    raise
                o = exc_tok(e)
            out.append("(%s (%s))" % (o, " ".join(log)))
        del log[:]
        return "(called %s)" % " ".join(out)

    def exec_range(i, j):
        while i < j:
            if ops[i][0] == "enter":
                k = match[i]
                do_block(i, k)
                i = k + 1
            else:
                do_simple(ops[i])
                i += 1

    def skipped_block(i, k, first):
        emit(ops[i], first)
        skip[0] += 1
        try:
            exec_range(i + 1, k)
        finally:
            skip[0] -= 1
        emit(ops[k], "(skipped)")

    def do_block(i, k):
        op, p, style, exc = ops[i], ops[i][1], ops[i][2], ops[k][2]
        if skip[0]:
            skipped_block(i, k, "(skipped)")
            return
        pt = patchers.get(p)
        if pt is None:
            skipped_block(i, k, "(noPatcher)")
            return
        state = {"entered": False}

        def installed_now():
            # a decorator hands the replacement over only for DEFAULT / new_callable; otherwise look where it was put
            spec = specs[p]
            hobj, name = hosts[spec["otarget"] if spec["api"] == "object" else bound[spec["target"]]]
            return vars(hobj).get(name, _MISSING)

        def body(m):
            state["entered"] = True
            emit(op, after_enter(p, m))
            exec_range(i + 1, k)
            if exc == 2:
                raise LeaveBase(k)
            if exc:
                raise Leave(k)

        propagated = False
        try:
            if style == "deco":
                @pt
                def decorated(*extra):
                    body(extra[0] if extra else installed_now())
                decorated()
            elif style == "classdeco":
                # `patch(...)` applied to a class decorates every `test*` method with a COPY of the patcher
                # (`_PatchAsync.copy`); calling the method is one use of that copy
                class Tests(object):
                    def test_body(self, *extra):
                        body(extra[0] if extra else installed_now())

                    def helper(self):
                        return None
                decorated_cls = pt(Tests)
                if decorated_cls is not Tests:
                    raise ValueError("harness: class decorator returned another class")
                Tests().test_body()
            else:
                with pt as m:
                    body(m)
        except (Leave, LeaveBase) as e:
            if e.k != k:
                raise
            propagated = True
        except Exception as e:
            if isinstance(e, ValueError) and str(e).startswith(("unknown op", "harness:")):
                raise
            if not state["entered"]:
                stats["enter_failed"] += 1
                skipped_block(i, k, exc_tok(e))
            else:
                closed(p)
                emit(ops[k], exc_tok(e))
            return
        closed(p)
        if exc:
            stats["exc_exits"] += 1
        emit(ops[k], "(exited %d)" % (1 if propagated else 0))

    try:
        exec_range(0, len(ops))
    finally:
        # leave nothing behind in unittest.mock's process-wide list of started patches
        for pt in reversed(list(patchers.values())):
            for _ in range(len(ops) + 2):
                try:
                    if pt.stop() is None:   # not (any longer) in the list of started patches
                        break
                except Exception:
                    continue                # it was removed from the list before __exit__ raised: try again
        if _active:
            del _active[:]
        sys.modules.pop(modname, None)
    lines.append("(end)")

    fam = case.get("family", "corpus")
    constructs = [o for o in ops if o[0] == "construct"]
    feats = ["family=" + fam, "targets=%d" % len([ts for ts in tspecs if "slot" not in ts]),
             "alternates=%d" % len([ts for ts in tspecs if "slot" in ts]),
             "patchers=%d" % len(constructs),
             "ops<=%d" % next(b for b in (8, 16, 32, 64, 10 ** 9) if len(ops) <= b),
             "depth=%s" % (min(stats["maxdepth"], 4) if stats["maxdepth"] < 8 else ">=8"),
             "exc_exits=%d" % min(stats["exc_exits"], 3), "enter_failed=%d" % min(stats["enter_failed"], 2),
             "rebinds=%d" % min(stats["rebinds"], 3), "entered_while_rebound=%d" % min(stats["entered_rebound"], 2)]
    feats += sorted({"op=" + o[0] + ("/" + o[2] if o[0] == "enter" else "") + ("/base" if o[0] == "exit" and o[2] == 2 else "")
                     for o in ops})
    feats += sorted({"repl=" + (o[3] if isinstance(o[3], str) else "newCallable%d" % o[3][1]) + (o[8] and "/" + o[8] or "")
                     + ("/autospecNone" if o[5] else "") for o in constructs})
    if any(share_of(o) is not None for o in constructs):
        feats.append("shared-replacement")
    feats += sorted({"behav=%s/%s" % (o[6][0], o[6][2] if len(o[6]) > 2 else
                                      {"ret": "plain", "raise": "exception"}.get(o[6][0], "asynq-call"))
                     for o in constructs})
    feats += sorted({"target=%s/%s/%s/%s%s" % (ts["kind"], ts["where"], ts["host"], ts["via"],
                                               "/alternate" if "slot" in ts else "") for ts in tspecs})
    if any(o[0] == "call" and any(a >= ARG_BASE for a in o[2] + [v for _, v in o[3]]) for o in ops):
        feats.append("args=exotic")
    if any(o[0] == "call" and any(kk >= KWN_BASE for kk, _ in o[3]) for o in ops):
        feats.append("kwargs=named")
    mx = max([len(o[2]) + len(o[3]) for o in ops if o[0] == "call"] or [0])
    feats.append("args<=%d" % next(b for b in (0, 2, 5, 20, 10 ** 9) if mx <= b))
    nontrivial = None
    if stats["entered"] >= 1 and (stats["calls_in_patch"] >= 1 or stats["maxdepth"] >= 2):
        nontrivial = hashlib.sha1(json.dumps([case["targets"], ops], sort_keys=True).encode()).hexdigest()[:16]
    return {"lines": lines, "features": feats, "nontrivial": nontrivial}
