"""C19  asynq.mock.patch replaces every calling convention and always restores.

Patch histories (construct / with-block / decorator / start / stop / stopall, nested and sequential, exits by
exception) on a fresh module + class + instance, run on the real asynq.mock.patch / patch.object; after every
operation the harness records the result and the identity of what every patched host holds, and for `call`
operations what each of the four calling conventions returned and which replacement ran with which arguments.
The Lean model (AsynqModel.Lib.Mock) replays the same history (correspondence) and the Lean observer
`Mock.spec` (the statement of C19, proved of the model for all histories) judges the implementation's
observations on their own."""
import hashlib
import json
import random

PID = "C19"
LEVEL = "proof"
LEAN_MODULES = ["AsynqModel.Theorems.C19"]
THEOREMS = [
    "AsynqModel.Mock.C19_restore",
    "AsynqModel.Mock.C19_store_tracks_innermost",
    "AsynqModel.Mock.C19_block_restores",
    "AsynqModel.Mock.C19_restore_nested_blocks",
    "AsynqModel.Mock.C19_restore_stopall",
    "AsynqModel.Mock.C19_conventions_agree",
    "AsynqModel.Mock.C19_enter_installs",
    "AsynqModel.Mock.C19_noncallable_as_is",
    "AsynqModel.Mock.C19_exception_propagates",
    "AsynqModel.Mock.C19_spec_holds_partial",
    "AsynqModel.Mock.C19_spec_holds_if_autospec_defaults_none",
    "AsynqModel.Mock.C19_new_callable_counterexample",
]
BUILDS = {"quick": ["py"], "thorough": ["py", "cy"]}
EXHAUSTIVE = {"quick": False, "thorough": True}
CASE_TIMEOUT = 20
RULE = ("exhaustive product target configuration (module function; method via instance / via class / patched on the "
        "instance; classmethod and staticmethod via class / via instance; plain attribute on module / class; absent "
        "attribute with and without create) x replacement kind (DEFAULT, function, classmethod object, staticmethod "
        "object, bound method, callable object, __slots__ callable, callable whose __setattr__ raises TypeError, "
        "non-callable object, non-callable int, new_callable callable / non-callable with autospec=None, new_callable "
        "with asynq's default autospec) x activation+exit (with normal / by exception, decorator normal / by exception, "
        "start+stop, start+stopall, start+stop+stop) x replacement returns / raises x patch() / patch.object(); "
        "exhaustive pairs of replacement kinds nested on one target in 6 nesting shapes; random histories over 1-3 "
        "targets and 1-6 patchers (nested / sequential / interleaved blocks, start/stop/stopall, calls with args and "
        "kwargs, ~12% deliberately ill-nested or misused). non-trivial = a history with at least one successful "
        "activation and a call observed inside it or two patches of one target open at once; distinct by case hash")
TRUSTED = [
    "hand-written Lean model AsynqModel.Lib.Mock tied to the code by this differential run only",
    "Python harness checks/c19.py (object <-> token identity registry, vars(host) peeks, recursive-descent "
    "realisation of with-blocks / decorators from the flat operation list)",
    "unittest.mock._patch (modelled by contract: __init__ checks, get_original, __enter__, __exit__, start, stop, "
    "stopall), CPython descriptor protocol / `with` semantics, asynq.decorators for `asynq(sync_fn=new)(new)`",
]
ASSUMPTIONS = [
    "replacement functions are ordinary (non-generator) callables; spec/spec_set/autospec=True/kwargs of patch are "
    "not exercised",
    "well-nestedness (per target LIFO, no re-entering an open patcher) is the hypothesis of the restore clause; "
    "ill-nested histories are still run and compared with the model but the observer claims nothing after them",
    "single thread; patch.dict / patch.multiple / class decoration are unittest.mock's own and out of scope",
]

UNKNOWN = 999999
INST_TOK = 900001
CLS_TOK = 900002

# (kind, where, host, via)
TARGET_CONFIGS = [
    ("func", "module", "loc", "plain"),       # module function
    ("func", "class", "loc", "inst"),         # method reached through an instance
    ("func", "class", "loc", "cls"),          # method reached through the class
    ("func", "instance", "inherited", "plain"),  # method patched on one instance (patch.object(obj, ...))
    ("cm", "class", "loc", "cls"),
    ("cm", "class", "loc", "inst"),
    ("sm", "class", "loc", "cls"),
    ("sm", "class", "loc", "inst"),
    ("attr", "module", "loc", "plain"),
    ("attr", "class", "loc", "inst"),
    ("attr", "module", "absent", "plain"),
]
# (repl, variant, autospecNone)
REPL_CONFIGS = [
    ("default", "", 0), ("func", "", 0), ("cmobj", "", 0), ("smobj", "", 0), ("bound", "", 0), ("callobj", "", 0),
    ("sealed", "slots", 0), ("sealed", "typeerr", 0), ("value", "plain", 0), ("value", "int", 0),
    (["newCallable", 1], "", 1), (["newCallable", 0], "", 1), (["newCallable", 1], "", 0), ("default", "", 1),
]
CORE_REPLS = [("default", "", 0), ("func", "", 0), ("cmobj", "", 0), ("smobj", "", 0), ("bound", "", 0),
              ("callobj", "", 0), ("sealed", "slots", 0), ("value", "plain", 0), (["newCallable", 1], "", 1)]
ACTIVATIONS = ["with", "with-exc", "deco", "deco-exc", "start-stop", "start-stopall", "start-stop-stop"]


def tgt(cfg):
    return {"kind": cfg[0], "where": cfg[1], "host": cfg[2], "via": cfg[3]}


def construct(p, t, rc, create, behav, api):
    return ["construct", p, t, rc[0], 1 if create else 0, rc[2], behav, api, rc[1]]


def activation_ops(p, act, inner):
    """the operations that activate patcher p around `inner` in the given style"""
    if act in ("with", "with-exc"):
        return [["enter", p, "with"]] + inner + [["exit", p, 1 if act.endswith("exc") else 0]]
    if act in ("deco", "deco-exc"):
        return [["enter", p, "deco"]] + inner + [["exit", p, 1 if act.endswith("exc") else 0]]
    if act == "start-stop":
        return [["start", p]] + inner + [["stop", p]]
    if act == "start-stopall":
        return [["start", p]] + inner + [["stopall"]]
    if act == "start-stop-stop":
        return [["start", p]] + inner + [["stop", p], ["stop", p]]
    raise ValueError(act)


def product_cases(tier):
    cases = []
    n = 0
    for tc in TARGET_CONFIGS:
        for rc in REPL_CONFIGS:
            for act in ACTIVATIONS:
                for bi, behav in enumerate((["ret", 11], ["raise", 2])):
                    n += 1
                    apis = ["patch", "object"] if tier == "thorough" else [["patch", "object"][n % 2]]
                    creates = [True, False] if tc[2] == "absent" else [False]
                    for api in apis:
                        for create in creates:
                            inner = [["call", 0, [1, 2], []], ["call", 0, [3], [[0, 4], [1, 5]]]]
                            ops = [construct(0, 0, rc, create, behav, api), ["peek"]]
                            ops += activation_ops(0, act, inner) + [["call", 0, [6], []]]
                            cases.append({"targets": [tgt(tc)], "ops": ops, "family": "product"})
    return cases


NEST_SHAPES = ["with/with", "with/start", "start/start-stopall", "start/start-lifo", "seq", "deco/with-exc"]


def nested_cases():
    cases = []
    i = 0
    for tc in (TARGET_CONFIGS[0], TARGET_CONFIGS[1], TARGET_CONFIGS[3]):
        for ra in CORE_REPLS:
            for rb in CORE_REPLS:
                for shape in NEST_SHAPES:
                    i += 1
                    call = [["call", 0, [i % 7], [[0, 1]] if i % 2 else []]]
                    pre = [construct(0, 0, ra, False, ["ret", 21], "patch"),
                           construct(1, 0, rb, False, ["ret", 22] if i % 3 else ["raise", 1], "object")]
                    if shape == "with/with":
                        body = activation_ops(0, "with", call + activation_ops(1, "with-exc" if i % 2 else "with", call) + call)
                    elif shape == "with/start":
                        body = activation_ops(0, "with", activation_ops(1, "start-stop", call) + call)
                    elif shape == "start/start-stopall":
                        body = [["start", 0]] + call + [["start", 1]] + call + [["stopall"]]
                    elif shape == "start/start-lifo":
                        body = [["start", 0], ["start", 1]] + call + [["stop", 1]] + call + [["stop", 0]]
                    elif shape == "seq":
                        body = activation_ops(0, "with", call) + activation_ops(1, "deco", call) + activation_ops(0, "start-stopall", call)
                    else:
                        body = activation_ops(0, "deco", call + activation_ops(1, "with-exc", call) + call)
                    cases.append({"targets": [tgt(tc)], "ops": pre + body + call, "family": "nested"})
    return cases


def gen_history(rng, malformed=False):
    nt = rng.choice([1, 1, 2, 2, 3])
    targets = [tgt(rng.choice(TARGET_CONFIGS)) for _ in range(nt)]
    np_ = rng.choice([1, 2, 2, 3, 3, 4, 5, 6])
    ops = []
    for p in range(np_):
        t = rng.randrange(nt) if rng.random() < 0.6 else 0
        rc = rng.choice(REPL_CONFIGS if rng.random() < 0.25 else CORE_REPLS)
        if rc[0] == ["newCallable", 1] and rc[2] == 0 and rng.random() < 0.7:
            rc = (["newCallable", 1], "", 1)
        create = targets[t]["host"] == "absent" and rng.random() < 0.8
        behav = ["ret", 10 + p] if rng.random() < 0.8 else ["raise", 1 + p % 3]
        ops.append(construct(p, t, rc, create, behav, rng.choice(["patch", "object"])))
    started = []   # patchers started and (as far as the generator knows) still active

    def rand_call():
        t = rng.randrange(nt)
        args = [rng.randint(0, 9) for _ in range(rng.choice([0, 1, 1, 2, 3]))]
        kw = [[k, rng.randint(0, 9)] for k in range(rng.choice([0, 0, 1, 2]))]
        return ["call", t, args, kw]

    def seq(depth, open_, budget):
        out = []
        n = rng.choice([1, 2, 2, 3, 4]) if depth == 0 else rng.choice([0, 1, 1, 2, 3])
        for _ in range(n):
            if budget[0] <= 0:
                break
            budget[0] -= 1
            r = rng.random()
            free = [p for p in range(np_) if p not in open_ and p not in started]
            if r < 0.35 and free and depth < 4:
                p = rng.choice(free)
                style = rng.choice(["with", "with", "deco"])
                out.append(["enter", p, style])
                mark = len(started)
                out.extend(seq(depth + 1, open_ + [p], budget))
                # patches started inside a block mostly end before the block does (keeps the history well nested)
                late = []
                while len(started) > mark:
                    q = started.pop()
                    if rng.random() < 0.9:
                        out.append(["stop", q])
                    else:
                        late.append(q)
                out.append(["exit", p, 1 if rng.random() < 0.35 else 0])
                started.extend(reversed(late))
            elif r < 0.5 and free:
                p = rng.choice(free)
                out.append(["start", p])
                started.append(p)
            elif r < 0.6 and started:
                out.append(["stop", started.pop()])      # LIFO
            elif r < 0.65 and started and depth == 0:
                out.append(["stopall"])
                del started[:]
            elif r < 0.9:
                out.append(rand_call())
            else:
                out.append(["peek"])
        return out

    budget = [rng.choice([4, 8, 12, 20, 30])]
    body = seq(0, [], budget)
    ops.extend(body)
    if started:
        if rng.random() < 0.5:
            ops.append(["stopall"])
        else:
            for p in reversed(started):
                ops.append(["stop", p])
        del started[:]
    ops.append(rand_call())
    if malformed:
        ops = mutate_ops(rng, ops, np_)
    return {"targets": targets, "ops": ops, "family": "malformed" if malformed else "random"}


def mutate_ops(rng, ops, np_):
    """ill-nested / misused histories: the bracket structure of enter/exit is kept, everything else may move"""
    ops = [list(o) for o in ops]
    for _ in range(rng.choice([1, 1, 2, 3])):
        k = rng.random()
        p = rng.randrange(np_)
        pos = rng.randint(np_, len(ops))
        if k < 0.3:
            ops.insert(pos, ["stop", p])
        elif k < 0.55:
            ops.insert(pos, ["start", p])
        elif k < 0.7:
            ops.insert(pos, ["stopall"])
        elif k < 0.85:
            # a block of p wrapped around a random op position (may nest p inside itself)
            ops.insert(pos, ["enter", p, rng.choice(["with", "deco"])])
            ops.insert(pos + 1, ["exit", p, rng.randint(0, 1)])
        else:
            simple = [i for i, o in enumerate(ops) if o[0] in ("start", "stop")]
            if len(simple) >= 2:
                i, j = rng.sample(simple, 2)
                ops[i], ops[j] = ops[j], ops[i]
    return ops


def corpus():
    import glob
    import os
    res = []
    d = os.path.join(os.path.dirname(os.path.dirname(os.path.dirname(os.path.abspath(__file__)))), "corpus", PID)
    for p in sorted(glob.glob(os.path.join(d, "*.json"))):
        with open(p) as f:
            res.append(json.load(f))
    return res


def plan(tier, seed):
    rng = random.Random(seed * 1000003 + 19)
    cases = corpus() + product_cases(tier) + nested_cases()
    n = 1200 if tier == "quick" else 20000
    for i in range(n):
        cases.append(gen_history(rng, malformed=(i % 8 == 7)))
    return cases


def _matching(ops):
    """index of the exit that closes each enter (with-blocks nest like parentheses); None if ill-formed"""
    stack, match = [], {}
    for i, o in enumerate(ops):
        if o[0] == "enter":
            stack.append(i)
        elif o[0] == "exit":
            if not stack or ops[stack[-1]][1] != o[1]:
                return None
            match[stack.pop()] = i
    return None if stack else match


def shrink(case):
    ops = case["ops"]
    match = _matching(ops)
    if match is None:
        return
    closing = set(match.values())

    def mk(new_ops):
        return {"targets": case["targets"], "ops": new_ops, "family": case.get("family", "")}

    # drop a whole block, unwrap a block, drop a single non-bracket operation
    for i, j in sorted(match.items()):
        yield mk(ops[:i] + ops[j + 1:])
    for i, j in sorted(match.items()):
        yield mk(ops[:i] + ops[i + 1:j] + ops[j + 1:])
    for i, o in enumerate(ops):
        if o[0] not in ("enter", "exit") and i not in closing:
            yield mk(ops[:i] + ops[i + 1:])
    # the plainest target configuration
    plain = tgt(TARGET_CONFIGS[0])
    for i, ts in enumerate(case["targets"]):
        if ts != plain and not any(o[0] == "construct" and o[2] == i and o[4] for o in ops):
            yield {"targets": case["targets"][:i] + [plain] + case["targets"][i + 1:], "ops": ops,
                   "family": case.get("family", "")}
    # fewer arguments in calls
    for i, o in enumerate(ops):
        if o[0] == "call" and (o[2] or o[3]):
            yield mk(ops[:i] + [["call", o[1], [], []]] + ops[i + 1:])


def neighbours(case, rng):
    np_ = 1 + max([o[1] for o in case["ops"] if o[0] == "construct"] or [0])
    for rc in REPL_CONFIGS:
        ops = [list(o) for o in case["ops"]]
        for o in ops:
            if o[0] == "construct" and rng.random() < 0.6:
                o[3], o[8], o[5] = rc[0], rc[1], rc[2]
        yield {"targets": case["targets"], "ops": ops, "family": "neighbour"}
    for tc in TARGET_CONFIGS:
        yield {"targets": [tgt(tc) for _ in case["targets"]], "ops": case["ops"], "family": "neighbour"}
    for _ in range(16):
        yield {"targets": case["targets"], "ops": mutate_ops(rng, case["ops"], np_), "family": "neighbour"}


def signature(case, v):
    """WHAT fails: the spec clause; for a failing construction also whether it is the modelled defect (the first
    new_callable patcher with asynq's default autospec, at a point where model and implementation still agree)"""
    import re
    clause = v.get("spec", "ok")
    extra = ""
    if clause.startswith("fail:construct@"):
        nc = [i for i, o in enumerate(case["ops"]) if o[0] == "construct" and isinstance(o[3], list) and not o[5]]
        m = re.match(r"obs (\d+):", v.get("detail", "") or "")
        first_diff = int(m.group(1)) if m else None
        agree = v.get("corr") == "ok" or (first_diff is not None and nc and first_diff > nc[0])
        extra = "/new_callable-with-default-autospec" if (nc and agree) else "/other"
    return "%s%s" % (clause, extra)


# ---------------------------------------------------------------------------------------------------
# implementation side
# ---------------------------------------------------------------------------------------------------

class UserErr(Exception):
    pass


class Leave(Exception):
    """raised by the harness at the end of a block that is to be left by exception"""

    def __init__(self, k):
        Exception.__init__(self, "leave block %d" % k)
        self.k = k


class Plain(object):
    """a non-callable object"""


_MISSING = object()
_world_counter = [0]


def run_case(case):
    import asyncio
    import inspect
    import sys
    import types
    from unittest import mock

    import asynq
    import asynq.decorators

    ops = case["ops"]
    match = _matching(ops)
    if match is None:
        raise ValueError("ill-formed block structure in case")
    # isolation between cases of one worker process: unittest.mock keeps started patches in a process-wide list
    # (stdlib internals, touched for hygiene only - never to observe)
    _active = getattr(getattr(mock, "_patch", None), "_active_patches", None)
    if _active:
        del _active[:]
    _world_counter[0] += 1
    modname = "c19_world_%d" % _world_counter[0]
    mod = types.ModuleType(modname)
    sys.modules[modname] = mod

    class Svc(object):
        pass

    inst = Svc()
    mod.Svc = Svc
    mod.inst = inst

    errs = {e: UserErr("e%d" % e) for e in range(0, 8)}
    err_tok = {id(e): k for k, e in errs.items()}
    log = []          # (callee token string, args, kwargs) of every user-level callable that ran
    ident = {}        # id(object) -> token s-expression (without tag) ; keeps objects alive through `keep`
    keep = []

    def arg_tok(a):
        if a is inst:
            return INST_TOK
        if a is Svc:
            return CLS_TOK
        if isinstance(a, int) and not isinstance(a, bool) and 0 <= a < 900000:
            return a
        return UNKNOWN

    def do(callee, behav, a, k):
        log.append("(%s (%s) (%s))" % (callee, " ".join(str(arg_tok(x)) for x in a),
                                       " ".join("(%s %d)" % (kk[1:] if kk[:1] == "k" and kk[1:].isdigit() else UNKNOWN,
                                                             arg_tok(vv)) for kk, vv in k.items())))
        if behav[0] == "raise":
            raise errs[behav[1]]
        return behav[1]

    # ---- the world: targets -------------------------------------------------------------------
    hosts = []
    for t, ts in enumerate(case["targets"]):
        name = "a%d" % t
        kind, where, host = ts["kind"], ts["where"], ts["host"]
        behav = ["ret", 7000 + t]
        callee = "(orig %d)" % t

        def plain_fn(*a, _c=callee, _b=behav, **k):
            return do(_c, _b, a, k)

        if kind == "func":
            obj = asynq.asynq()(plain_fn)
        elif kind == "cm":
            obj = asynq.asynq()(classmethod(plain_fn))
        elif kind == "sm":
            obj = asynq.asynq()(staticmethod(plain_fn))
        else:
            obj = Plain()
        keep.append(obj)
        ident[id(obj)] = "(orig %d)" % t
        if where == "module":
            hobj, path = mod, "%s.%s" % (modname, name)
            if host == "loc":
                setattr(mod, name, obj)
        elif where == "class":
            hobj, path = Svc, "%s.Svc.%s" % (modname, name)
            if host == "loc":
                setattr(Svc, name, obj)
        else:
            hobj, path = inst, "%s.inst.%s" % (modname, name)
            if host == "inherited":
                setattr(Svc, name, obj)
        via = ts["via"]
        if via == "cls":
            getter = (lambda n=name: getattr(Svc, n))
        elif via == "inst" or where == "instance":
            getter = (lambda n=name: getattr(inst, n))
        else:
            getter = (lambda n=name: getattr(mod, n))
        hosts.append((hobj, name, path, getter))

    patchers = {}
    specs = {}
    made = {}         # p -> list of objects made for p (in order of first appearance)
    fresh = set()     # ids of objects produced by a new_callable factory

    def tok(o):
        """token of an object found in a host's __dict__ / returned by __enter__"""
        s = ident.get(id(o))
        if s is not None:
            return s
        for p, lst in made.items():
            for n, x in enumerate(lst):
                if x is o:
                    if id(o) in fresh:
                        tag = "fresh"
                    elif isinstance(o, mock.NonCallableMock):
                        tag = "mock"
                    elif isinstance(o, asynq.decorators.AsyncDecorator):
                        tag = "pair"
                    else:
                        tag = "wrapper"
                    return "(made %d %d %s)" % (p, n, tag)
        return "(unknown)"

    def callee_tok(p, o):
        for n, x in enumerate(made.get(p, [])):
            if x is o:
                return "(made %d %d)" % (p, n)
        return "(unknown)"

    def peeks():
        out = []
        for hobj, name, _, _ in hosts:
            v = vars(hobj).get(name, _MISSING)
            out.append("none" if v is _MISSING else tok(v))
        return "(%s)" % " ".join(out)

    def exc_tok(e):
        if id(e) in err_tok:
            return "(raised user %d)" % err_tok[id(e)]
        if isinstance(e, TypeError):
            return "(raised typeError)"
        if isinstance(e, AttributeError):
            return "(raised attributeError)"
        if isinstance(e, ValueError):
            return "(raised valueError)"
        return "(raised other %s)" % type(e).__name__

    def default_is_none(fn):
        # data read from the code on every run: the default of `autospec` in the signature (unittest.mock's is None)
        try:
            return 1 if inspect.signature(fn).parameters["autospec"].default is None else 0
        except (KeyError, TypeError, ValueError):
            return 0

    lines = ["(case mock %d (targets %s) (defaults %d %d))" % (
        case["id"], " ".join("(tgt %s %s %s)" % (ts["kind"], ts["host"], ts["via"]) for ts in case["targets"]),
        default_is_none(asynq.mock.patch), default_is_none(asynq.mock.patch.object))]
    stats = {"entered": 0, "calls_in_patch": 0, "maxdepth": 0, "exc_exits": 0, "enter_failed": 0}
    open_targets = []

    def op_sexp(op):
        k = op[0]
        if k == "construct":
            r = op[3]
            rs = r if isinstance(r, str) else "(newCallable %d)" % r[1]
            return "(construct %d %d %s %d %d %d (%s %d))" % (op[1], op[2], rs, op[4], op[5],
                                                              1 if op[7] == "object" else 0, op[6][0], op[6][1])
        if k == "enter":
            return "(enter %d)" % op[1]
        if k == "exit":
            return "(exit %d %d)" % (op[1], op[2])
        if k in ("start", "stop"):
            return "(%s %d)" % (k, op[1])
        if k == "call":
            return "(call %d (%s) (%s))" % (op[1], " ".join(str(a) for a in op[2]),
                                            " ".join("(%d %d)" % (kk, vv) for kk, vv in op[3]))
        return "(%s)" % k

    def emit(op, res):
        lines.append("(obs %s %s %s)" % (op_sexp(op), res, peeks()))

    # ---- replacements ---------------------------------------------------------------------------
    def make_new(p, spec):
        """the keyword arguments for patch() that realise replacement kind spec['repl']"""
        repl, variant, behav = spec["repl"], spec["variant"], spec["behav"]
        given = "(given %d)" % p

        def fn(*a, **k):
            return do(given, behav, a, k)

        if repl == "default":
            return {}
        if isinstance(repl, list):
            callable_ = bool(repl[1])

            def factory(**kw):
                if callable_:
                    class Made(object):
                        def __call__(self, *a, **k):
                            return do(callee_tok(p, self), behav, a, k)
                    o = Made()
                else:
                    o = Plain()
                keep.append(o)
                fresh.add(id(o))
                return o
            return {"new_callable": factory}
        if repl == "func":
            new = fn
        elif repl == "cmobj":
            new = classmethod(fn)
        elif repl == "smobj":
            new = staticmethod(fn)
        elif repl == "bound":
            class Holder(object):
                def bm(self, *a, **k):
                    return do(given, behav, a, k)
            new = Holder().bm
        elif repl == "callobj":
            class CallObj(object):
                def __call__(self, *a, **k):
                    return do(given, behav, a, k)
            new = CallObj()
        elif repl == "sealed":
            if variant == "typeerr":
                class Sealed(object):
                    __slots__ = ()

                    def __setattr__(self, k, v):
                        raise TypeError("no attributes on this extension type")

                    def __call__(self, *a, **k):
                        return do(given, behav, a, k)
            else:
                class Sealed(object):
                    __slots__ = ()

                    def __call__(self, *a, **k):
                        return do(given, behav, a, k)
            new = Sealed()
        elif repl == "value":
            new = (10 ** 9 + p) if variant == "int" else Plain()
        else:
            raise ValueError(repl)
        keep.append(new)
        ident[id(new)] = given
        return {"new": new}

    def after_enter(p, obj):
        """register what __enter__ returned; give a DEFAULT mock its behaviour"""
        stats["entered"] += 1
        if id(obj) not in ident:
            lst = made.setdefault(p, [])
            if not any(x is obj for x in lst):
                lst.append(obj)
                keep.append(obj)
        spec = specs[p]
        if spec["repl"] == "default" and isinstance(obj, mock.NonCallableMock):
            ct = callee_tok(p, obj)
            behav = spec["behav"]
            obj.side_effect = lambda *a, **k: do(ct, behav, a, k)
        t = spec["target"]
        open_targets.append(t)
        stats["maxdepth"] = max(stats["maxdepth"], open_targets.count(t))
        return "(entered %s)" % tok(obj)

    def closed(p):
        t = specs[p]["target"]
        if t in open_targets:
            open_targets.remove(t)

    # ---- operations --------------------------------------------------------------------------------
    skip = [0]

    def do_simple(op):
        k = op[0]
        if skip[0]:
            emit(op, "(skipped)")
            return
        try:
            if k == "construct":
                p, t = op[1], op[2]
                if p in patchers:
                    res = "(skipped)"
                else:
                    spec = {"target": t, "repl": op[3], "create": op[4], "an": op[5], "behav": op[6], "api": op[7],
                            "variant": op[8] if len(op) > 8 else ""}
                    kw = make_new(p, spec)
                    if spec["create"]:
                        kw["create"] = True
                    if spec["an"]:
                        kw["autospec"] = None
                    hobj, name, path, _ = hosts[t]
                    if spec["api"] == "object":
                        pt = asynq.mock.patch.object(hobj, name, **kw)
                    else:
                        pt = asynq.mock.patch(path, **kw)
                    patchers[p] = pt
                    specs[p] = spec
                    res = "(made)"
            elif k == "start":
                pt = patchers.get(op[1])
                if pt is None:
                    res = "(noPatcher)"
                else:
                    res = after_enter(op[1], pt.start())
            elif k == "stop":
                pt = patchers.get(op[1])
                if pt is None:
                    res = "(noPatcher)"
                else:
                    r = pt.stop()
                    if r is None:
                        res = "(notActive)"
                    else:
                        res = "(stopped)"
                        closed(op[1])
            elif k == "stopall":
                asynq.mock.patch.stopall()
                del open_targets[:]
                res = "(unit)"
            elif k == "call":
                res = do_call(op)
            elif k == "peek":
                res = "(unit)"
            else:
                raise ValueError("unknown op %r" % (op,))
        except Exception as e:  # the outcome of the operation, not a harness failure
            if isinstance(e, ValueError) and str(e).startswith("unknown op"):
                raise
            if k == "start":
                stats["enter_failed"] += 1
            res = exc_tok(e)
        emit(op, res)

    def do_call(op):
        t, args, kwl = op[1], op[2], op[3]
        kw = {"k%d" % kk: vv for kk, vv in kwl}
        get = hosts[t][3]
        if t in open_targets:
            stats["calls_in_patch"] += 1

        def sync():
            return get()(*args, **kw)

        def value():
            return get().asynq(*args, **kw).value()

        def yield_():
            @asynq.asynq()
            def task():
                return (yield get().asynq(*args, **kw))
            return task()

        def asyncio_():
            return asyncio.run(get().asyncio(*args, **kw))

        out = []
        for f in (sync, value, yield_, asyncio_):
            del log[:]
            try:
                r = f()
                o = "(ok %d)" % (r if isinstance(r, int) and not isinstance(r, bool) and 0 <= r < 900000 else UNKNOWN)
            except Exception as e:
                o = exc_tok(e)
            out.append("(%s (%s))" % (o, " ".join(log)))
        del log[:]
        return "(called %s)" % " ".join(out)

    def exec_range(i, j):
        while i < j:
            if ops[i][0] == "enter":
                k = match[i]
                do_block(i, k)
                i = k + 1
            else:
                do_simple(ops[i])
                i += 1

    def skipped_block(i, k, first):
        emit(ops[i], first)
        skip[0] += 1
        try:
            exec_range(i + 1, k)
        finally:
            skip[0] -= 1
        emit(ops[k], "(skipped)")

    def do_block(i, k):
        op, p, style, exc = ops[i], ops[i][1], ops[i][2], ops[k][2]
        if skip[0]:
            skipped_block(i, k, "(skipped)")
            return
        pt = patchers.get(p)
        if pt is None:
            skipped_block(i, k, "(noPatcher)")
            return
        state = {"entered": False}

        def body(m):
            state["entered"] = True
            emit(op, after_enter(p, m))
            exec_range(i + 1, k)
            if exc:
                raise Leave(k)

        propagated = False
        try:
            if style == "deco":
                @pt
                def decorated(*extra):
                    hobj, name, _, _ = hosts[specs[p]["target"]]
                    body(extra[0] if extra else vars(hobj).get(name, _MISSING))
                decorated()
            else:
                with pt as m:
                    body(m)
        except Leave as e:
            if e.k != k:
                raise
            propagated = True
        except Exception as e:
            if not state["entered"]:
                stats["enter_failed"] += 1
                skipped_block(i, k, exc_tok(e))
            else:
                closed(p)
                emit(ops[k], exc_tok(e))
            return
        closed(p)
        if exc:
            stats["exc_exits"] += 1
        emit(ops[k], "(exited %d)" % (1 if propagated else 0))

    try:
        exec_range(0, len(ops))
    finally:
        # leave nothing behind in unittest.mock's process-wide list of started patches
        for pt in reversed(list(patchers.values())):
            for _ in range(len(ops) + 2):
                try:
                    if pt.stop() is None:   # not (any longer) in the list of started patches
                        break
                except Exception:
                    continue                # it was removed from the list before __exit__ raised: try again
        if _active:
            del _active[:]
        sys.modules.pop(modname, None)
    lines.append("(end)")

    fam = case.get("family", "corpus")
    feats = ["family=" + fam, "targets=%d" % len(case["targets"]),
             "patchers=%d" % len([o for o in ops if o[0] == "construct"]),
             "ops<=%d" % next(b for b in (8, 16, 32, 64, 10 ** 9) if len(ops) <= b),
             "depth=%d" % min(stats["maxdepth"], 4),
             "exc_exits=%d" % min(stats["exc_exits"], 3), "enter_failed=%d" % min(stats["enter_failed"], 2)]
    feats += sorted({"op=" + o[0] + ("/" + o[2] if o[0] == "enter" else "") for o in ops})
    feats += sorted({"repl=" + (o[3] if isinstance(o[3], str) else "newCallable%d" % o[3][1]) + (o[8] and "/" + o[8] or "")
                     + ("/autospecNone" if o[5] else "") for o in ops if o[0] == "construct"})
    feats += sorted({"target=%s/%s/%s/%s" % (ts["kind"], ts["where"], ts["host"], ts["via"]) for ts in case["targets"]})
    nontrivial = None
    if stats["entered"] >= 1 and (stats["calls_in_patch"] >= 1 or stats["maxdepth"] >= 2):
        nontrivial = hashlib.sha1(json.dumps([case["targets"], ops], sort_keys=True).encode()).hexdigest()[:16]
    return {"lines": lines, "features": feats, "nontrivial": nontrivial}
