"""C11  Batch lifecycle: pending to flushed or cancelled, once; no item left pending.

Histories of operations (add item / add item to a given batch / flush / cancel with or without error /
item.value() / batch.value() / batch.error() / state queries) on one batch kind with an "active batch" slot,
run on the real classes: a BatchBase/BatchItemBase subclass pair written here whose `_flush` interprets a
script (set all / some / no items, set item errors, raise Exception or BaseException, issue new requests
while flushing), and the built-in DebugBatch / DebugBatchItem (also through `asynq.batching.sync`).  Items may carry
on_computed handlers that issue new requests (`spawn`) or complete a pending sibling item (`link`, chains allowed),
so an item can get completed by somebody else while the library walks the batch's items.  Values and errors are
tokens for objects with unusual behaviour (None, falsy, raising __eq__/__bool__/__repr__, exceptions of classes the
library knows, BaseException-only errors); a case may switch debug options on (KEEP_DEPENDENCIES is part of the model,
the DUMP_* / profiling options must not change anything); batches of 17 - 300 items form a family of their own.
The family `reenter` (a flush body or a completion handler that cancels the batch it is called from) lies outside the
model: it is sent to the driver in mode `batchingx` and judged by the observer (mode rx) and a direct expectation only.

What the harness logs per operation: the result (or the exception it raised), in order every hook event - start of
the harness `_flush` with the active batch seen at that moment (`body`), its end with what it raised and whether the
batch was still pending (`bodyEnd`), every on_computed of an item with the outcome peeked and who set it (`item`),
every item construction (`created`), every on_computed of a batch with its items that are pending at that moment
(`announce`) - and a full read-only snapshot of all batches and items afterwards.

The Lean model (AsynqModel.Lib.Batching) replays the same history and scripts (correspondence: all of the above must
be equal) and the Lean observer `Batching.spec` (the statement of C11, proved of the model for all histories and all
scripts: C11_spec_holds) judges the implementation's observations on their own: result of the operation, which batch
the operation had to finish and how (`fate`: flush = body runs exactly once and decides the outcome, cancel = body
does not run), exactly one event per change of the snapshot and no other, order (body first, no completion of an item
of the batch after its announcement), fresh batch iff the finished batch held the slot, KEEP_DEPENDENCIES, single
assignment, and the invariant `Good` (no item of a finished batch pending)."""
import hashlib
import json
import random

PID = "C11"
LEVEL = "proof"
LEAN_MODULES = ["AsynqModel.Theorems.C11"]
THEOREMS = [
    # headline: the observer accepts every history of the model; the invariant; the inductive step for EVERY snapshot
    # inside the invariant (hypothesis `Good s`, decidable - weaker than reachability)
    "AsynqModel.Batching.C11_spec_holds",
    "AsynqModel.Batching.C11_no_item_left_pending",
    "AsynqModel.Batching.C11_step_accepted",
    # per clause of the property text, all with the single hypothesis `Good s`
    "AsynqModel.Batching.C11_once",
    "AsynqModel.Batching.C11_flushed",
    "AsynqModel.Batching.C11_flush",
    "AsynqModel.Batching.C11_item_value_flushes",
    "AsynqModel.Batching.C11_batch_value_flushes",
    "AsynqModel.Batching.C11_cancel",
    "AsynqModel.Batching.C11_quiet",
    "AsynqModel.Batching.C11_no_add_after_finish",
    "AsynqModel.Batching.C11_every_change_logged_once",
    "AsynqModel.Batching.C11_items_before_announce",
    "AsynqModel.Batching.C11_fresh_batch_during_flush",
    "AsynqModel.Batching.C11_set_outcome_kept",
    "AsynqModel.Batching.completeItem_fuel_enough",
    # necessity of the hypothesis `Good s` (machine-checked witness)
    "AsynqModel.Batching.C11_invariant_needed",
    # holds by construction of the model (one unfolding, any state): listed for the axiom audit only, the content of
    # this clause is the correspondence check
    "AsynqModel.Batching.C11_second_flush_error",
]
BY_CONSTRUCTION = [
    "AsynqModel.Batching.C11_second_flush_error",
    "first conjunct of C11_flush / C11_cancel (`returns normally`): the model has no exception channel out of "
    "flush()/cancel(); what is proved with content is the rest of these statements",
]
BUILDS = {"quick": ["py"], "thorough": ["py", "cy"]}
RULE = ("systematic core (both batch kinds x 14 flush-script templates x 7 ways of finishing a batch x 6 ways of filling it "
        "- 3 of them with sibling-completing handlers: forward, backward, chain - each followed by the protocol-error "
        "probes: second flush, cancel after finish, add to finished batch, item/batch reads); the same core under every "
        "debug option that batching.py reads; a size family (17/40/100 items, thorough also 300, handlers on every 3rd "
        "item); plus random histories (1-24 ops over add/addTo/flush/cancel(+-error)/item.value/batch.value/batch.error/"
        "queries, random scripts per batch, 20 % of the items with a spawn handler, 30 % with a link handler, 8 % with "
        "value None, 22 % of the cases under 1-3 debug options, a small stream of operations on non-existent tokens); "
        "family reenter (systematic 11 bodies x 6 finishers x 3 fillings + 500 random histories with self-cancelling bodies "
        "/ cancelling handlers; thorough 6000); "
        "non-trivial = a batch with at least one item finishes and the history has >= 3 operations; distinct by "
        "(kind, options, scripts, history) hash")
TRUSTED = [
    "hand-written Lean model AsynqModel.Lib.Batching tied to the code by this differential run only",
    "Python harness checks/c11.py (token <-> object identity mapping, read-only snapshot after each operation, "
    "hooks: on_computed of every batch and item, the harness subclass's _flush incl. what it raised)",
    "qcore.EventHook.safe_trigger, qcore.errors.reraise",
    "family `reenter` (mode batchingx): the expectation written in lean/AsynqModel/Drv/Batching.lean handleX and the "
    "observer's relaxed mode rx",
]
ASSUMPTIONS = [
    "flush bodies are the scripted ones (set value/error of own items, create requests, raise); they do not re-enter "
    "flush()/value() of their own or another batch; cancelling the batch being flushed (from the body or from a "
    "completion handler) happens only in the family `reenter`, which is outside the model: no theorem speaks about it, "
    "it is judged by the observer Batching.specClause in mode rx (the outcome found at the end of the body stands; the "
    "outcome of a DebugBatch is not judged) plus the direct expectation in Drv/Batching.lean handleX",
    "the protected hooks of the subclass other than _flush do not raise: `_cancel()` is `pass` in the harness subclass "
    "(DebugBatch._cancel only writes a debug line), `_try_switch_active_batch()` only installs a fresh batch "
    "(its docstring: 'Must never throw an error').  A `_cancel()` that raises makes cancel() - and flush() of a failing "
    "body - raise, leaves the batch finished with its items pending for ever and unannounced, and item.value() return "
    "the internal marker (batching.py:118-134; reproduced, see INTEGRATION.md A7): the property text quantifies over "
    "what FLUSH BODIES do, so this lies outside the statement; neither model nor generator contain it",
    "on_computed handlers of items only log, issue new requests and complete pending items of the SAME batch; handlers "
    "that raise are C10's subject; handlers that re-enter flush()/cancel()/value() of a batch are not generated",
    "of the debug options only KEEP_DEPENDENCIES exists in the model; DUMP_FLUSH_BATCH, DUMP_STACK, DUMP_SYNC, "
    "DUMP_COMPUTED, DUMP_DEPENDENCIES, COLLECT_PERF_STATS are expected to change nothing observable; single thread",
    "for DebugBatch the flush body itself cannot be hooked through public API: its runs are observed through the "
    "item completions only (run counter fixed to 0, no body/bodyEnd events; the observer then demands the outcome "
    "None or FutureIsAlreadyComputed)",
    "`flush()` / `cancel()` return normally: true of the model by construction (no exception channel); for the "
    "implementation it is the observer's clauses flush-total / cancel-total on the recorded result",
]
CASE_TIMEOUT = 20
UNKNOWN = 999999
KINDS = ["user", "debug"]

TEMPLATES = [
    [["setAll"]],
    [],
    [["setValue", 0, 1]],
    [["setValue", 1, 2], ["setError", 0, 1]],
    [["setError", 0, 6], ["setValue", 2, 3]],
    [["setAll"], ["raise", 1]],
    [["raise", 2]],
    [["raise", 5]],
    [["setValue", 0, 1], ["raise", 6]],
    [["newItem", 4], ["setAll"]],
    [["setAll"], ["newItem", 4], ["newItem", 5]],
    [["setValue", 0, 1], ["newItem", 4], ["raise", 5]],
    [["setValue", 0, 1], ["setValue", 0, 2]],
    [["setError", 1, 2], ["setAll"], ["newItem", 3]],
]


def gen_script(rng):
    if rng.random() < 0.5:
        return [list(a) for a in rng.choice(TEMPLATES)]
    acts = []
    for _ in range(rng.choice([0, 1, 1, 2, 2, 3, 4])):
        w = rng.choices(["setValue", "setError", "setAll", "newItem", "raise"], weights=[4, 2, 2, 2, 1])[0]
        if w == "setValue":
            acts.append([w, rng.randint(0, 3), rng.randint(0, 5)])
        elif w == "setError":
            acts.append([w, rng.randint(0, 3), rng.randint(1, 8)])
        elif w == "setAll":
            acts.append([w])
        elif w == "newItem":
            acts.append([w, rng.randint(1, 9)])
        else:
            acts.append([w, rng.randint(1, 8)])
    return acts


OPTS = ["KEEP_DEPENDENCIES", "DUMP_FLUSH_BATCH", "DUMP_STACK", "DUMP_SYNC", "DUMP_COMPUTED", "DUMP_DEPENDENCIES",
        "COLLECT_PERF_STATS"]


def gen_link(rng):
    """[target item (global creation index), is_error, token]"""
    if rng.random() < 0.3:
        return [rng.choice([0, 0, 1, 1, 2, 2, 3, 4, 5, 7]), 1, rng.randint(1, 8)]
    return [rng.choice([0, 0, 1, 1, 2, 2, 3, 4, 5, 7]), 0, rng.randint(0, 9)]


def gen_op(rng):
    w = rng.choices(
        ["add", "addTo", "flush", "cancel", "itemValue", "batchValue", "batchError",
         "isFlushed", "isCancelled", "isEmpty", "itemComputed"],
        weights=[12, 2, 6, 4, 6, 2, 2, 1, 1, 1, 1])[0]
    k = rng.choice([0, 0, 0, 0, 1, 1, 2, 3, 5])
    if rng.random() < 0.01:
        k = 1000 + rng.randint(0, 50)  # malformed stream: a token that does not exist
    if w == "add":
        return [w, 0 if rng.random() < 0.08 else rng.randint(1, 9), rng.randint(1, 9) if rng.random() < 0.2 else None,
                gen_link(rng) if rng.random() < 0.3 else None]
    if w == "addTo":
        return [w, k, rng.randint(1, 9)]
    if w == "cancel":
        return [w, k, rng.randint(1, 8) if rng.random() < 0.5 else None]
    return [w, k]


def gen_case(rng, size=None):
    n = size if size is not None else rng.choice([1, 2, 3, 4, 5, 6, 8, 10, 12, 16, 20, 24])
    c = {"kind": rng.choice(KINDS), "scripts": [gen_script(rng) for _ in range(rng.choice([1, 2, 3, 6]))],
         "ops": [gen_op(rng) for _ in range(n)]}
    if rng.random() < 0.22:
        c["opts"] = sorted(rng.sample(OPTS, rng.choice([1, 1, 2, 3])))
    if c["kind"] == "debug":
        c["pre"] = rng.choice(["flush", "flush", "cancel", "value"])
    return c


def corpus():
    import glob
    import os
    res = []
    d = os.path.join(os.path.dirname(os.path.dirname(os.path.dirname(os.path.abspath(__file__)))), "corpus", PID)
    for p in sorted(glob.glob(os.path.join(d, "*.json"))):
        with open(p) as f:
            res.append(json.load(f))
    return res


FINISHERS = [["flush", 0], ["cancel", 0, None], ["cancel", 0, 3], ["cancel", 0, 7], ["itemValue", 1], ["batchValue", 0],
             ["batchError", 0]]
# after the finisher the finished batch is the second newest one (k = 1)
PROBES = [["itemComputed", 0], ["itemValue", 0], ["itemValue", 1], ["itemValue", 2], ["flush", 1], ["cancel", 1, None],
          ["cancel", 1, 2], ["addTo", 1, 7], ["isFlushed", 1], ["isCancelled", 1], ["isEmpty", 1], ["batchValue", 1],
          ["batchError", 1], ["add", 8, None], ["isFlushed", 0], ["itemValue", 0], ["flush", 1], ["flush", 0], ["flush", 1]]


ADDS = [
    [["add", 1, None, None], ["add", 2, 9, None], ["add", 3, None, None]],
    [["add", 1, 2, None]],
    [],
    # handlers that complete a sibling: forward (an earlier item completes a later one) ...
    [["add", 1, None, [1, 0, 5]], ["add", 2, 9, None], ["add", 0, None, None]],
    # ... backward (a later item completes an earlier one: fires when the later one is completed first) ...
    [["add", 1, None, None], ["add", 2, None, [0, 1, 2]], ["add", 3, None, [1, 0, 0]]],
    # ... and a chain 0 -> 1 -> 2 -> 0 with a request issued on the way
    [["add", 1, None, [1, 0, 4]], ["add", 2, None, [2, 1, 6]], ["add", 3, 4, [0, 0, 7]], ["add", 5, None, None]],
]


def _case(kind, t, fin, adds, opts=None, pre=None):
    # the batch created while the first one is flushed gets the same script
    c = {"kind": kind, "scripts": [[list(a) for a in t], [list(a) for a in t], [["setAll"]]],
         "ops": [list(o) for o in adds] + [list(fin)] + [list(o) for o in PROBES]}
    if opts:
        c["opts"] = list(opts)
    if pre:
        c["pre"] = pre
    return c


def systematic():
    cases = []
    for kind in KINDS:
        for t in TEMPLATES if kind == "user" else [TEMPLATES[0]]:
            for fin in FINISHERS:
                for adds in ADDS:
                    cases.append(_case(kind, t, fin, adds))
    # the same core under every debug option batching.py (and the futures under it) reads, one at a time and KEEP + DUMP
    for opts in [[o] for o in OPTS] + [["DUMP_FLUSH_BATCH", "KEEP_DEPENDENCIES"], list(OPTS)]:
        for kind in KINDS:
            for t in ([TEMPLATES[0], TEMPLATES[1], TEMPLATES[3], TEMPLATES[8], TEMPLATES[11]] if kind == "user"
                      else [TEMPLATES[0]]):
                for fin in (FINISHERS[0], FINISHERS[1], FINISHERS[4]):
                    for adds in (ADDS[0], ADDS[3]):
                        cases.append(_case(kind, t, fin, adds, opts, "cancel" if kind == "debug" else None))
    return cases


def sized(tier):
    """SIZE matters: batches of n items (every 3rd with a handler completing the next item, every 7th issuing a request)"""
    cases = []
    for n in ([17, 40, 100] if tier == "quick" else [17, 33, 64, 100, 300]):
        adds = [["add", 1 + i % 9, (1 + i % 5) if i % 7 == 6 else None,
                 [i + 1, i % 2, 1 + i % 8] if i % 3 == 0 else None] for i in range(n)]
        probes = [["itemValue", 0], ["itemValue", n - 1], ["itemValue", n // 2], ["flush", 1], ["cancel", 1, 2],
                  ["addTo", 1, 3], ["isEmpty", 1], ["batchError", 1], ["flush", 0], ["itemComputed", n + 1]]
        for kind in KINDS:
            for t in ([[["setAll"]], [], [["raise", 2]], [["setValue", 0, 1], ["setValue", n - 1, 2], ["raise", 5]],
                       [["setValue", n - 2, 3], ["setError", 16, 1]]] if kind == "user" else [[]]):
                for fin in (["flush", 0], ["cancel", 0, None], ["cancel", 0, 7], ["itemValue", 0], ["batchValue", 0]):
                    c = {"kind": kind, "scripts": [t, [["setAll"]]], "ops": adds + [fin] + probes, "fam": "size%d" % n}
                    if n == 40:
                        c["opts"] = ["KEEP_DEPENDENCIES"]
                    cases.append(c)
    return cases


RE_TEMPLATES = [
    [["cancelSelf", None]],
    [["cancelSelf", 3]],
    [["setValue", 0, 1], ["cancelSelf", 2], ["setValue", 1, 2]],
    [["cancelSelf", 6], ["raise", 1]],
    [["setAll"], ["cancelSelf", None]],
    [["cancelSelf", 1], ["cancelSelf", 2]],
    [["newItem", 4], ["cancelSelf", 8], ["newItem", 5]],
    [["setValue", 0, 1]],       # with a cancelling handler on item 0: the handler cancels while the body runs
    [],                         # ... the handler runs while _computed completes the leftovers: cancel() is a no-op
    [["raise", 5]],
    [["setError", 1, 2], ["setAll"]],
]
RE_ADDS = [
    [["add", 1, None, None, 0], ["add", 2, None, None], ["add", 3, None, None]],
    [["add", 1, None, [1, 0, 5], 4], ["add", 2, 9, None, 0], ["add", 0, None, None]],
    [["add", 1, None, None], ["add", 2, None, None, 7], ["add", 3, None, [0, 1, 2]]],
]


def reenter(tier, rng):
    """family `reenter`: the flush body / a completion handler cancels the very batch it is called from"""
    cases = []
    for kind in KINDS:
        for t in RE_TEMPLATES if kind == "user" else [[]]:
            for fin in (FINISHERS[0], FINISHERS[1], FINISHERS[3], FINISHERS[4], FINISHERS[5], FINISHERS[6]):
                for adds in RE_ADDS:
                    c = _case(kind, t, fin, adds)
                    c["fam"] = "reenter"
                    cases.append(c)
    for _ in range(500 if tier == "quick" else 6000):
        c = gen_case(rng)
        c["fam"] = "reenter"
        for sc in c["scripts"]:
            if rng.random() < 0.5:
                sc.insert(rng.randint(0, len(sc)), ["cancelSelf", rng.choice([None, None, 1, 2, 3, 5, 8])])
        for op in c["ops"]:
            if op[0] == "add" and rng.random() < 0.3:
                op.append(rng.choice([0, 0, 1, 2, 4, 6, 8]))
        cases.append(c)
    return cases


def plan(tier, seed):
    rng = random.Random(seed * 1000003 + 11)
    n = 6000 if tier == "quick" else 60000
    cases = corpus() + systematic() + sized(tier)
    cases += [gen_case(rng) for _ in range(n)]
    cases += reenter(tier, random.Random(seed * 1000003 + 1111))
    return cases


def _with(case, **kw):
    c = {k: v for k, v in case.items() if k != "id"}
    c.update(kw)
    return c


def shrink(case):
    ops, scripts = case["ops"], case["scripts"]
    if case.get("opts"):
        for o in case["opts"]:
            yield _with(case, opts=[x for x in case["opts"] if x != o])
    for i in range(len(ops)):
        yield _with(case, ops=ops[:i] + ops[i + 1:])
    for j in range(len(scripts)):
        if scripts[j]:
            for i in range(len(scripts[j])):
                s2 = [list(map(list, s)) for s in scripts]
                del s2[j][i]
                yield _with(case, scripts=s2)
    if len(scripts) > 1:
        yield _with(case, scripts=scripts[:-1])
    for i, op in enumerate(ops):
        if op[0] == "add":
            if len(op) > 4:
                o2 = [list(o) for o in ops]
                o2[i] = o2[i][:4]
                yield _with(case, ops=o2)
            for pos in (2, 3):
                if len(op) > pos and op[pos] is not None:
                    o2 = [list(o) for o in ops]
                    o2[i][pos] = None
                    yield _with(case, ops=o2)


def neighbours(case, rng):
    for k in KINDS:
        if k != case["kind"]:
            yield _with(case, kind=k)
    if case.get("opts"):
        yield _with(case, opts=[])
    for _ in range(30):
        ops = [list(o) for o in case["ops"]]
        scripts = [[list(a) for a in s] for s in case["scripts"]]
        r = rng.random()
        if ops and r < 0.3:
            ops[rng.randrange(len(ops))] = gen_op(rng)
        elif r < 0.6:
            ops.insert(rng.randint(0, len(ops)), gen_op(rng))
        elif scripts and r < 0.85:
            scripts[rng.randrange(len(scripts))] = gen_script(rng)
        else:
            ops.append(["itemValue", rng.randint(0, 3)])
        yield _with(case, scripts=scripts, ops=ops)


def signature(case, v):
    return "%s/%s" % (case["kind"], v["spec"])


def _sx(x):
    return "none" if x is None else str(x)


def _lx(l):
    return "none" if l is None else "(link %d %d %d)" % (l[0], l[1], l[2])


def script_sexp(scripts):
    return "(scripts %s)" % " ".join(
        "(script %s)" % " ".join("(%s)" % " ".join(str(x) for x in a) for a in s) for s in scripts)


# ---------------------------------------------------------------------------------------------------
# implementation side
# ---------------------------------------------------------------------------------------------------

class HarnessBug(Exception):
    pass


class UserErr(Exception):
    pass


class UserBase(BaseException):
    pass


def _no(*a, **k):
    raise RuntimeError("the library has no business calling this")


class FalsyErr(Exception):
    """an Exception that is falsy, has no length, and refuses ==, hash() and repr()"""
    __bool__ = lambda self: False
    __len__ = lambda self: 0
    __eq__ = _no
    __ne__ = _no
    __hash__ = _no
    __repr__ = _no
    __str__ = _no


class FalsyBase(BaseException):
    __bool__ = lambda self: False
    __len__ = lambda self: 0
    __eq__ = _no
    __ne__ = _no


class Weird(object):
    """a value that refuses bool(), ==, hash() and repr()"""
    __bool__ = _no
    __len__ = _no
    __eq__ = _no
    __ne__ = _no
    __hash__ = _no
    __repr__ = _no
    __str__ = _no


class EmptyList(list):
    __eq__ = _no
    __ne__ = _no


_serial = [0]


def run_case(case):
    import asynq
    from asynq import batching, futures

    kind = case["kind"]
    scripts = case["scripts"] if kind == "user" else []
    opts = list(case.get("opts") or [])
    keep = "KEEP_DEPENDENCIES" in opts
    # value / error tokens -> objects; identity is what is compared, never equality
    vals = {0: None, 1: ("v", 1), 2: 0, 3: "", 4: Weird(), 5: False, 6: EmptyList(), 7: ValueError("a value"),
            8: float("nan"), 9: asynq.ConstFuture(("v", 9))}
    errs = {1: UserErr("e1"), 2: FalsyErr("e2"),
            3: futures.FutureIsAlreadyComputed("a user's own"),    # classes the library raises / catches itself
            4: batching.BatchCancelledError("a user's own"),
            5: UserBase("b5"), 6: KeyboardInterrupt("b6"), 7: SystemExit(7), 8: FalsyBase("b8")}
    val_tok = {id(v): k for k, v in vals.items() if v is not None}
    err_tok = {id(e): k for k, e in errs.items()}

    events = []
    batches, btoks = [], {}      # token -> object (kept alive), id(object) -> token
    items, itoks = [], {}
    payload, spawn, links, recs = [], [], [], []   # per item token (side tables: compiled classes take no new attributes)
    reenter_fam = case.get("fam") == "reenter"
    xlines = []
    flag = {"in_set": False}
    stats = {"during": 0, "linked": 0}

    def vt(v):
        if v is None:
            return 0
        return val_tok.get(id(v), UNKNOWN)

    def et(e, item=None):
        if id(e) in err_tok:
            return "(user %d)" % err_tok[id(e)]
        if isinstance(e, batching.BatchCancelledError):
            if item is not None:
                b = item.batch
                if not (b.is_computed() and b.error() is e):
                    return "(other foreignBatchCancelledError)"
            return "cancelled"
        if isinstance(e, futures.FutureIsAlreadyComputed):
            return "already"
        if type(e) is batching.BatchingError:
            return "batching"
        if isinstance(e, AssertionError) and "wasn't set on batch flush" in str(e):
            return "notSet"
        if isinstance(e, AssertionError) and "can't add an item" in str(e):
            return "assertAdd"
        return "(other %s)" % type(e).__name__

    def peek(f, item=None):
        """read-only: outcome of a future that is computed, else none"""
        if not f.is_computed():
            return "none"
        e = f.error()
        if e is not None:
            return "(err %s)" % et(e, item)
        return "(val %d)" % vt(f.value())

    def on_batch(t):
        act = see_active()
        b = batches[t]
        pend = [i for i, it in enumerate(items) if it.batch is b and not it.is_computed()]
        events.append("(announce %d (%s) %d)" % (t, " ".join(map(str, pend)), act))

    def btok(b):
        t = btoks.get(id(b))
        if t is None:
            t = len(batches)
            btoks[id(b)] = t
            batches.append(b)
            b.on_computed.subscribe(lambda _b, t=t: on_batch(t))
        return t

    def itok(it):
        return itoks.get(id(it), UNKNOWN)

    def on_item(i):
        it = items[i]
        events.append("(item %d %s %d)" % (i, peek(it, it), 1 if flag["in_set"] else 0))
        if spawn[i] is not None:
            src = btok(it.batch)
            try:
                make_item(None, spawn[i], None, src)
            except AssertionError:
                events.append("(createFail %d)" % src)
        lk = links[i]
        if lk is not None and lk[0] < len(items):
            tgt = items[lk[0]]
            # complete a sibling that is still pending (a "derived" item): public API only
            if tgt.batch is it.batch and not tgt.is_computed():
                stats["linked"] += 1
                prev = flag["in_set"]
                flag["in_set"] = True
                try:
                    if lk[1]:
                        tgt.set_error(errs[lk[2]])
                    else:
                        tgt.set_value(vals[lk[2]])
                finally:
                    flag["in_set"] = prev
        if recs[i] is not None:
            recancel(it.batch, recs[i] or None)

    def recancel(b, e):
        """family `reenter`: cancel the batch from inside its own flush body / from a completion handler of its item"""
        t = btok(b)
        was = not b.is_computed()
        prev = flag["in_set"]
        flag["in_set"] = False       # whatever gets completed now is completed by the library
        raised = 0
        try:
            if e is None:
                b.cancel()
            else:
                b.cancel(errs[e])
        except BaseException as ex:
            if type(ex).__name__ == "CaseTimeout":
                raise
            raised = 1
        finally:
            flag["in_set"] = prev
        stats["recancel"] = stats.get("recancel", 0) + (1 if was else 0)
        xlines.append("(x cancel %d %s %d %d)" % (t, _sx(e), 1 if was else 0, raised))

    if kind == "user":
        class Service(object):
            active = None

        svc = Service()

        class MyBatch(batching.BatchBase):
            def __init__(self):
                super(MyBatch, self).__init__()
                self.flush_count = 0

            def _try_switch_active_batch(self):
                if svc.active is self:
                    svc.active = MyBatch()

            def _flush(self):
                self.flush_count += 1
                t = btok(self)
                events.append("(body %d %d)" % (t, see_active()))
                try:
                    self._body(t)
                except BaseException as ex:
                    if type(ex).__name__ != "CaseTimeout":
                        # what the body raised, and whether somebody finished the batch meanwhile (read-only)
                        events.append("(bodyEnd %d %s %s)" % (t, et(ex), peek(self)))
                    raise
                events.append("(bodyEnd %d none %s)" % (t, peek(self)))

            def _body(self, t):
                for a in (scripts[t] if t < len(scripts) else []):
                    if a[0] == "setValue":
                        if a[1] < len(self.items):
                            set_item(self.items[a[1]], True, vals[a[2]])
                    elif a[0] == "setError":
                        if a[1] < len(self.items):
                            set_item(self.items[a[1]], False, errs[a[2]])
                    elif a[0] == "setAll":
                        for it in list(self.items):
                            if not it.is_computed():
                                set_item(it, True, vals[payload[itok(it)]])
                    elif a[0] == "newItem":
                        make_item(None, a[1], None, t)
                    elif a[0] == "raise":
                        raise errs[a[1]]
                    elif a[0] == "cancelSelf" and reenter_fam:
                        recancel(self, a[1])
                    else:
                        raise ValueError(a)

            def _cancel(self):
                pass

        class MyItem(batching.BatchItemBase):
            pass

        svc.active = MyBatch()

        def get_active():
            return svc.active

        def construct(batch, p):
            return MyItem(svc.active if batch is None else batch)

        def runs_of(b):
            return b.flush_count
    else:
        _serial[0] += 1
        tag = "c11-%d-%d" % (case.get("id", 0), _serial[0])
        name = "sync-" + tag     # the name asynq.batching.sync(tag) uses
        # bring the service's slot into existence with public API only: a throw-away request that is flushed,
        # cancelled, or asked for its value (what an earlier computation on this thread leaves behind)
        pre = case.get("pre", "flush")
        if pre == "cancel":
            batching.DebugBatchItem(name).batch.cancel()
        elif pre == "value":
            batching.sync(tag).value()
        else:
            batching.DebugBatchItem(name).batch.flush()

        class RawItem(batching.BatchItemBase):
            def __init__(self, batch, result):
                super(RawItem, self).__init__(batch)
                self._result = result

        def get_active():
            return batching._debug_batch_state.batches.get(name)  # read-only

        def construct(batch, p):
            if batch is None:
                if p == 0:
                    return batching.sync(tag)      # the public entry point: DebugBatchItem("sync-" + tag), result None
                if p % 2:
                    return batching.DebugBatchItem(batch_name=name, result=vals[p])   # the keyword spelling
                return batching.DebugBatchItem(name, vals[p])
            return RawItem(batch, vals[p])

        def runs_of(b):
            return 0

    def set_item(it, is_value, x):
        flag["in_set"] = True
        try:
            if is_value:
                it.set_value(x)
            else:
                it.set_error(x)
        finally:
            flag["in_set"] = False

    def see_active():
        a = get_active()
        return UNKNOWN if a is None else btok(a)

    def make_item(batch, p, sp, src, lk=None, rec=None):
        it = construct(batch, p)
        if src is not None:
            stats["during"] += 1
        i = len(items)
        items.append(it)
        itoks[id(it)] = i
        payload.append(p)
        spawn.append(sp)
        links.append(lk)
        recs.append(rec if reenter_fam else None)
        events.append("(created %d %d %s)" % (i, btok(it.batch), _sx(src)))
        it.on_computed.subscribe(lambda _it, i=i: on_item(i))
        return i

    def snapshot():
        a = see_active()
        bs = " ".join("(B %s (%s) %d)" % (peek(b), " ".join(str(itok(x)) for x in b.items), runs_of(b)) for b in batches)
        its = " ".join("(I %d %d %s %s %s)" % (btok(it.batch), payload[i], _sx(spawn[i]), _lx(links[i]), peek(it, it))
                       for i, it in enumerate(items))
        return "(st %d (batches %s) (items %s))" % (a, bs, its)

    def resolve(k, n):
        if k >= 1000:
            return k
        if n == 0:
            return 0
        return n - 1 - (k % n)

    # debug options: a configuration, set before the history starts and restored afterwards
    dbg = asynq.debug.options
    saved = {}
    sink = None
    try:
        import io
        sink = (asynq.debug, asynq.debug.stdout)
        asynq.debug.stdout = io.StringIO()      # the DUMP_* options write there; keep it out of the worker's pipe
    except Exception:
        sink = None
    finished_with_items = 0
    try:
        for o in opts:
            saved[o] = getattr(dbg, o)
            setattr(dbg, o, True)
        see_active()
        if reenter_fam:
            lines = ["(case batchingx %d %s (keep %d))" % (case["id"], kind, 1 if keep else 0)]
        else:
            lines = ["(case batching %d %s (keep %d) %s)" % (case["id"], kind, 1 if keep else 0, script_sexp(scripts))]
        for op in case["ops"]:
            del events[:]
            name_ = op[0]
            nb, ni = len(batches), len(items)
            before = [b.is_computed() for b in batches]
            try:
                if name_ == "add":
                    lk = op[3] if len(op) > 3 else None
                    rop = "(add %d %s %s)" % (op[1], _sx(op[2]), _lx(lk))
                    res = "(created %d)" % make_item(None, op[1], op[2], None, lk, op[4] if len(op) > 4 else None)
                elif name_ == "addTo":
                    b = resolve(op[1], nb)
                    rop = "(addTo %d %d)" % (b, op[2])
                    res = "(invalid)" if b >= nb else "(created %d)" % make_item(batches[b], op[2], None, None)
                elif name_ in ("itemValue", "itemComputed"):
                    i = resolve(op[1], ni)
                    rop = "(%s %d)" % (name_, i)
                    if i >= ni:
                        res = "(invalid)"
                    elif name_ == "itemComputed":
                        res = "(bool %d)" % (1 if items[i].is_computed() else 0)
                    else:
                        v = items[i].value()
                        res = "(ok %d)" % vt(v) if vt(v) != UNKNOWN else "(marker)"
                else:
                    b = resolve(op[1], nb)
                    rop = "(cancel %d %s)" % (b, _sx(op[2])) if name_ == "cancel" else "(%s %d)" % (name_, b)
                    if b >= nb:
                        res = "(invalid)"
                    elif name_ == "flush":
                        batches[b].flush()
                        res = "(unit)"
                    elif name_ == "cancel":
                        if op[2] is None:
                            if len(lines) % 2:
                                batches[b].cancel()
                            else:
                                batches[b].cancel(error=None)      # the keyword spelling, explicit default
                        elif len(lines) % 2:
                            batches[b].cancel(errs[op[2]])
                        else:
                            batches[b].cancel(error=errs[op[2]])
                        res = "(unit)"
                    elif name_ == "batchValue":
                        v = batches[b].value()
                        res = "(ok %d)" % vt(v) if vt(v) != UNKNOWN else "(marker)"
                    elif name_ == "batchError":
                        e = batches[b].error()
                        res = "(errIs none)" if e is None else "(errIs %s)" % et(e)
                    elif name_ == "isFlushed":
                        res = "(bool %d)" % (1 if batches[b].is_flushed() else 0)
                    elif name_ == "isCancelled":
                        res = "(bool %d)" % (1 if batches[b].is_cancelled() else 0)
                    elif name_ == "isEmpty":
                        res = "(bool %d)" % (1 if batches[b].is_empty() else 0)
                    else:
                        raise HarnessBug(name_)
            except BaseException as e:  # the outcome of the operation, not a harness failure
                if type(e).__name__ == "CaseTimeout" or isinstance(e, HarnessBug):
                    raise
                res = "(raised %s)" % et(e)
            snap = snapshot()
            for t, was in enumerate(before):
                if not was and batches[t].is_computed() and any(it.batch is batches[t] for it in items):
                    finished_with_items += 1
            lines.append("(obs %s %s (%s) %s)" % (rop, res, " ".join(events), snap))
        lines += xlines
        lines.append("(end)")
    finally:
        for o, v in saved.items():
            setattr(dbg, o, v)
        if sink is not None:
            sink[0].stdout = sink[1]
        if "COLLECT_PERF_STATS" in opts:
            try:
                asynq.profiler.reset()
            except Exception:
                pass

    text = "\n".join(lines)
    feats = ["kind=" + kind, "len<=%d" % next(b for b in (1, 3, 8, 16, 24, 10**9) if len(case["ops"]) <= b)]
    feats += sorted({"op=" + o[0] for o in case["ops"]})
    feats += ["opt=" + o for o in opts] or ["opt=none"]
    if case.get("fam"):
        feats.append("fam=" + case["fam"])
    if case.get("pre"):
        feats.append("pre=" + case["pre"])
    if kind == "user":
        feats += sorted({"act=" + a[0] for s in scripts for a in s})
    for key, needle in (("second-flush-raises", "(raised batching)"), ("add-after-finish-raises", "(raised assertAdd)"),
                        ("item-not-set", "(err notSet)"), ("item-error-from-batch", "(err (user"),
                        ("cancelled-default", "(err cancelled)"), ("double-set-in-body", "(err already)"),
                        ("invalid-token", "(invalid)"), ("value-raises", "(raised (user"),
                        ("value-none", "(ok 0)"), ("announce", "(announce "), ("body", "(body ")):
        if needle in text:
            feats.append("seen=" + key)
    if stats["during"]:
        feats.append("seen=request-during-flush")
    if any(o[0] == "add" and len(o) > 3 and o[3] is not None for o in case["ops"]):
        feats.append("link-handlers=yes")
    feats.append("sibling-completed-by-handler=%d" % min(stats["linked"], 3))
    if reenter_fam:
        feats.append("reentrant-cancel-of-pending-batch=%d" % min(stats.get("recancel", 0), 3))
    feats.append("batches=%d" % min(len(batches), 6))
    feats.append("finished-with-items=%d" % min(finished_with_items, 3))
    nontrivial = None
    if finished_with_items >= 1 and len(case["ops"]) >= 3:
        nontrivial = hashlib.sha1(json.dumps([kind, opts, scripts, case["ops"]]).encode()).hexdigest()[:16]
    return {"lines": lines, "features": feats, "nontrivial": nontrivial}
