"""C11  Batch lifecycle: pending to flushed or cancelled, once; no item left pending.

Histories of operations (add item / add item to a given batch / flush / cancel with or without error /
item.value() / batch.value() / batch.error() / state queries) on one batch kind with an "active batch" slot,
run on the real classes: a BatchBase/BatchItemBase subclass pair written here whose `_flush` interprets a
script (set all / some / no items, set item errors, raise Exception or BaseException, issue new requests
while flushing), and the built-in DebugBatch / DebugBatchItem.  Item callbacks may issue new requests too.

The Lean model (AsynqModel.Lib.Batching) replays the same history and scripts (correspondence: result of every
operation, every hook event in order, and a full snapshot of all batches and items after every operation) and
the Lean observer `Batching.spec` (the statement of C11, proved of the model for all histories and all scripts)
judges the implementation's observations on their own."""
import hashlib
import json
import random

PID = "C11"
LEVEL = "proof"
LEAN_MODULES = ["AsynqModel.Theorems.C11"]
THEOREMS = [
    "AsynqModel.Batching.C11_spec_holds",
    "AsynqModel.Batching.C11_once",
    "AsynqModel.Batching.C11_flush_total",
    "AsynqModel.Batching.C11_second_flush_error",
    "AsynqModel.Batching.C11_cancel_total",
    "AsynqModel.Batching.C11_no_add_after_finish",
    "AsynqModel.Batching.C11_items_before_announce",
    "AsynqModel.Batching.C11_item_value_flushes",
    "AsynqModel.Batching.C11_fresh_batch_during_flush",
    "AsynqModel.Batching.C11_no_item_left_pending",
]
BUILDS = {"quick": ["py"], "thorough": ["py", "cy"]}
RULE = ("systematic core (both batch kinds x 14 flush-script templates x 7 ways of finishing a batch, each followed by the "
        "protocol-error probes: second flush, cancel after finish, add to finished batch, item/batch reads) plus random "
        "histories (1-24 ops over add/addTo/flush/cancel(+-error)/item.value/batch.value/batch.error/queries, random "
        "scripts per batch, item callbacks issuing new requests, a small stream of operations on non-existent tokens); "
        "non-trivial = a batch with at least one item finishes and the history has >= 3 operations; distinct by "
        "(kind, scripts, history) hash")
TRUSTED = [
    "hand-written Lean model AsynqModel.Lib.Batching tied to the code by this differential run only",
    "Python harness checks/c11.py (token <-> object identity mapping, read-only snapshot after each operation, "
    "hooks: on_computed of every batch and item, the harness subclass's _flush)",
    "qcore.EventHook.safe_trigger, qcore.errors.reraise",
]
ASSUMPTIONS = [
    "flush bodies are the scripted ones (set value/error of own items, create requests, raise); they do not re-enter "
    "flush()/value() of their own or another batch and do not cancel the batch they are flushing",
    "on_computed callbacks of items only log and issue new requests; callbacks raising are C10's subject",
    "debug options at their defaults (KEEP_DEPENDENCIES off: flush() clears batch.items); single thread",
    "for DebugBatch the flush body itself cannot be hooked through public API: its runs are observed through the "
    "item completions only (run counter fixed to 0)",
]
CASE_TIMEOUT = 20
UNKNOWN = 999999
KINDS = ["user", "debug"]

TEMPLATES = [
    [["setAll"]],
    [],
    [["setValue", 0, 1]],
    [["setValue", 1, 2], ["setError", 0, 1]],
    [["setError", 0, 6], ["setValue", 2, 3]],
    [["setAll"], ["raise", 1]],
    [["raise", 2]],
    [["raise", 5]],
    [["setValue", 0, 1], ["raise", 6]],
    [["newItem", 4], ["setAll"]],
    [["setAll"], ["newItem", 4], ["newItem", 5]],
    [["setValue", 0, 1], ["newItem", 4], ["raise", 5]],
    [["setValue", 0, 1], ["setValue", 0, 2]],
    [["setError", 1, 2], ["setAll"], ["newItem", 3]],
]


def gen_script(rng):
    if rng.random() < 0.5:
        return [list(a) for a in rng.choice(TEMPLATES)]
    acts = []
    for _ in range(rng.choice([0, 1, 1, 2, 2, 3, 4])):
        w = rng.choices(["setValue", "setError", "setAll", "newItem", "raise"], weights=[4, 2, 2, 2, 1])[0]
        if w == "setValue":
            acts.append([w, rng.randint(0, 3), rng.randint(0, 5)])
        elif w == "setError":
            acts.append([w, rng.randint(0, 3), rng.randint(1, 8)])
        elif w == "setAll":
            acts.append([w])
        elif w == "newItem":
            acts.append([w, rng.randint(1, 9)])
        else:
            acts.append([w, rng.randint(1, 8)])
    return acts


def gen_op(rng):
    w = rng.choices(
        ["add", "addTo", "flush", "cancel", "itemValue", "batchValue", "batchError",
         "isFlushed", "isCancelled", "isEmpty", "itemComputed"],
        weights=[12, 2, 6, 4, 6, 2, 2, 1, 1, 1, 1])[0]
    k = rng.choice([0, 0, 0, 0, 1, 1, 2, 3, 5])
    if rng.random() < 0.01:
        k = 1000 + rng.randint(0, 50)  # malformed stream: a token that does not exist
    if w == "add":
        return [w, rng.randint(1, 9), rng.randint(1, 9) if rng.random() < 0.25 else None]
    if w == "addTo":
        return [w, k, rng.randint(1, 9)]
    if w == "cancel":
        return [w, k, rng.randint(1, 8) if rng.random() < 0.5 else None]
    return [w, k]


def gen_case(rng, size=None):
    n = size if size is not None else rng.choice([1, 2, 3, 4, 5, 6, 8, 10, 12, 16, 20, 24])
    return {"kind": rng.choice(KINDS), "scripts": [gen_script(rng) for _ in range(rng.choice([1, 2, 3, 6]))],
            "ops": [gen_op(rng) for _ in range(n)]}


def corpus():
    import glob
    import os
    res = []
    d = os.path.join(os.path.dirname(os.path.dirname(os.path.dirname(os.path.abspath(__file__)))), "corpus", PID)
    for p in sorted(glob.glob(os.path.join(d, "*.json"))):
        with open(p) as f:
            res.append(json.load(f))
    return res


FINISHERS = [["flush", 0], ["cancel", 0, None], ["cancel", 0, 3], ["cancel", 0, 7], ["itemValue", 1], ["batchValue", 0],
             ["batchError", 0]]
# after the finisher the finished batch is the second newest one (k = 1)
PROBES = [["itemComputed", 0], ["itemValue", 0], ["itemValue", 1], ["itemValue", 2], ["flush", 1], ["cancel", 1, None],
          ["cancel", 1, 2], ["addTo", 1, 7], ["isFlushed", 1], ["isCancelled", 1], ["isEmpty", 1], ["batchValue", 1],
          ["batchError", 1], ["add", 8, None], ["isFlushed", 0], ["itemValue", 0], ["flush", 1], ["flush", 0], ["flush", 1]]


def systematic():
    cases = []
    for kind in KINDS:
        for t in TEMPLATES if kind == "user" else [TEMPLATES[0]]:
            for fin in FINISHERS:
                for adds in ([["add", 1, None], ["add", 2, 9], ["add", 3, None]], [["add", 1, 2]], []):
                    # the batch created while the first one is flushed gets the same script
                    cases.append({"kind": kind, "scripts": [[list(a) for a in t], [list(a) for a in t], [["setAll"]]],
                                  "ops": [list(o) for o in adds] + [list(fin)] + [list(o) for o in PROBES]})
    return cases


def plan(tier, seed):
    rng = random.Random(seed * 1000003 + 11)
    n = 6000 if tier == "quick" else 60000
    cases = corpus() + systematic()
    cases += [gen_case(rng) for _ in range(n)]
    return cases


def shrink(case):
    ops, scripts = case["ops"], case["scripts"]
    for i in range(len(ops)):
        yield {"kind": case["kind"], "scripts": scripts, "ops": ops[:i] + ops[i + 1:]}
    for j in range(len(scripts)):
        if scripts[j]:
            for i in range(len(scripts[j])):
                s2 = [list(map(list, s)) for s in scripts]
                del s2[j][i]
                yield {"kind": case["kind"], "scripts": s2, "ops": ops}
    if len(scripts) > 1:
        yield {"kind": case["kind"], "scripts": scripts[:-1], "ops": ops}
    for i, op in enumerate(ops):
        if op[0] == "add" and op[2] is not None:
            o2 = [list(o) for o in ops]
            o2[i][2] = None
            yield {"kind": case["kind"], "scripts": scripts, "ops": o2}


def neighbours(case, rng):
    for k in KINDS:
        if k != case["kind"]:
            yield {"kind": k, "scripts": case["scripts"], "ops": case["ops"]}
    for _ in range(30):
        ops = [list(o) for o in case["ops"]]
        scripts = [[list(a) for a in s] for s in case["scripts"]]
        r = rng.random()
        if ops and r < 0.3:
            ops[rng.randrange(len(ops))] = gen_op(rng)
        elif r < 0.6:
            ops.insert(rng.randint(0, len(ops)), gen_op(rng))
        elif scripts and r < 0.85:
            scripts[rng.randrange(len(scripts))] = gen_script(rng)
        else:
            ops.append(["itemValue", rng.randint(0, 3)])
        yield {"kind": case["kind"], "scripts": scripts, "ops": ops}


def signature(case, v):
    return "%s/%s" % (case["kind"], v["spec"])


def _sx(x):
    return "none" if x is None else str(x)


def script_sexp(scripts):
    return "(scripts %s)" % " ".join(
        "(script %s)" % " ".join("(%s)" % " ".join(str(x) for x in a) for a in s) for s in scripts)


# ---------------------------------------------------------------------------------------------------
# implementation side
# ---------------------------------------------------------------------------------------------------

class UserErr(Exception):
    pass


class UserBase(BaseException):
    pass


_serial = [0]


def run_case(case):
    from asynq import batching, futures

    kind = case["kind"]
    scripts = case["scripts"] if kind == "user" else []
    vals = {0: None}
    for p in range(1, 10):
        vals[p] = ("v", p)  # unique objects
    errs = {}
    for n in range(1, 5):
        errs[n] = UserErr("e%d" % n)
    for n in range(5, 9):
        errs[n] = UserBase("b%d" % n)
    val_tok = {id(v): k for k, v in vals.items() if v is not None}
    err_tok = {id(e): k for k, e in errs.items()}

    events = []
    batches, btoks = [], {}      # token -> object (kept alive), id(object) -> token
    items, itoks = [], {}
    payload, spawn = [], []      # per item token (side tables: compiled classes take no new attributes)
    flag = {"in_set": False}
    stats = {"during": 0}

    def vt(v):
        if v is None:
            return 0
        return val_tok.get(id(v), UNKNOWN)

    def et(e, item=None):
        if id(e) in err_tok:
            return "(user %d)" % err_tok[id(e)]
        if isinstance(e, batching.BatchCancelledError):
            if item is not None:
                b = item.batch
                if not (b.is_computed() and b.error() is e):
                    return "(other foreignBatchCancelledError)"
            return "cancelled"
        if isinstance(e, futures.FutureIsAlreadyComputed):
            return "already"
        if type(e) is batching.BatchingError:
            return "batching"
        if isinstance(e, AssertionError) and "wasn't set on batch flush" in str(e):
            return "notSet"
        if isinstance(e, AssertionError) and "can't add an item" in str(e):
            return "assertAdd"
        return "(other %s)" % type(e).__name__

    def peek(f, item=None):
        """read-only: outcome of a future that is computed, else none"""
        if not f.is_computed():
            return "none"
        e = f.error()
        if e is not None:
            return "(err %s)" % et(e, item)
        return "(val %d)" % vt(f.value())

    def on_batch(t):
        act = see_active()
        b = batches[t]
        pend = [i for i, it in enumerate(items) if it.batch is b and not it.is_computed()]
        events.append("(announce %d (%s) %d)" % (t, " ".join(map(str, pend)), act))

    def btok(b):
        t = btoks.get(id(b))
        if t is None:
            t = len(batches)
            btoks[id(b)] = t
            batches.append(b)
            b.on_computed.subscribe(lambda _b, t=t: on_batch(t))
        return t

    def itok(it):
        return itoks.get(id(it), UNKNOWN)

    def on_item(i):
        it = items[i]
        events.append("(item %d %s %d)" % (i, peek(it, it), 1 if flag["in_set"] else 0))
        if spawn[i] is not None:
            src = btok(it.batch)
            try:
                make_item(None, spawn[i], None, src)
            except AssertionError:
                events.append("(createFail %d)" % src)

    if kind == "user":
        class Service(object):
            active = None

        svc = Service()

        class MyBatch(batching.BatchBase):
            def __init__(self):
                super(MyBatch, self).__init__()
                self.flush_count = 0

            def _try_switch_active_batch(self):
                if svc.active is self:
                    svc.active = MyBatch()

            def _flush(self):
                self.flush_count += 1
                t = btok(self)
                events.append("(body %d %d)" % (t, see_active()))
                for a in (scripts[t] if t < len(scripts) else []):
                    if a[0] == "setValue":
                        if a[1] < len(self.items):
                            set_item(self.items[a[1]], True, vals[a[2]])
                    elif a[0] == "setError":
                        if a[1] < len(self.items):
                            set_item(self.items[a[1]], False, errs[a[2]])
                    elif a[0] == "setAll":
                        for it in list(self.items):
                            if not it.is_computed():
                                set_item(it, True, vals[payload[itok(it)]])
                    elif a[0] == "newItem":
                        make_item(None, a[1], None, t)
                    elif a[0] == "raise":
                        raise errs[a[1]]
                    else:
                        raise ValueError(a)

            def _cancel(self):
                pass

        class MyItem(batching.BatchItemBase):
            pass

        svc.active = MyBatch()

        def get_active():
            return svc.active

        def construct(batch, p):
            return MyItem(svc.active if batch is None else batch)

        def runs_of(b):
            return b.flush_count
    else:
        _serial[0] += 1
        name = "c11-%d-%d" % (case.get("id", 0), _serial[0])
        # bring the service's slot into existence with public API only: a throw-away request and its flush
        batching.DebugBatchItem(name).batch.flush()

        class RawItem(batching.BatchItemBase):
            def __init__(self, batch, result):
                super(RawItem, self).__init__(batch)
                self._result = result

        def get_active():
            return batching._debug_batch_state.batches.get(name)  # read-only

        def construct(batch, p):
            if batch is None:
                return batching.DebugBatchItem(name, vals[p])
            return RawItem(batch, vals[p])

        def runs_of(b):
            return 0

    def set_item(it, is_value, x):
        flag["in_set"] = True
        try:
            if is_value:
                it.set_value(x)
            else:
                it.set_error(x)
        finally:
            flag["in_set"] = False

    def see_active():
        a = get_active()
        return UNKNOWN if a is None else btok(a)

    def make_item(batch, p, sp, src):
        it = construct(batch, p)
        if src is not None:
            stats["during"] += 1
        i = len(items)
        items.append(it)
        itoks[id(it)] = i
        payload.append(p)
        spawn.append(sp)
        events.append("(created %d %d %s)" % (i, btok(it.batch), _sx(src)))
        it.on_computed.subscribe(lambda _it, i=i: on_item(i))
        return i

    def snapshot():
        a = see_active()
        bs = " ".join("(B %s (%s) %d)" % (peek(b), " ".join(str(itok(x)) for x in b.items), runs_of(b)) for b in batches)
        its = " ".join("(I %d %d %s %s)" % (btok(it.batch), payload[i], _sx(spawn[i]), peek(it, it))
                       for i, it in enumerate(items))
        return "(st %d (batches %s) (items %s))" % (a, bs, its)

    def resolve(k, n):
        if k >= 1000:
            return k
        if n == 0:
            return 0
        return n - 1 - (k % n)

    see_active()
    lines = ["(case batching %d %s %s)" % (case["id"], kind, script_sexp(scripts))]
    finished_with_items = 0
    for op in case["ops"]:
        del events[:]
        name_ = op[0]
        nb, ni = len(batches), len(items)
        before = [b.is_computed() for b in batches]
        try:
            if name_ == "add":
                rop = "(add %d %s)" % (op[1], _sx(op[2]))
                res = "(created %d)" % make_item(None, op[1], op[2], None)
            elif name_ == "addTo":
                b = resolve(op[1], nb)
                rop = "(addTo %d %d)" % (b, op[2])
                res = "(invalid)" if b >= nb else "(created %d)" % make_item(batches[b], op[2], None, None)
            elif name_ in ("itemValue", "itemComputed"):
                i = resolve(op[1], ni)
                rop = "(%s %d)" % (name_, i)
                if i >= ni:
                    res = "(invalid)"
                elif name_ == "itemComputed":
                    res = "(bool %d)" % (1 if items[i].is_computed() else 0)
                else:
                    v = items[i].value()
                    res = "(ok %d)" % vt(v) if vt(v) != UNKNOWN else "(marker)"
            else:
                b = resolve(op[1], nb)
                rop = "(cancel %d %s)" % (b, _sx(op[2])) if name_ == "cancel" else "(%s %d)" % (name_, b)
                if b >= nb:
                    res = "(invalid)"
                elif name_ == "flush":
                    batches[b].flush()
                    res = "(unit)"
                elif name_ == "cancel":
                    if op[2] is None:
                        batches[b].cancel()
                    else:
                        batches[b].cancel(errs[op[2]])
                    res = "(unit)"
                elif name_ == "batchValue":
                    v = batches[b].value()
                    res = "(ok %d)" % vt(v) if vt(v) != UNKNOWN else "(marker)"
                elif name_ == "batchError":
                    e = batches[b].error()
                    res = "(errIs none)" if e is None else "(errIs %s)" % et(e)
                elif name_ == "isFlushed":
                    res = "(bool %d)" % (1 if batches[b].is_flushed() else 0)
                elif name_ == "isCancelled":
                    res = "(bool %d)" % (1 if batches[b].is_cancelled() else 0)
                elif name_ == "isEmpty":
                    res = "(bool %d)" % (1 if batches[b].is_empty() else 0)
                else:
                    raise ValueError(name_)
        except BaseException as e:  # the outcome of the operation, not a harness failure
            if type(e).__name__ == "CaseTimeout" or isinstance(e, (ValueError, KeyError, IndexError, TypeError)):
                raise
            res = "(raised %s)" % et(e)
        snap = snapshot()
        for t, was in enumerate(before):
            if not was and batches[t].is_computed() and any(it.batch is batches[t] for it in items):
                finished_with_items += 1
        lines.append("(obs %s %s (%s) %s)" % (rop, res, " ".join(events), snap))
    lines.append("(end)")

    text = "\n".join(lines)
    feats = ["kind=" + kind, "len<=%d" % next(b for b in (1, 3, 8, 16, 24, 10**9) if len(case["ops"]) <= b)]
    feats += sorted({"op=" + o[0] for o in case["ops"]})
    if kind == "user":
        feats += sorted({"act=" + a[0] for s in scripts for a in s})
    for key, needle in (("second-flush-raises", "(raised batching)"), ("add-after-finish-raises", "(raised assertAdd)"),
                        ("item-not-set", "(err notSet)"), ("item-error-from-batch", "(err (user"),
                        ("cancelled-default", "(err cancelled)"), ("double-set-in-body", "(err already)"),
                        ("invalid-token", "(invalid)"), ("value-raises", "(raised (user"),
                        ("announce", "(announce "), ("body", "(body ")):
        if needle in text:
            feats.append("seen=" + key)
    if stats["during"]:
        feats.append("seen=request-during-flush")
    feats.append("batches=%d" % min(len(batches), 6))
    feats.append("finished-with-items=%d" % min(finished_with_items, 3))
    nontrivial = None
    if finished_with_items >= 1 and len(case["ops"]) >= 3:
        nontrivial = hashlib.sha1(json.dumps([kind, scripts, case["ops"]]).encode()).hexdigest()[:16]
    return {"lines": lines, "features": feats, "nontrivial": nontrivial}
