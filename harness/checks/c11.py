"""C11  Batch lifecycle: pending to flushed or cancelled, once; no item left pending.

Histories of operations (add item / add item to a given batch / flush / cancel with or without error /
item.value() / batch.value() / batch.error() / state queries) on one batch kind with an "active batch" slot,
run on the real classes: a BatchBase/BatchItemBase subclass pair written here whose `_flush` interprets a
script (set all / some / no items, set item errors, raise Exception or BaseException, issue new requests
while flushing), and the built-in DebugBatch / DebugBatchItem (also through `asynq.batching.sync`).  Items may carry
on_computed handlers that issue new requests (`spawn`) or complete a pending sibling item (`link`, chains allowed),
so an item can get completed by somebody else while the library walks the batch's items.  Values and errors are
tokens for objects with unusual behaviour (None, falsy, raising __eq__/__bool__/__repr__, exceptions of classes the
library knows, BaseException-only errors); a case may switch debug options on (KEEP_DEPENDENCIES is part of the model,
the DUMP_* / profiling options must not change anything); batches of 17 - 300 items form a family of their own.
A case of the harness subclass may give `_cancel()` - the protected hook BatchBase._computed calls - an Exception to raise
(key `hook`; model Lib/BatchingHook.lean): before /repo fix f2f3435 the code then violated C11 (finding user/cancel-hook-raises, repaired:
the hook is now treated like an on_computed callback; the model follows the repaired code - its hook parameter is inert,
C11_spec_holds_hook holds by construction and the claim is carried by the correspondence run).
The family `reenter` (a flush body or a completion handler that cancels the batch it is called from) lies outside the
model: it is sent to the driver in mode `batchingx` and judged by the observer (mode rx) and a direct expectation only.

What the harness logs per operation: the result (or the exception it raised), in order every hook event - start of
the harness `_flush` with the active batch seen at that moment (`body`), its end with what it raised and whether the
batch was still pending (`bodyEnd`), every on_computed of an item with the outcome peeked and who set it (`item`),
every item construction (`created`), every on_computed of a batch with its items that are pending at that moment
(`announce`) - and a full read-only snapshot of all batches and items afterwards.

The Lean model (AsynqModel.Lib.Batching) replays the same history and scripts (correspondence: all of the above must
be equal) and the Lean observer `Batching.spec` (the statement of C11, proved of the model for all histories and all
scripts: C11_spec_holds) judges the implementation's observations on their own: result of the operation, which batch
the operation had to finish and how (`fate`: flush = body runs exactly once and decides the outcome, cancel = body
does not run), exactly one event per change of the snapshot and no other, order (body first, no completion of an item
of the batch after its announcement), fresh batch iff the finished batch held the slot, KEEP_DEPENDENCIES, single
assignment, and the invariant `Good` (no item of a finished batch pending).

Interactions (family `svc`, mode `batchingm hist`; model AsynqModel.Lib.BatchServices, theorems Theorems/C11s.lean):
SEVERAL services side by side with interleaved histories - harness subclasses, each with its own slot, and DebugBatches
under different NAMES, the name being any dictionary key (str, "", None, 0, True, int, tuple, (), bytes, frozenset, nan,
a member of a (str, Enum) class, str subclasses with and without their own __str__, a key object with value equality /
constant hash / raising __bool__, a plain object, the defaults of DebugBatchItem() and sync(), and the str() of such a
key as the name of a SECOND service), a service may live on a thread of its own (the registry is a threading.local);
batch objects constructed by the client that do not hold the slot (`nb`: MyBatch() / DebugBatch(name, index), items put
on them, finished in every way); debug options switched while batches are pending (`opt`: KEEP_DEPENDENCIES is part of
the model - flush() reads it when it runs -, the others must change nothing).  Every observation of a service is judged
against the snapshot its own previous observation left, so an operation that disturbs another service is rejected there.
The DebugBatch of the single-service families runs under all names that are unique per case, too.
Family `sched` (mode `batchingm sched`): tasks awaiting DebugBatchItems of one or two names for several rounds, the
batches flushed by the scheduler; judged by a direct expectation in Drv/BatchServices.lean (no theorem)."""
import hashlib
import json
import random

PID = "C11"
LEVEL = "proof"
LEAN_MODULES = ["AsynqModel.Theorems.C11", "AsynqModel.Theorems.C11s", "AsynqModel.Theorems.C11b"]
HEADLINE = [
    # the observer accepts every history of the model; the invariant; the inductive step for EVERY snapshot inside the
    # invariant (hypothesis `Good s`, decidable - weaker than reachability)
    "AsynqModel.Batching.C11_spec_holds",
    # Theorems/C11b.lean: an accepted history of any length and origin passed specStep at EVERY position (against the
    # batch state shown by the record before it); prefix-closed; one rejected record rejects the history
    "AsynqModel.Batching.C11_spec_every_step",
    "AsynqModel.Batching.C11_spec_prefix",
    "AsynqModel.Batching.C11_spec_rejects",
    "AsynqModel.Batching.C11_model_every_step",   # non-vacuity: every history of the model meets the hypothesis, at every position
    "AsynqModel.Batching.C11_no_item_left_pending",
    "AsynqModel.Batching.C11_step_accepted",
    # per clause of the property text, all with the single hypothesis `Good s` (+ the batch / item is pending)
    "AsynqModel.Batching.C11_once",
    "AsynqModel.Batching.C11_flushed",
    "AsynqModel.Batching.C11_item_value_flushes",
    "AsynqModel.Batching.C11_batch_value_flushes",
    "AsynqModel.Batching.C11_cancel",
    "AsynqModel.Batching.C11_quiet",
    "AsynqModel.Batching.C11_request_joins_active",
    "AsynqModel.Batching.C11_frame",
    "AsynqModel.Batching.C11_every_change_logged_once",
    "AsynqModel.Batching.C11_items_before_announce",
    "AsynqModel.Batching.C11_fresh_batch_during_flush",
    "AsynqModel.Batching.C11_set_outcome_kept",
    "AsynqModel.Batching.completeItem_fuel_enough",
    # necessity of the hypothesis `Good s` (machine-checked witness)
    "AsynqModel.Batching.C11_invariant_needed",
    # several services interleaved, free-standing batches, KEEP_DEPENDENCIES switched in mid-flight (Theorems/C11s.lean)
    "AsynqModel.Batching.C11_services_spec_holds",
    "AsynqModel.Batching.C11_services_no_item_left_pending",
    "AsynqModel.Batching.C11_services_step",
    "AsynqModel.Batching.C11_free_batch_good",
    "AsynqModel.Batching.C11_free_batch_keeps_slot",
]
# hold by construction of the model (one unfolding, ANY state): audited for axioms, not part of the claim - the content
# of these clauses of the property is the correspondence check (observer clauses on the recorded result of the real call)
BY_CONSTRUCTION = [
    "AsynqModel.Batching.C11_spec_holds_hook",
    "AsynqModel.Batching.C11_second_flush_error",
    "AsynqModel.Batching.C11_cancel_finished_noop",
    "AsynqModel.Batching.C11_no_add_after_finish",
    "AsynqModel.Batching.C11_flush_cancel_return",
    "AsynqModel.Batching.C11_services_independent",
    "AsynqModel.Batching.C11_keep_switch_good",
]
BY_CONSTRUCTION_WHY = {
    "C11_second_flush_error": "step (.flush b) on a finished batch is literally (s, raised batching, [])",
    "C11_cancel_finished_noop": "step (.cancel b x) on a finished batch is literally (s, unit, [])",
    "C11_no_add_after_finish": "newItemOn refuses a finished batch: step (.addTo b p) is literally (s, raised assertAdd, [])",
    "C11_spec_holds_hook": "stepH ignores its hook parameter (stepH _ := step, the code since fix f2f3435 catches an Exception "
                           "out of _cancel()): the theorem is C11_spec_holds re-stated; THAT a raising hook changes nothing is "
                           "the correspondence run of the cases with key `hook` (third audit, section C)",
    "C11_flush_cancel_return": "the model has no exception channel out of flush()/cancel() (nor has the _cancel hook since "
                               "fix f2f3435: BatchBase._computed catches an Exception it raises)",
    "C11_services_independent": "stepM touches component v only: the model gives every service its own state because the "
                                "code looks the slot up under self.name only; that the real services do not disturb each "
                                "other is the correspondence check",
    "C11_keep_switch_good": "the invariant Good does not mention the option",
}
THEOREMS = HEADLINE + BY_CONSTRUCTION
BUILDS = {"quick": ["py"], "thorough": ["py", "cy"]}
RULE = ("systematic core (both batch kinds x 14 flush-script templates x 7 ways of finishing a batch x 6 ways of filling it "
        "- 3 of them with sibling-completing handlers: forward, backward, chain - each followed by the protocol-error "
        "probes: second flush, cancel after finish, add to finished batch, item/batch reads); the same core under every "
        "debug option that batching.py reads; a size family (17/40/100 items, thorough also 300, handlers on every 3rd "
        "item); plus random histories (1-24 ops over add/addTo/flush/cancel(+-error)/item.value/batch.value/batch.error/"
        "queries, random scripts per batch, 20 % of the items with a spawn handler, 30 % with a link handler, 8 % with "
        "value None, 22 % of the cases under 1-3 debug options, a small stream of operations on non-existent tokens); "
        "family reenter (systematic 11 bodies x 6 finishers x 3 fillings + 500 random histories with self-cancelling bodies "
        "/ cancelling handlers; thorough 6000); "
        "the DebugBatch of all these under 15 kinds of name (60 % of the random debug cases; systematic: 14 kinds x 7 "
        "finishers x 4 fillings); "
        "family svc (mode batchingm hist): one DebugBatch service under each of 23 kinds of name x 7 finishers x 2 "
        "fillings; two services side by side (9 pairs name / str(name) and the like + 3 pairs with a harness subclass) x "
        "7 finishers x second service on the main / on its own thread; free-standing batch objects (6 services x 7 "
        "finishers x 2 continuations); every debug option switched on / off between add and flush (2 services x 7 "
        "options x 4 finishers x 2 phases); 1 500 (thorough 15 000) random interleavings of 1-3 services (40 % harness "
        "subclass, random names, 40 % on one of two helper threads, 6 % free-standing batches, 7 % option switches, 3-30 "
        "operations); family sched (mode batchingm sched): 23 names x 3 (rounds, tasks) shapes, 9 pairs x 2 threads, 7 "
        "options, thorough also 6 rounds x 13 tasks; "
        "non-trivial = a batch with at least one item finishes and the history has >= 3 operations; distinct by "
        "(kind, options, scripts, history) hash")
TRUSTED = [
    "hand-written Lean model AsynqModel.Lib.Batching tied to the code by this differential run only",
    "Python harness checks/c11.py (token <-> object identity mapping, read-only snapshot after each operation, "
    "hooks: on_computed of every batch and item, the harness subclass's _flush incl. what it raised)",
    "qcore.EventHook.safe_trigger, qcore.errors.reraise",
    "family `reenter` (mode batchingx): the expectation written in lean/AsynqModel/Drv/Batching.lean handleX and the "
    "observer's relaxed mode rx",
    "family `sched` (mode batchingm sched): the expectation written in lean/AsynqModel/Drv/BatchServices.lean handleSched "
    "(no theorem speaks about it) and the scheduler of the library that flushes the batches",
    "family `svc`: an operation on a service index that does not exist is logged as `(inv)` by the harness and skipped by "
    "the observer watchM (harness-trusted); the line `(pre v ok)` (after the throw-away request that brings a DebugBatch "
    "slot into existence was finished, the slot holds a pending, empty batch) is computed in Python and only read by "
    "the driver (a direct expectation, Drv/BatchServices.lean)",
    "family `svc`: the helper threads of the harness (one call at a time, the main thread waits), the read of the "
    "thread-local registry `asynq.batching._debug_batch_state.batches.get(name)` for the snapshot (read-only)",
]
ASSUMPTIONS = [
    "flush bodies are the scripted ones (set value/error of own items, create requests, raise); they do not re-enter "
    "flush()/value() of their own or another batch; cancelling the batch being flushed (from the body or from a "
    "completion handler) happens only in the family `reenter`, which is outside the model: no theorem speaks about it, "
    "it is judged by the observer Batching.specClause in mode rx (the outcome found at the end of the body stands; the "
    "outcome of a DebugBatch is not judged) plus the direct expectation in Drv/Batching.lean handleX",
    "re-entering a batch from its own flush body is outside the quantifier of the property (it lists bodies that set "
    "items, set errors, raise, or create new items) and is NOT harmless: a body that calls item.value() of an item of "
    "the batch being flushed runs the flush body a SECOND time (BatchItemBase._compute -> batch.flush() -> is_computed() "
    "is still False; reproduced on the current tree: runs=2) - not generated, not modelled, no theorem",
    "the protected hook `_try_switch_active_batch()` only installs a fresh batch (its docstring: 'Must never throw an "
    "error').  The hook `_cancel()` IS part of model and generator (case key `hook`: the harness subclass's _cancel() "
    "raises an Exception token 1-4; model Lib/BatchingHook.lean stepH, which ignores the hook since /repo fix f2f3435 - the "
    "claim 'a raising hook changes nothing' is carried by the correspondence run, C11_spec_holds_hook holds by construction; before the fix: "
    "cancel() raised and the items stayed pending for ever, finding `user/cancel-hook-raises`, fixed).  A `_cancel()` that "
    "raises a BaseException which is not an Exception is not generated (the fix treats the hook like an "
    "on_computed callback, futures.py:131-140: Exceptions are reported and swallowed, BaseExceptions propagate - probed: "
    "cancel() raises it, the batch is computed, its item stays pending, i.e. the behaviour `stepHook` describes); "
    "DebugBatch._cancel is library code (a debug line) and has no hook in the model",
    "the interpreter runs with assertions enabled: 'no item can be added to a finished batch' is an `assert` in "
    "BatchItemBase.__init__ (batching.py:210-212); under `python -O` / PYTHONOPTIMIZE the constructor ACCEPTS the item, "
    "which then stays pending for ever and value() returns the internal marker (reproduced on the current tree).  The "
    "harness does not run under -O; proposed (not applied) fix: `if batch.is_flushed(): raise AssertionError(...)`",
    "errors given to cancel(error) / set_error are exception OBJECTS (tokens 1-8); cancel(0) or another non-exception "
    "makes item.value() raise TypeError ('exceptions must derive from BaseException') - not generated.  Exception and "
    "BaseException tokens are ONE constructor `Err.user n` in the model: that `_compute` catches BaseException and not "
    "only Exception is seen by the correspondence check (tokens 5-8 are BaseException-only objects), not by a theorem",
    "items are constructed through the service (`add`, `newItem`, `spawn`) or by the client on a batch between two "
    "operations (`addTo`); a flush body that constructs an item directly on the batch being flushed (while "
    "DebugBatch._flush walks the live list) is not generated",
    "on_computed handlers of items only log, issue new requests and complete pending items of the SAME batch; handlers "
    "that raise are C10's subject; handlers that re-enter flush()/cancel()/value() of a batch are not generated",
    "of the debug options only KEEP_DEPENDENCIES exists in the model (a configuration in the single-service model, "
    "switchable between two operations in the model of family svc); DUMP_FLUSH_BATCH, DUMP_STACK, DUMP_SYNC, "
    "DUMP_COMPUTED, DUMP_DEPENDENCIES, COLLECT_PERF_STATS are expected to change nothing observable, also when switched "
    "in mid-flight; options are switched between operations, not from inside a flush body",
    "threads: every service lives on ONE thread (all its operations, handlers and snapshots run there) and operations of "
    "different threads never overlap in time; a batch is never finished from a thread other than the one its service "
    "lives on (DebugBatch would then look its slot up in the other thread's registry; the property text does not speak "
    "about threads)",
    "two services of one case never have EQUAL names (True/1, a (str, Enum) member and its value, ... are one key and "
    "therefore one service); that names which are different dictionary keys are different services - e.g. 7 and '7' - "
    "is read off the mechanism (batching.py:239-241,255) and demanded by the families svc and sched",
    "compiled build: `cdef public str name` (batching.pxd) accepts an exact str or None only, every other kind of name "
    "makes DebugBatch.__init__ raise TypeError there; under the compiled build the harness replaces such names by a plain "
    "str (feature `name=` shows what ran)",
    "asyncio mode is outside C11: asynq_to_async.py:58-59 rejects batch items there ('asynq BatchItem is not supported "
    "in asyncio mode'); asynq.mock, deduplicate / caches, scoped values, async_proxy, asynq.generator do not touch "
    "batching.py",
    "for DebugBatch the flush body itself cannot be hooked through public API: its runs are observed through the "
    "item completions only (run counter fixed to 0, no body/bodyEnd events; the observer then demands the outcome "
    "None or FutureIsAlreadyComputed)",
    "`flush()` / `cancel()` return normally: true of the model by construction "
    "(C11_flush_cancel_return, BY_CONSTRUCTION); for the implementation it is the observer's clauses flush-total / "
    "cancel-total on the recorded result - which is how the former finding user/cancel-hook-raises (fixed f2f3435) was seen",
    "'with the value the flush body set': the observer does not see the scripts, so that the value in the log is the "
    "one the script named rests on the correspondence check; the theorems say that what harness code set is kept "
    "(C11_set_outcome_kept) and that the library sets nothing but the batch's error / 'not set' / `_result` on items "
    "of the batch being finished (C11_items_before_announce, C11_frame)",
    "family sched: the expectations `sched-batches-N-for-R-rounds` and `sched-batch-size` (how many batches form and "
    "how big they are) are the scheduler's batching behaviour - C04's subject, kept here as a regression expectation; "
    "C11 proper says nothing about them",
]
CASE_TIMEOUT = 20
UNKNOWN = 999999
KINDS = ["user", "debug"]

TEMPLATES = [
    [["setAll"]],
    [],
    [["setValue", 0, 1]],
    [["setValue", 1, 2], ["setError", 0, 1]],
    [["setError", 0, 6], ["setValue", 2, 3]],
    [["setAll"], ["raise", 1]],
    [["raise", 2]],
    [["raise", 5]],
    [["setValue", 0, 1], ["raise", 6]],
    [["newItem", 4], ["setAll"]],
    [["setAll"], ["newItem", 4], ["newItem", 5]],
    [["setValue", 0, 1], ["newItem", 4], ["raise", 5]],
    [["setValue", 0, 1], ["setValue", 0, 2]],
    [["setError", 1, 2], ["setAll"], ["newItem", 3]],
]


def gen_script(rng):
    if rng.random() < 0.5:
        return [list(a) for a in rng.choice(TEMPLATES)]
    acts = []
    for _ in range(rng.choice([0, 1, 1, 2, 2, 3, 4])):
        w = rng.choices(["setValue", "setError", "setAll", "newItem", "raise"], weights=[4, 2, 2, 2, 1])[0]
        if w == "setValue":
            acts.append([w, rng.randint(0, 3), rng.randint(0, 5)])
        elif w == "setError":
            acts.append([w, rng.randint(0, 3), rng.randint(1, 8)])
        elif w == "setAll":
            acts.append([w])
        elif w == "newItem":
            acts.append([w, rng.randint(1, 9)])
        else:
            acts.append([w, rng.randint(1, 8)])
    return acts


OPTS = ["KEEP_DEPENDENCIES", "DUMP_FLUSH_BATCH", "DUMP_STACK", "DUMP_SYNC", "DUMP_COMPUTED", "DUMP_DEPENDENCIES",
        "COLLECT_PERF_STATS"]


def gen_link(rng):
    """[target item (global creation index), is_error, token]"""
    if rng.random() < 0.3:
        return [rng.choice([0, 0, 1, 1, 2, 2, 3, 4, 5, 7]), 1, rng.randint(1, 8)]
    return [rng.choice([0, 0, 1, 1, 2, 2, 3, 4, 5, 7]), 0, rng.randint(0, 9)]


def gen_op(rng):
    w = rng.choices(
        ["add", "addTo", "flush", "cancel", "itemValue", "batchValue", "batchError",
         "isFlushed", "isCancelled", "isEmpty", "itemComputed"],
        weights=[12, 2, 6, 4, 6, 2, 2, 1, 1, 1, 1])[0]
    k = rng.choice([0, 0, 0, 0, 1, 1, 2, 3, 5])
    if rng.random() < 0.01:
        k = 1000 + rng.randint(0, 50)  # malformed stream: a token that does not exist
    if w == "add":
        return [w, 0 if rng.random() < 0.08 else rng.randint(1, 9), rng.randint(1, 9) if rng.random() < 0.2 else None,
                gen_link(rng) if rng.random() < 0.3 else None]
    if w == "addTo":
        return [w, k, rng.randint(1, 9)]
    if w == "cancel":
        return [w, k, rng.randint(1, 8) if rng.random() < 0.5 else None]
    return [w, k]


def gen_case(rng, size=None):
    n = size if size is not None else rng.choice([1, 2, 3, 4, 5, 6, 8, 10, 12, 16, 20, 24])
    c = {"kind": rng.choice(KINDS), "scripts": [gen_script(rng) for _ in range(rng.choice([1, 2, 3, 6]))],
         "ops": [gen_op(rng) for _ in range(n)]}
    if rng.random() < 0.22:
        c["opts"] = sorted(rng.sample(OPTS, rng.choice([1, 1, 2, 3])))
    if c["kind"] == "debug":
        c["pre"] = rng.choice(["flush", "flush", "cancel", "value"])
        if rng.random() < 0.6:
            c["name"] = rng.choice(UNIQUE_NAMES)      # the service's name: any dictionary key
    elif rng.random() < 0.05:
        c["hook"] = rng.randint(1, 4)                 # the subclass's _cancel() raises this Exception
    return c


def corpus():
    import glob
    import os
    res = []
    d = os.path.join(os.path.dirname(os.path.dirname(os.path.dirname(os.path.abspath(__file__)))), "corpus", PID)
    for p in sorted(glob.glob(os.path.join(d, "*.json"))):
        with open(p) as f:
            res.append(json.load(f))
    return res


FINISHERS = [["flush", 0], ["cancel", 0, None], ["cancel", 0, 3], ["cancel", 0, 7], ["itemValue", 1], ["batchValue", 0],
             ["batchError", 0]]
# after the finisher the finished batch is the second newest one (k = 1)
PROBES = [["itemComputed", 0], ["itemValue", 0], ["itemValue", 1], ["itemValue", 2], ["flush", 1], ["cancel", 1, None],
          ["cancel", 1, 2], ["addTo", 1, 7], ["isFlushed", 1], ["isCancelled", 1], ["isEmpty", 1], ["batchValue", 1],
          ["batchError", 1], ["add", 8, None], ["isFlushed", 0], ["itemValue", 0], ["flush", 1], ["flush", 0], ["flush", 1]]


ADDS = [
    [["add", 1, None, None], ["add", 2, 9, None], ["add", 3, None, None]],
    [["add", 1, 2, None]],
    [],
    # handlers that complete a sibling: forward (an earlier item completes a later one) ...
    [["add", 1, None, [1, 0, 5]], ["add", 2, 9, None], ["add", 0, None, None]],
    # ... backward (a later item completes an earlier one: fires when the later one is completed first) ...
    [["add", 1, None, None], ["add", 2, None, [0, 1, 2]], ["add", 3, None, [1, 0, 0]]],
    # ... and a chain 0 -> 1 -> 2 -> 0 with a request issued on the way
    [["add", 1, None, [1, 0, 4]], ["add", 2, None, [2, 1, 6]], ["add", 3, 4, [0, 0, 7]], ["add", 5, None, None]],
]


def _case(kind, t, fin, adds, opts=None, pre=None):
    # the batch created while the first one is flushed gets the same script
    c = {"kind": kind, "scripts": [[list(a) for a in t], [list(a) for a in t], [["setAll"]]],
         "ops": [list(o) for o in adds] + [list(fin)] + [list(o) for o in PROBES]}
    if opts:
        c["opts"] = list(opts)
    if pre:
        c["pre"] = pre
    return c


def systematic():
    cases = []
    for kind in KINDS:
        for t in TEMPLATES if kind == "user" else [TEMPLATES[0]]:
            for fin in FINISHERS:
                for adds in ADDS:
                    cases.append(_case(kind, t, fin, adds))
    # the protected hook `_cancel()` of the subclass raises an Exception (BatchBase._computed calls it when the batch
    # finishes with an error): bodies that return / raise Exception / raise BaseException x every way of finishing
    for hk, t in ((1, TEMPLATES[0]), (1, TEMPLATES[1]), (2, TEMPLATES[6]), (3, TEMPLATES[7]), (4, TEMPLATES[8]),
                  (1, TEMPLATES[11]), (2, TEMPLATES[3])):
        for fin in FINISHERS:
            for adds in (ADDS[0], ADDS[3]):
                c = _case("user", t, fin, adds)
                c["hook"] = hk
                cases.append(c)
    # DebugBatch under every kind of name (the slot is a dictionary entry; the key is whatever the client passed)
    for nk in UNIQUE_NAMES[1:]:
        for fin in FINISHERS:
            for adds in (ADDS[0], ADDS[1], ADDS[3], ADDS[5]):
                c = _case("debug", TEMPLATES[0], fin, adds, None, ["flush", "cancel", "value"][len(cases) % 3])
                c["name"] = nk
                cases.append(c)
    # the same core under every debug option batching.py (and the futures under it) reads, one at a time and KEEP + DUMP
    for opts in [[o] for o in OPTS] + [["DUMP_FLUSH_BATCH", "KEEP_DEPENDENCIES"], list(OPTS)]:
        for kind in KINDS:
            for t in ([TEMPLATES[0], TEMPLATES[1], TEMPLATES[3], TEMPLATES[8], TEMPLATES[11]] if kind == "user"
                      else [TEMPLATES[0]]):
                for fin in (FINISHERS[0], FINISHERS[1], FINISHERS[4]):
                    for adds in (ADDS[0], ADDS[3]):
                        cases.append(_case(kind, t, fin, adds, opts, "cancel" if kind == "debug" else None))
    return cases


def sized(tier):
    """SIZE matters: batches of n items (every 3rd with a handler completing the next item, every 7th issuing a request)"""
    cases = []
    for n in ([17, 40, 100] if tier == "quick" else [17, 33, 64, 100, 300]):
        adds = [["add", 1 + i % 9, (1 + i % 5) if i % 7 == 6 else None,
                 [i + 1, i % 2, 1 + i % 8] if i % 3 == 0 else None] for i in range(n)]
        probes = [["itemValue", 0], ["itemValue", n - 1], ["itemValue", n // 2], ["flush", 1], ["cancel", 1, 2],
                  ["addTo", 1, 3], ["isEmpty", 1], ["batchError", 1], ["flush", 0], ["itemComputed", n + 1]]
        for kind in KINDS:
            for t in ([[["setAll"]], [], [["raise", 2]], [["setValue", 0, 1], ["setValue", n - 1, 2], ["raise", 5]],
                       [["setValue", n - 2, 3], ["setError", 16, 1]]] if kind == "user" else [[]]):
                for fin in (["flush", 0], ["cancel", 0, None], ["cancel", 0, 7], ["itemValue", 0], ["batchValue", 0]):
                    c = {"kind": kind, "scripts": [t, [["setAll"]]], "ops": adds + [fin] + probes, "fam": "size%d" % n}
                    if n == 40:
                        c["opts"] = ["KEEP_DEPENDENCIES"]
                    cases.append(c)
    return cases


RE_TEMPLATES = [
    [["cancelSelf", None]],
    [["cancelSelf", 3]],
    [["setValue", 0, 1], ["cancelSelf", 2], ["setValue", 1, 2]],
    [["cancelSelf", 6], ["raise", 1]],
    [["setAll"], ["cancelSelf", None]],
    [["cancelSelf", 1], ["cancelSelf", 2]],
    [["newItem", 4], ["cancelSelf", 8], ["newItem", 5]],
    [["setValue", 0, 1]],       # with a cancelling handler on item 0: the handler cancels while the body runs
    [],                         # ... the handler runs while _computed completes the leftovers: cancel() is a no-op
    [["raise", 5]],
    [["setError", 1, 2], ["setAll"]],
]
RE_ADDS = [
    [["add", 1, None, None, 0], ["add", 2, None, None], ["add", 3, None, None]],
    [["add", 1, None, [1, 0, 5], 4], ["add", 2, 9, None, 0], ["add", 0, None, None]],
    [["add", 1, None, None], ["add", 2, None, None, 7], ["add", 3, None, [0, 1, 2]]],
]


def reenter(tier, rng):
    """family `reenter`: the flush body / a completion handler cancels the very batch it is called from"""
    cases = []
    for kind in KINDS:
        for t in RE_TEMPLATES if kind == "user" else [[]]:
            for fin in (FINISHERS[0], FINISHERS[1], FINISHERS[3], FINISHERS[4], FINISHERS[5], FINISHERS[6]):
                for adds in RE_ADDS:
                    c = _case(kind, t, fin, adds)
                    c["fam"] = "reenter"
                    cases.append(c)
    for _ in range(500 if tier == "quick" else 6000):
        c = gen_case(rng)
        c["fam"] = "reenter"
        for sc in c["scripts"]:
            if rng.random() < 0.5:
                sc.insert(rng.randint(0, len(sc)), ["cancelSelf", rng.choice([None, None, 1, 2, 3, 5, 8])])
        for op in c["ops"]:
            if op[0] == "add" and rng.random() < 0.3:
                op.append(rng.choice([0, 0, 1, 2, 4, 6, 8]))
        cases.append(c)
    return cases



# ---- family `svc`: several services interleaved, free-standing batches, debug options switched in mid-flight ----

def _svc(kind, name=None, thread=0, scripts=None, pre=None):
    s = {"kind": kind}
    if kind == "debug":
        s["name"] = name or "plain"
        s["pre"] = pre or "flush"
    else:
        s["scripts"] = [[list(a) for a in x] for x in (scripts if scripts is not None else [[["setAll"]]])]
    if thread:
        s["thread"] = thread
    return s


def _on(v, ops):
    return [[v] + list(o) for o in ops]


SVC_PROBES = [["itemValue", 0], ["itemValue", 1], ["flush", 1], ["cancel", 1, 2], ["addTo", 1, 7], ["isEmpty", 1],
              ["batchError", 1], ["add", 8, None, None], ["itemValue", 0], ["flush", 1], ["isFlushed", 0]]


def services(tier, rng):
    cases = []

    def mk(svcs, ops, opts=None):
        c = {"fam": "svc", "svcs": svcs, "ops": ops}
        if opts:
            c["opts"] = list(opts)
        cases.append(c)

    # (a) one DebugBatch service under every kind of name, shared names included (leftovers of earlier computations)
    for nk in NAME_KINDS:
        for fi, fin in enumerate(FINISHERS):
            for adds in (ADDS[0], ADDS[3]):
                mk([_svc("debug", nk, 0, None, ["none", "flush", "cancel", "value"][(fi + len(adds)) % 4])],
                   _on(0, list(adds) + [fin] + SVC_PROBES))
    # (b) two services side by side (a name and the str() of it; two names of one kind; a user subclass and a
    #     DebugBatch), the second one possibly on a thread of its own: finishing a batch of one leaves the other alone
    t3 = [[["setValue", 0, 1], ["newItem", 4], ["raise", 5]], [["setAll"]], [["setAll"]]]
    pairs = [(_svc("debug", a, 0, None, "none"), _svc("debug", b)) for a, b in RELATED_NAMES]
    pairs += [(_svc("user", scripts=t3), _svc("debug", "tuple")), (_svc("user", scripts=t3), _svc("user", scripts=[[]])),
              (_svc("debug", "strenum"), _svc("user", scripts=t3))]
    for a, b in pairs:
        for fin in FINISHERS:
            for th in (0, 1):
                b2 = dict(b)
                if th:
                    b2["thread"] = 1
                ops = (_on(0, [["add", 1, None, None]]) + _on(1, [["add", 2, None, None]]) + _on(0, [["add", 3, 4, None]])
                       + _on(1, [["add", 0, 5, None]]) + _on(0, [fin]) + _on(1, [["add", 6, None, None], ["isFlushed", 0]])
                       + _on(0, SVC_PROBES[:6]) + _on(1, [fin]) + _on(1, SVC_PROBES[:8]) + _on(0, [["add", 2, None, None]]))
                mk([dict(a), b2], ops)
    # (c) a batch object constructed by the client (does not hold the slot): items put on it, finished in every way,
    #     while the active batch has items of its own; then the active batch is finished
    for sv in (_svc("user", scripts=[[["setAll"]], [["setValue", 0, 2], ["newItem", 3]], [["setAll"]], [["raise", 2]]]),
               _svc("user", scripts=[[], [["raise", 6]], [], []]), _svc("debug", "plain"), _svc("debug", "tuple"),
               _svc("debug", "default"), _svc("debug", "none", 1)):
        for fin in FINISHERS:
            for late in (0, 1):
                ops = _on(0, [["add", 1, None, None]]) + [["nb", 0]] + _on(0, [["addTo", 0, 5], ["addTo", 0, 0], ["add", 2, 7, None]])
                ops += _on(0, [fin if fin[0] != "itemValue" else ["itemValue", 1]])
                ops += _on(0, [["isFlushed", 1], ["isFlushed", 0], ["add", 3, None, None], ["flush", 0], ["addTo", 0, 1]])
                if late:
                    ops += [["nb", 0]] + _on(0, [["cancel", 0, None], ["flush", 1], ["flush", 0], ["add", 4, None, None]])
                else:
                    ops += _on(0, [["flush", 1], ["itemValue", 0], ["flush", 1]])
                mk([sv], ops)
    # (d) a debug option switched while batches are pending (KEEP_DEPENDENCIES is read by flush() when it runs;
    #     the others must change nothing)
    for sv in (_svc("user", scripts=[[["setValue", 0, 1]], [["setAll"]], []]), _svc("debug", "int")):
        for o in OPTS:
            for fin in (FINISHERS[0], FINISHERS[4], FINISHERS[5], FINISHERS[1]):
                for start in (0, 1):
                    ops = _on(0, [["add", 1, None, None], ["add", 2, None, None]]) + [["opt", o, 1 - start]]
                    ops += _on(0, [fin, ["isEmpty", 1], ["add", 3, 4, None]]) + [["opt", o, start]]
                    ops += _on(0, [["add", 5, None, None], ["flush", 0], ["isEmpty", 1], ["itemValue", 0], ["itemValue", 3]])
                    mk([sv], ops, [o] if start else None)
    # random interleavings
    for _ in range(1500 if tier == "quick" else 15000):
        n = rng.choice([1, 2, 2, 3])
        svcs = []
        for v in range(n):
            if rng.random() < 0.4:
                svcs.append(_svc("user", None, rng.choice([0, 0, 0, 1, 2]),
                                 [gen_script(rng) for _ in range(rng.choice([1, 2, 3, 6]))]))
            else:
                svcs.append(_svc("debug", rng.choice(NAME_KINDS), rng.choice([0, 0, 0, 1, 2]), None,
                                 rng.choice(["none", "none", "flush", "cancel", "value"])))
        # two services must not share a key: shared names at most once, never `true` next to ... (1 is not generated)
        used = set()
        for s in svcs:
            if s["kind"] == "debug" and s["name"] in SHARED_NAMES:
                if s["name"] in used:
                    s["name"] = "plain"
                used.add(s["name"])
        ops = []
        for _ in range(rng.choice([3, 5, 8, 12, 16, 24, 30])):
            r = rng.random()
            if r < 0.06:
                ops.append(["nb", rng.randrange(n)])
            elif r < 0.13:
                ops.append(["opt", "KEEP_DEPENDENCIES" if rng.random() < 0.6 else rng.choice(OPTS), rng.choice([0, 1])])
            else:
                ops.append([rng.randrange(n)] + gen_op(rng))
        mk(svcs, ops, sorted(rng.sample(OPTS, rng.choice([1, 1, 2]))) if rng.random() < 0.2 else None)
    return cases


def scheduled(tier):
    """family `sched`: tasks awaiting DebugBatchItems of 1-2 names, the scheduler flushes (direct expectation)"""
    cases = []
    for nk in NAME_KINDS:
        for rounds, tasks in ((1, 1), (2, 3), (3, 2)):
            cases.append({"fam": "sched", "rounds": rounds, "svcs": [{"name": nk, "tasks": tasks}]})
    for a, b in RELATED_NAMES:
        for th in (0, 1):
            cases.append({"fam": "sched", "rounds": 2, "thread": th,
                          "svcs": [{"name": a, "tasks": 2}, {"name": b, "tasks": 3}]})
    for o in OPTS:
        cases.append({"fam": "sched", "rounds": 2, "opts": [o], "svcs": [{"name": "tuple", "tasks": 2}, {"name": "plain", "tasks": 1}]})
    if tier != "quick":
        for nk in NAME_KINDS:
            cases.append({"fam": "sched", "rounds": 6, "thread": 1, "svcs": [{"name": nk, "tasks": 9}, {"name": "plain", "tasks": 4}]})
    return cases


def plan(tier, seed):
    rng = random.Random(seed * 1000003 + 11)
    n = 6000 if tier == "quick" else 60000
    cases = corpus() + systematic() + sized(tier)
    cases += [gen_case(rng) for _ in range(n)]
    cases += reenter(tier, random.Random(seed * 1000003 + 1111))
    cases += services(tier, random.Random(seed * 1000003 + 2222))
    cases += scheduled(tier)
    return cases


def _with(case, **kw):
    c = {k: v for k, v in case.items() if k != "id"}
    c.update(kw)
    return c


def _shrink_svc(case):
    ops, svcs = case["ops"], case["svcs"]
    if case.get("opts"):
        for o in case["opts"]:
            yield _with(case, opts=[x for x in case["opts"] if x != o])
    for i in range(len(ops)):
        yield _with(case, ops=ops[:i] + ops[i + 1:])
    if len(svcs) > 1:
        # drop the last service together with its operations
        last = len(svcs) - 1
        yield _with(case, svcs=svcs[:-1], ops=[o for o in ops if not (o[0] == last or (o[0] == "nb" and o[1] == last))])
    for v, s in enumerate(svcs):
        if s.get("thread"):
            yield _with(case, svcs=svcs[:v] + [{k: x for k, x in s.items() if k != "thread"}] + svcs[v + 1:])
        if s["kind"] == "user":
            for j, sc in enumerate(s.get("scripts") or []):
                for i in range(len(sc)):
                    s2 = dict(s, scripts=[list(map(list, x)) for x in s["scripts"]])
                    del s2["scripts"][j][i]
                    yield _with(case, svcs=svcs[:v] + [s2] + svcs[v + 1:])
    for i, op in enumerate(ops):
        if isinstance(op[0], int) and op[1] == "add":
            for pos in (3, 4):
                if len(op) > pos and op[pos] is not None:
                    o2 = [list(o) for o in ops]
                    o2[i][pos] = None
                    yield _with(case, ops=o2)


def _shrink_sched(case):
    if case.get("opts"):
        yield _with(case, opts=[])
    if case.get("thread"):
        yield _with(case, thread=0)
    if len(case["svcs"]) > 1:
        yield _with(case, svcs=case["svcs"][:1])
        yield _with(case, svcs=case["svcs"][1:])
    if case["rounds"] > 1:
        yield _with(case, rounds=case["rounds"] - 1)
    for j, s in enumerate(case["svcs"]):
        if s["tasks"] > 1:
            yield _with(case, svcs=case["svcs"][:j] + [dict(s, tasks=1)] + case["svcs"][j + 1:])


def shrink(case):
    if case.get("fam") == "svc":
        for c in _shrink_svc(case):
            yield c
        return
    if case.get("fam") == "sched":
        for c in _shrink_sched(case):
            yield c
        return
    ops, scripts = case["ops"], case["scripts"]
    if case.get("hook"):
        yield {k: v for k, v in _with(case).items() if k != "hook"}
    if case.get("opts"):
        for o in case["opts"]:
            yield _with(case, opts=[x for x in case["opts"] if x != o])
    for i in range(len(ops)):
        yield _with(case, ops=ops[:i] + ops[i + 1:])
    for j in range(len(scripts)):
        if scripts[j]:
            for i in range(len(scripts[j])):
                s2 = [list(map(list, s)) for s in scripts]
                del s2[j][i]
                yield _with(case, scripts=s2)
    if len(scripts) > 1:
        yield _with(case, scripts=scripts[:-1])
    for i, op in enumerate(ops):
        if op[0] == "add":
            if len(op) > 4:
                o2 = [list(o) for o in ops]
                o2[i] = o2[i][:4]
                yield _with(case, ops=o2)
            for pos in (2, 3):
                if len(op) > pos and op[pos] is not None:
                    o2 = [list(o) for o in ops]
                    o2[i][pos] = None
                    yield _with(case, ops=o2)


def neighbours(case, rng):
    if case.get("fam") == "sched":
        for nk in NAME_KINDS:
            yield _with(case, svcs=[dict(case["svcs"][0], name=nk)] + case["svcs"][1:])
        return
    if case.get("fam") == "svc":
        n = len(case["svcs"])
        for _ in range(30):
            ops = [list(o) for o in case["ops"]]
            r = rng.random()
            if ops and r < 0.3:
                ops[rng.randrange(len(ops))] = [rng.randrange(n)] + gen_op(rng)
            elif r < 0.7:
                ops.insert(rng.randint(0, len(ops)), [rng.randrange(n)] + gen_op(rng))
            else:
                ops.append([rng.randrange(n), "itemValue", rng.randint(0, 3)])
            yield _with(case, ops=ops)
        return
    if case["kind"] == "debug":
        for nk in ("plain", "tuple", "strenum"):
            if nk != case.get("name", "plain"):
                yield _with(case, name=nk)
    for k in KINDS:
        if k != case["kind"]:
            yield {kk: v for kk, v in _with(case, kind=k).items() if kk != "hook"}
    if case.get("opts"):
        yield _with(case, opts=[])
    for _ in range(30):
        ops = [list(o) for o in case["ops"]]
        scripts = [[list(a) for a in s] for s in case["scripts"]]
        r = rng.random()
        if ops and r < 0.3:
            ops[rng.randrange(len(ops))] = gen_op(rng)
        elif r < 0.6:
            ops.insert(rng.randint(0, len(ops)), gen_op(rng))
        elif scripts and r < 0.85:
            scripts[rng.randrange(len(scripts))] = gen_script(rng)
        else:
            ops.append(["itemValue", rng.randint(0, 3)])
        yield _with(case, scripts=scripts, ops=ops)


def signature(case, v):
    if case.get("fam") == "sched":
        names = {s.get("name", "plain") for s in case["svcs"]}
        return "sched%s/%s" % ("" if names <= {"plain"} else "-nonstr-name", v["spec"])
    if case.get("fam") == "svc":
        kinds = sorted({s["kind"] for s in case["svcs"]})
        names = {s.get("name", "plain") for s in case["svcs"] if s["kind"] == "debug"}
        return "svc-%s%s/%s" % ("+".join(kinds), "" if names <= {"plain"} else "-nonstr-name", v["spec"])
    if case["kind"] == "debug" and case.get("name", "plain") != "plain":
        return "debug-nonstr-name/%s" % v["spec"]
    if case["kind"] == "user" and case.get("hook"):
        # the subclass's _cancel() raises (finding fixed by f2f3435: no open entry has this signature any more, so every
        # failure of such a case is reported)
        return "user-cancel-hook/%s" % v["spec"]
    return "%s/%s" % (case["kind"], v["spec"])


def _sx(x):
    return "none" if x is None else str(x)


def _lx(l):
    return "none" if l is None else "(link %d %d %d)" % (l[0], l[1], l[2])


def script_sexp(scripts):
    return "(scripts %s)" % " ".join(
        "(script %s)" % " ".join("(%s)" % " ".join(str(x) for x in a) for a in s) for s in scripts)


# ---------------------------------------------------------------------------------------------------
# implementation side
# ---------------------------------------------------------------------------------------------------

class HarnessBug(Exception):
    pass


class UserErr(Exception):
    pass


class UserBase(BaseException):
    pass


def _no(*a, **k):
    raise RuntimeError("the library has no business calling this")


class FalsyErr(Exception):
    """an Exception that is falsy, has no length, and refuses ==, hash() and repr()"""
    __bool__ = lambda self: False
    __len__ = lambda self: 0
    __eq__ = _no
    __ne__ = _no
    __hash__ = _no
    __repr__ = _no
    __str__ = _no


class FalsyBase(BaseException):
    __bool__ = lambda self: False
    __len__ = lambda self: 0
    __eq__ = _no
    __ne__ = _no


class Weird(object):
    """a value that refuses bool(), ==, hash() and repr()"""
    __bool__ = _no
    __len__ = _no
    __eq__ = _no
    __ne__ = _no
    __hash__ = _no
    __repr__ = _no
    __str__ = _no


class EmptyList(list):
    __eq__ = _no
    __ne__ = _no



# ---------------------------------------------------------------------------------------------------
# the NAME of a DebugBatch service: `DebugBatchItem(batch_name, result)` accepts any dictionary key
# ---------------------------------------------------------------------------------------------------
# unique per case (the registry `_debug_batch_state.batches` of a worker thread lives as long as the worker):
UNIQUE_NAMES = ["plain", "int", "numstr", "tuple", "tuplestr", "strenum", "enumstr", "strsub_str", "otherstr", "strsub",
                "bytes", "frozenset", "nan", "eqkey", "object"]
# the same key in every case: what an earlier computation on the thread left behind is cancelled first
SHARED_NAMES = ["none", "nonestr", "default", "syncdefault", "zero", "empty", "emptytuple", "true"]
NAME_KINDS = UNIQUE_NAMES + SHARED_NAMES
# what the compiled build accepts (`cdef public str name` in batching.pxd: an exact str, or None)
COMPILED_NAMES = {"plain", "numstr", "tuplestr", "enumstr", "otherstr", "none", "nonestr", "default", "syncdefault",
                  "empty"}
# pairs of names that must stay two services although one is the str() of the other
RELATED_NAMES = [("int", "numstr"), ("tuple", "tuplestr"), ("strenum", "enumstr"), ("strsub_str", "otherstr"),
                 ("none", "nonestr"), ("plain", "plain"), ("eqkey", "object"), ("zero", "empty"), ("default", "syncdefault")]


class OddStr(str):
    """a str whose str() is a different text"""
    other = ""

    def __str__(self):
        return self.other


class PlainSub(str):
    pass


class EqKey(object):
    """a dictionary key with value equality and a constant hash: a fresh, equal instance is made for every use;
       it refuses bool() and has a str() that is nobody's key"""
    def __init__(self, u):
        self.u = u

    def __eq__(self, other):
        return type(other) is EqKey and other.u == self.u

    def __ne__(self, other):
        return not self.__eq__(other)

    def __hash__(self):
        return 7

    __bool__ = _no
    __len__ = _no

    def __str__(self):
        return "default"

    def __repr__(self):
        return "EqKey(%r)" % (self.u,)


def make_name(kind, uniq, compiled, slot=0):
    """-> (kind actually used, thunk giving the key object for one use, tag for batching.sync or None)"""
    if compiled and kind not in COMPILED_NAMES:
        kind = "plain"
    u = "%s-%d" % (uniq, slot)
    n = abs(hash(uniq)) % (10 ** 9) * 8 + slot if not isinstance(uniq, int) else uniq * 8 + slot
    if kind == "plain":
        s = "sync-c11-" + u
        return kind, (lambda: s), "c11-" + u
    if kind == "int":
        return kind, (lambda: n), None
    if kind == "numstr":
        s = str(n)
        return kind, (lambda: s), None
    if kind == "tuple":
        return kind, (lambda: tuple(["shard", n])), None          # a fresh, equal tuple for every use
    if kind == "tuplestr":
        s = str(("shard", n))
        return kind, (lambda: s), None
    if kind in ("strenum", "enumstr"):
        import enum
        Tag = enum.Enum("Tag%d" % n, {"USERS": "users-" + u}, type=str)
        m = Tag.USERS                                              # IS a str, str(m) == "Tag<n>.USERS"
        if kind == "strenum":
            return kind, (lambda: m), None
        s = "Tag%d.USERS" % n
        return kind, (lambda: s), None
    if kind == "strsub_str":
        o = OddStr("odd-" + u)
        o.other = "other-" + u
        return kind, (lambda: o), None
    if kind == "otherstr":
        s = "other-" + u
        return kind, (lambda: s), None
    if kind == "strsub":
        o = PlainSub("sub-" + u)
        return kind, (lambda: o), None
    if kind == "bytes":
        return kind, (lambda: ("b-" + u).encode()), None
    if kind == "frozenset":
        return kind, (lambda: frozenset([n, "k"])), None
    if kind == "nan":
        x = float("nan")                                           # found by identity only
        return kind, (lambda: x), None
    if kind == "eqkey":
        return kind, (lambda: EqKey(n)), None
    if kind == "object":
        o = object()
        return kind, (lambda: o), None
    if kind == "none":
        return kind, (lambda: None), None
    if kind == "nonestr":
        return kind, (lambda: "None"), None
    if kind == "default":
        return kind, (lambda: "default"), None
    if kind == "syncdefault":
        return kind, (lambda: "sync-default"), "default"
    if kind == "zero":
        return kind, (lambda: 0), None
    if kind == "empty":
        return kind, (lambda: ""), None
    if kind == "emptytuple":
        return kind, (lambda: ()), None
    if kind == "true":
        return kind, (lambda: True), None
    raise ValueError(kind)


def debug_item(batching, nkind, key, tag, p, v):
    """a request to the DebugBatch service `key()` through the public entry points, in all their spellings"""
    if p == 0:
        if tag == "default":
            return batching.sync()                       # sync(tag="default") -> DebugBatchItem("sync-default")
        if tag is not None:
            return batching.sync(tag) if len(tag) % 2 else batching.sync(tag=tag)
        if nkind == "default":
            return batching.DebugBatchItem()             # both defaults: name "default", result None
        return batching.DebugBatchItem(key())            # result=None by default
    if nkind == "default" and p % 3 == 0:
        return batching.DebugBatchItem(result=v)
    if p % 2:
        return batching.DebugBatchItem(batch_name=key(), result=v)
    return batching.DebugBatchItem(key(), v)


def debug_batch(batching, nkind, key, n):
    """a DebugBatch object constructed by the client (public class): it does not hold the slot of its name"""
    if nkind == "default" and n % 3 == 0:
        return batching.DebugBatch()
    if n % 2:
        return batching.DebugBatch(name=key(), index=n + 3)
    return batching.DebugBatch(key(), n + 3)


class _Runner(object):
    """a helper thread that executes one call at a time (a service may live on a thread of its own)"""
    def __init__(self):
        import threading
        import queue
        self.q, self.r = queue.Queue(), queue.Queue()
        self.t = threading.Thread(target=self._loop)
        self.t.daemon = True
        self.t.start()

    def _loop(self):
        while True:
            fn = self.q.get()
            if fn is None:
                return
            try:
                self.r.put((True, fn()))
            except BaseException as e:
                self.r.put((False, e))

    def call(self, fn):
        self.q.put(fn)
        ok, v = self.r.get()
        if ok:
            return v
        raise v

    def stop(self):
        self.q.put(None)
        self.t.join(2)


class _Inline(object):
    def call(self, fn):
        return fn()

    def stop(self):
        pass


_serial = [0]


def _run_single(case):
    import asynq
    from asynq import batching, futures

    kind = case["kind"]
    scripts = case["scripts"] if kind == "user" else []
    opts = list(case.get("opts") or [])
    keep = "KEEP_DEPENDENCIES" in opts
    # value / error tokens -> objects; identity is what is compared, never equality
    vals = {0: None, 1: ("v", 1), 2: 0, 3: "", 4: Weird(), 5: False, 6: EmptyList(), 7: ValueError("a value"),
            8: float("nan"), 9: asynq.ConstFuture(("v", 9))}
    errs = {1: UserErr("e1"), 2: FalsyErr("e2"),
            3: futures.FutureIsAlreadyComputed("a user's own"),    # classes the library raises / catches itself
            4: batching.BatchCancelledError("a user's own"),
            5: UserBase("b5"), 6: KeyboardInterrupt("b6"), 7: SystemExit(7), 8: FalsyBase("b8")}
    val_tok = {id(v): k for k, v in vals.items() if v is not None}
    err_tok = {id(e): k for k, e in errs.items()}

    events = []
    batches, btoks = [], {}      # token -> object (kept alive), id(object) -> token
    items, itoks = [], {}
    payload, spawn, links, recs = [], [], [], []   # per item token (side tables: compiled classes take no new attributes)
    reenter_fam = case.get("fam") == "reenter"
    hook = case.get("hook") if kind == "user" and not reenter_fam else None
    xlines = []
    flag = {"in_set": False}
    stats = {"during": 0, "linked": 0}

    def vt(v):
        if v is None:
            return 0
        return val_tok.get(id(v), UNKNOWN)

    def et(e, item=None):
        if id(e) in err_tok:
            return "(user %d)" % err_tok[id(e)]
        if isinstance(e, batching.BatchCancelledError):
            if item is not None:
                b = item.batch
                if not (b.is_computed() and b.error() is e):
                    return "(other foreignBatchCancelledError)"
            return "cancelled"
        if isinstance(e, futures.FutureIsAlreadyComputed):
            return "already"
        if type(e) is batching.BatchingError:
            return "batching"
        if isinstance(e, AssertionError) and "wasn't set on batch flush" in str(e):
            return "notSet"
        if isinstance(e, AssertionError) and "can't add an item" in str(e):
            return "assertAdd"
        return "(other %s)" % type(e).__name__

    def peek(f, item=None):
        """read-only: outcome of a future that is computed, else none"""
        if not f.is_computed():
            return "none"
        e = f.error()
        if e is not None:
            return "(err %s)" % et(e, item)
        return "(val %d)" % vt(f.value())

    def on_batch(t):
        act = see_active()
        b = batches[t]
        pend = [i for i, it in enumerate(items) if it.batch is b and not it.is_computed()]
        events.append("(announce %d (%s) %d)" % (t, " ".join(map(str, pend)), act))

    def btok(b):
        t = btoks.get(id(b))
        if t is None:
            t = len(batches)
            btoks[id(b)] = t
            batches.append(b)
            b.on_computed.subscribe(lambda _b, t=t: on_batch(t))
        return t

    def itok(it):
        return itoks.get(id(it), UNKNOWN)

    def on_item(i):
        it = items[i]
        events.append("(item %d %s %d)" % (i, peek(it, it), 1 if flag["in_set"] else 0))
        if spawn[i] is not None:
            src = btok(it.batch)
            try:
                make_item(None, spawn[i], None, src)
            except AssertionError:
                events.append("(createFail %d)" % src)
        lk = links[i]
        if lk is not None and lk[0] < len(items):
            tgt = items[lk[0]]
            # complete a sibling that is still pending (a "derived" item): public API only
            if tgt.batch is it.batch and not tgt.is_computed():
                stats["linked"] += 1
                prev = flag["in_set"]
                flag["in_set"] = True
                try:
                    if lk[1]:
                        tgt.set_error(errs[lk[2]])
                    else:
                        tgt.set_value(vals[lk[2]])
                finally:
                    flag["in_set"] = prev
        if recs[i] is not None:
            recancel(it.batch, recs[i] or None)

    def recancel(b, e):
        """family `reenter`: cancel the batch from inside its own flush body / from a completion handler of its item"""
        t = btok(b)
        was = not b.is_computed()
        prev = flag["in_set"]
        flag["in_set"] = False       # whatever gets completed now is completed by the library
        raised = 0
        try:
            if e is None:
                b.cancel()
            else:
                b.cancel(errs[e])
        except BaseException as ex:
            if type(ex).__name__ == "CaseTimeout":
                raise
            raised = 1
        finally:
            flag["in_set"] = prev
        stats["recancel"] = stats.get("recancel", 0) + (1 if was else 0)
        xlines.append("(x cancel %d %s %d %d)" % (t, _sx(e), 1 if was else 0, raised))

    if kind == "user":
        class Service(object):
            active = None

        svc = Service()

        class MyBatch(batching.BatchBase):
            def __init__(self):
                super(MyBatch, self).__init__()
                self.flush_count = 0

            def _try_switch_active_batch(self):
                if svc.active is self:
                    svc.active = MyBatch()

            def _flush(self):
                self.flush_count += 1
                t = btok(self)
                events.append("(body %d %d)" % (t, see_active()))
                try:
                    self._body(t)
                except BaseException as ex:
                    if type(ex).__name__ != "CaseTimeout":
                        # what the body raised, and whether somebody finished the batch meanwhile (read-only)
                        events.append("(bodyEnd %d %s %s)" % (t, et(ex), peek(self)))
                    raise
                events.append("(bodyEnd %d none %s)" % (t, peek(self)))

            def _body(self, t):
                for a in (scripts[t] if t < len(scripts) else []):
                    if a[0] == "setValue":
                        if a[1] < len(self.items):
                            set_item(self.items[a[1]], True, vals[a[2]])
                    elif a[0] == "setError":
                        if a[1] < len(self.items):
                            set_item(self.items[a[1]], False, errs[a[2]])
                    elif a[0] == "setAll":
                        for it in list(self.items):
                            if not it.is_computed():
                                set_item(it, True, vals[payload[itok(it)]])
                    elif a[0] == "newItem":
                        make_item(None, a[1], None, t)
                    elif a[0] == "raise":
                        raise errs[a[1]]
                    elif a[0] == "cancelSelf" and reenter_fam:
                        recancel(self, a[1])
                    else:
                        raise ValueError(a)

            def _cancel(self):
                # "you can add some additional logic here, if you want to" (batching.py:145-155)
                stats["cancel_hook"] = stats.get("cancel_hook", 0) + 1
                if hook is not None:
                    raise errs[hook]

        class MyItem(batching.BatchItemBase):
            pass

        svc.active = MyBatch()

        def get_active():
            return svc.active

        def construct(batch, p):
            return MyItem(svc.active if batch is None else batch)

        def runs_of(b):
            return b.flush_count
    else:
        _serial[0] += 1
        # the name of the service: any dictionary key (plain: "sync-<tag>", the name asynq.batching.sync(tag) uses)
        nkind, key, tag = make_name(case.get("name", "plain"), case.get("id", 0) * 1000 + _serial[0] % 1000,
                                    not batching.__file__.endswith(".py"))
        # bring the service's slot into existence with public API only: a throw-away request that is flushed,
        # cancelled, or asked for its value (what an earlier computation on this thread leaves behind)
        pre = case.get("pre", "flush")
        if pre == "cancel":
            batching.DebugBatchItem(key()).batch.cancel()
        elif pre == "value":
            debug_item(batching, nkind, key, tag, 0, None).value()
        else:
            batching.DebugBatchItem(key()).batch.flush()

        class RawItem(batching.BatchItemBase):
            def __init__(self, batch, result):
                super(RawItem, self).__init__(batch)
                self._result = result

        def get_active():
            return batching._debug_batch_state.batches.get(key())  # read-only

        def construct(batch, p):
            if batch is None:
                return debug_item(batching, nkind, key, tag, p, vals[p])   # sync(tag) / DebugBatchItem, all spellings
            return RawItem(batch, vals[p])

        def runs_of(b):
            return 0

    def set_item(it, is_value, x):
        flag["in_set"] = True
        try:
            if is_value:
                it.set_value(x)
            else:
                it.set_error(x)
        finally:
            flag["in_set"] = False

    def see_active():
        a = get_active()
        return UNKNOWN if a is None else btok(a)

    def make_item(batch, p, sp, src, lk=None, rec=None):
        it = construct(batch, p)
        if src is not None:
            stats["during"] += 1
        i = len(items)
        items.append(it)
        itoks[id(it)] = i
        payload.append(p)
        spawn.append(sp)
        links.append(lk)
        recs.append(rec if reenter_fam else None)
        events.append("(created %d %d %s)" % (i, btok(it.batch), _sx(src)))
        it.on_computed.subscribe(lambda _it, i=i: on_item(i))
        return i

    def snapshot():
        a = see_active()
        bs = " ".join("(B %s (%s) %d)" % (peek(b), " ".join(str(itok(x)) for x in b.items), runs_of(b)) for b in batches)
        its = " ".join("(I %d %d %s %s %s)" % (btok(it.batch), payload[i], _sx(spawn[i]), _lx(links[i]), peek(it, it))
                       for i, it in enumerate(items))
        return "(st %d (batches %s) (items %s))" % (a, bs, its)

    def resolve(k, n):
        if k >= 1000:
            return k
        if n == 0:
            return 0
        return n - 1 - (k % n)

    # debug options: a configuration, set before the history starts and restored afterwards
    dbg = asynq.debug.options
    saved = {}
    sink = None
    try:
        import io
        sink = (asynq.debug, asynq.debug.stdout)
        asynq.debug.stdout = io.StringIO()      # the DUMP_* options write there; keep it out of the worker's pipe
    except Exception:
        sink = None
    finished_with_items = 0
    try:
        for o in opts:
            saved[o] = getattr(dbg, o)
            setattr(dbg, o, True)
        see_active()
        if reenter_fam:
            lines = ["(case batchingx %d %s (keep %d))" % (case["id"], kind, 1 if keep else 0)]
        else:
            lines = ["(case batching %d %s (keep %d) %s%s)" % (case["id"], kind, 1 if keep else 0,
                                                             "(hook %d) " % hook if hook is not None else "",
                                                             script_sexp(scripts))]
        for op in case["ops"]:
            del events[:]
            name_ = op[0]
            nb, ni = len(batches), len(items)
            before = [b.is_computed() for b in batches]
            try:
                if name_ == "add":
                    lk = op[3] if len(op) > 3 else None
                    rop = "(add %d %s %s)" % (op[1], _sx(op[2]), _lx(lk))
                    res = "(created %d)" % make_item(None, op[1], op[2], None, lk, op[4] if len(op) > 4 else None)
                elif name_ == "addTo":
                    b = resolve(op[1], nb)
                    rop = "(addTo %d %d)" % (b, op[2])
                    res = "(invalid)" if b >= nb else "(created %d)" % make_item(batches[b], op[2], None, None)
                elif name_ in ("itemValue", "itemComputed"):
                    i = resolve(op[1], ni)
                    rop = "(%s %d)" % (name_, i)
                    if i >= ni:
                        res = "(invalid)"
                    elif name_ == "itemComputed":
                        res = "(bool %d)" % (1 if items[i].is_computed() else 0)
                    else:
                        v = items[i].value()
                        res = "(ok %d)" % vt(v) if vt(v) != UNKNOWN else "(marker)"
                else:
                    b = resolve(op[1], nb)
                    rop = "(cancel %d %s)" % (b, _sx(op[2])) if name_ == "cancel" else "(%s %d)" % (name_, b)
                    if b >= nb:
                        res = "(invalid)"
                    elif name_ == "flush":
                        batches[b].flush()
                        res = "(unit)"
                    elif name_ == "cancel":
                        if op[2] is None:
                            if len(lines) % 2:
                                batches[b].cancel()
                            else:
                                batches[b].cancel(error=None)      # the keyword spelling, explicit default
                        elif len(lines) % 2:
                            batches[b].cancel(errs[op[2]])
                        else:
                            batches[b].cancel(error=errs[op[2]])
                        res = "(unit)"
                    elif name_ == "batchValue":
                        v = batches[b].value()
                        res = "(ok %d)" % vt(v) if vt(v) != UNKNOWN else "(marker)"
                    elif name_ == "batchError":
                        e = batches[b].error()
                        res = "(errIs none)" if e is None else "(errIs %s)" % et(e)
                    elif name_ == "isFlushed":
                        res = "(bool %d)" % (1 if batches[b].is_flushed() else 0)
                    elif name_ == "isCancelled":
                        res = "(bool %d)" % (1 if batches[b].is_cancelled() else 0)
                    elif name_ == "isEmpty":
                        res = "(bool %d)" % (1 if batches[b].is_empty() else 0)
                    else:
                        raise HarnessBug(name_)
            except BaseException as e:  # the outcome of the operation, not a harness failure
                if type(e).__name__ == "CaseTimeout" or isinstance(e, HarnessBug):
                    raise
                res = "(raised %s)" % et(e)
            snap = snapshot()
            for t, was in enumerate(before):
                if not was and batches[t].is_computed() and any(it.batch is batches[t] for it in items):
                    finished_with_items += 1
            lines.append("(obs %s %s (%s) %s)" % (rop, res, " ".join(events), snap))
        lines += xlines
        lines.append("(end)")
    finally:
        for o, v in saved.items():
            setattr(dbg, o, v)
        if sink is not None:
            sink[0].stdout = sink[1]
        if "COLLECT_PERF_STATS" in opts:
            try:
                asynq.profiler.reset()
            except Exception:
                pass

    text = "\n".join(lines)
    feats = ["kind=" + kind, "len<=%d" % next(b for b in (1, 3, 8, 16, 24, 10**9) if len(case["ops"]) <= b)]
    feats += sorted({"op=" + o[0] for o in case["ops"]})
    feats += ["opt=" + o for o in opts] or ["opt=none"]
    if case.get("fam"):
        feats.append("fam=" + case["fam"])
    if case.get("pre"):
        feats.append("pre=" + case["pre"])
    if kind == "debug":
        feats.append("name=" + nkind)
    if kind == "user":
        feats += sorted({"act=" + a[0] for s in scripts for a in s})
    for key, needle in (("second-flush-raises", "(raised batching)"), ("add-after-finish-raises", "(raised assertAdd)"),
                        ("item-not-set", "(err notSet)"), ("item-error-from-batch", "(err (user"),
                        ("cancelled-default", "(err cancelled)"), ("double-set-in-body", "(err already)"),
                        ("invalid-token", "(invalid)"), ("value-raises", "(raised (user"),
                        ("value-none", "(ok 0)"), ("announce", "(announce "), ("body", "(body ")):
        if needle in text:
            feats.append("seen=" + key)
    if stats["during"]:
        feats.append("seen=request-during-flush")
    if any(o[0] == "add" and len(o) > 3 and o[3] is not None for o in case["ops"]):
        feats.append("link-handlers=yes")
    feats.append("sibling-completed-by-handler=%d" % min(stats["linked"], 3))
    if reenter_fam:
        feats.append("reentrant-cancel-of-pending-batch=%d" % min(stats.get("recancel", 0), 3))
    if kind == "user":
        feats.append("cancel-hook=%s" % ("returns" if hook is None else "raises"))
        if hook is not None:
            feats.append("cancel-hook-raised=%d" % min(stats.get("cancel_hook", 0), 3))
    feats.append("batches=%d" % min(len(batches), 6))
    feats.append("finished-with-items=%d" % min(finished_with_items, 3))
    nontrivial = None
    if finished_with_items >= 1 and len(case["ops"]) >= 3:
        nontrivial = hashlib.sha1(json.dumps([kind, opts, scripts, case["ops"], hook]).encode()).hexdigest()[:16]
    return {"lines": lines, "features": feats, "nontrivial": nontrivial}


# ---------------------------------------------------------------------------------------------------
# family `svc` (mode batchingm / hist): several services interleaved, free-standing batches, options in mid-flight
# ---------------------------------------------------------------------------------------------------

def run_multi(case):
    import asynq
    from asynq import batching, futures

    compiled = not batching.__file__.endswith(".py")
    _serial[0] += 1
    uniq = case.get("id", 0) * 1000 + _serial[0] % 1000
    vals = {0: None, 1: ("v", 1), 2: 0, 3: "", 4: Weird(), 5: False, 6: EmptyList(), 7: ValueError("a value"),
            8: float("nan"), 9: asynq.ConstFuture(("v", 9))}
    errs = {1: UserErr("e1"), 2: FalsyErr("e2"), 3: futures.FutureIsAlreadyComputed("a user's own"),
            4: batching.BatchCancelledError("a user's own"),
            5: UserBase("b5"), 6: KeyboardInterrupt("b6"), 7: SystemExit(7), 8: FalsyBase("b8")}
    val_tok = {id(v): k for k, v in vals.items() if v is not None}
    err_tok = {id(e): k for k, e in errs.items()}
    flag = {"in_set": False, "closed": False}
    stats = {"during": 0, "linked": 0, "finished": 0, "free_finished": 0}
    runners = {0: _Inline()}

    def vt(v):
        return 0 if v is None else val_tok.get(id(v), UNKNOWN)

    def et(e, item=None):
        if id(e) in err_tok:
            return "(user %d)" % err_tok[id(e)]
        if isinstance(e, batching.BatchCancelledError):
            if item is not None:
                b = item.batch
                if not (b.is_computed() and b.error() is e):
                    return "(other foreignBatchCancelledError)"
            return "cancelled"
        if isinstance(e, futures.FutureIsAlreadyComputed):
            return "already"
        if type(e) is batching.BatchingError:
            return "batching"
        if isinstance(e, AssertionError) and "wasn't set on batch flush" in str(e):
            return "notSet"
        if isinstance(e, AssertionError) and "can't add an item" in str(e):
            return "assertAdd"
        return "(other %s)" % type(e).__name__

    def peek(f, item=None):
        if not f.is_computed():
            return "none"
        e = f.error()
        if e is not None:
            return "(err %s)" % et(e, item)
        return "(val %d)" % vt(f.value())

    class Svc(object):
        pass

    def on_batch(S, t):
        if flag["closed"]:
            return
        act = see_active(S)
        b = S.batches[t]
        pend = [i for i, it in enumerate(S.items) if it.batch is b and not it.is_computed()]
        S.events.append("(announce %d (%s) %d)" % (t, " ".join(map(str, pend)), act))

    def btok(S, b):
        t = S.btoks.get(id(b))
        if t is None:
            t = len(S.batches)
            S.btoks[id(b)] = t
            S.batches.append(b)
            b.on_computed.subscribe(lambda _b, t=t: on_batch(S, t))
        return t

    def itok(S, it):
        return S.itoks.get(id(it), UNKNOWN)

    def see_active(S):
        a = S.get_active()
        return UNKNOWN if a is None else btok(S, a)

    def on_item(S, i):
        if flag["closed"]:
            return
        it = S.items[i]
        S.events.append("(item %d %s %d)" % (i, peek(it, it), 1 if flag["in_set"] else 0))
        if S.spawn[i] is not None:
            src = btok(S, it.batch)
            try:
                make_item(S, None, S.spawn[i], None, src)
            except AssertionError:
                S.events.append("(createFail %d)" % src)
        lk = S.links[i]
        if lk is not None and lk[0] < len(S.items):
            tgt = S.items[lk[0]]
            if tgt.batch is it.batch and not tgt.is_computed():
                stats["linked"] += 1
                prev = flag["in_set"]
                flag["in_set"] = True
                try:
                    if lk[1]:
                        tgt.set_error(errs[lk[2]])
                    else:
                        tgt.set_value(vals[lk[2]])
                finally:
                    flag["in_set"] = prev

    def set_item(it, is_value, x):
        flag["in_set"] = True
        try:
            if is_value:
                it.set_value(x)
            else:
                it.set_error(x)
        finally:
            flag["in_set"] = False

    def make_item(S, batch, p, sp, src, lk=None):
        it = S.construct(batch, p)
        if src is not None:
            stats["during"] += 1
        i = len(S.items)
        S.items.append(it)
        S.itoks[id(it)] = i
        S.payload.append(p)
        S.spawn.append(sp)
        S.links.append(lk)
        S.events.append("(created %d %d %s)" % (i, btok(S, it.batch), _sx(src)))
        it.on_computed.subscribe(lambda _it, i=i: on_item(S, i))
        return i

    def snapshot(S):
        a = see_active(S)
        bs = " ".join("(B %s (%s) %d)" % (peek(b), " ".join(str(itok(S, x)) for x in b.items), S.runs_of(b))
                      for b in S.batches)
        its = " ".join("(I %d %d %s %s %s)" % (btok(S, it.batch), S.payload[i], _sx(S.spawn[i]), _lx(S.links[i]),
                                               peek(it, it)) for i, it in enumerate(S.items))
        return "(st %d (batches %s) (items %s))" % (a, bs, its)

    def make_user(S):
        class Slot(object):
            active = None

        slot = Slot()

        class MyBatch(batching.BatchBase):
            def __init__(self):
                super(MyBatch, self).__init__()
                self.flush_count = 0

            def _try_switch_active_batch(self):
                if slot.active is self:
                    slot.active = MyBatch()

            def _flush(self):
                self.flush_count += 1
                t = btok(S, self)
                S.events.append("(body %d %d)" % (t, see_active(S)))
                try:
                    self._body(t)
                except BaseException as ex:
                    if type(ex).__name__ != "CaseTimeout":
                        S.events.append("(bodyEnd %d %s %s)" % (t, et(ex), peek(self)))
                    raise
                S.events.append("(bodyEnd %d none %s)" % (t, peek(self)))

            def _body(self, t):
                for a in (S.scripts[t] if t < len(S.scripts) else []):
                    if a[0] == "setValue":
                        if a[1] < len(self.items):
                            set_item(self.items[a[1]], True, vals[a[2]])
                    elif a[0] == "setError":
                        if a[1] < len(self.items):
                            set_item(self.items[a[1]], False, errs[a[2]])
                    elif a[0] == "setAll":
                        for it in list(self.items):
                            if not it.is_computed():
                                set_item(it, True, vals[S.payload[itok(S, it)]])
                    elif a[0] == "newItem":
                        make_item(S, None, a[1], None, t)
                    elif a[0] == "raise":
                        raise errs[a[1]]
                    else:
                        raise ValueError(a)

            def _cancel(self):
                pass

        class MyItem(batching.BatchItemBase):
            pass

        slot.active = MyBatch()
        S.get_active = lambda: slot.active
        S.construct = lambda batch, p: MyItem(slot.active if batch is None else batch)
        S.runs_of = lambda b: b.flush_count
        S.new_batch = lambda n: MyBatch()
        S.nkind = "-"
        S.cleanup = lambda: None

    def make_debug(S, sd, v):
        nkind, key, tag = make_name(sd.get("name", "plain"), uniq, compiled, v)
        S.nkind = nkind
        reg = batching._debug_batch_state      # a threading.local: read on the service's own thread only

        def leftover():
            # a shared name: cancel whatever an earlier computation on this thread left behind (its handlers are dead)
            b = reg.batches.get(key())
            if b is not None and not b.is_computed():
                b.cancel()

        def pre():
            try:
                if nkind in SHARED_NAMES:
                    leftover()
                how = sd.get("pre", "flush")
                if how == "none":
                    return      # no throw-away request: the service's first operation below is a request (see S.first)
                if how == "cancel":
                    batching.DebugBatchItem(key()).batch.cancel()
                elif how == "value":
                    debug_item(batching, nkind, key, tag, 0, None).value()
                else:
                    batching.DebugBatchItem(key()).batch.flush()
            except AssertionError:
                pass        # the slot holds a finished batch: the history below will show it

        class RawItem(batching.BatchItemBase):
            def __init__(self, batch, result):
                super(RawItem, self).__init__(batch)
                self._result = result

        S.runner.call(pre)

        def pre_ok():
            a = reg.batches.get(key())
            if sd.get("pre", "flush") == "none":
                return a is None or (not a.is_computed() and len(a.items) == 0)
            return a is not None and not a.is_computed() and len(a.items) == 0

        S.pre_ok = S.runner.call(pre_ok)
        # without a throw-away request the slot comes into existence with the first request of the history itself:
        # the harness puts one in front (the model's batch 0 is the batch `setdefault` creates for it)
        S.first = sd.get("pre", "flush") == "none"
        S.get_active = lambda: reg.batches.get(key())
        S.construct = lambda batch, p: (debug_item(batching, nkind, key, tag, p, vals[p]) if batch is None
                                        else RawItem(batch, vals[p]))
        S.runs_of = lambda b: 0
        S.new_batch = lambda n: debug_batch(batching, nkind, key, n)
        S.cleanup = lambda: S.runner.call(leftover)

    def resolve(k, n):
        if k >= 1000:
            return k
        if n == 0:
            return 0
        return n - 1 - (k % n)

    dbg = asynq.debug.options
    saved = {}
    sink = None
    try:
        import io
        sink = (asynq.debug, asynq.debug.stdout)
        asynq.debug.stdout = io.StringIO()
    except Exception:
        sink = None
    svcs = []
    opts0 = list(case.get("opts") or [])
    keep0 = "KEEP_DEPENDENCIES" in opts0
    toggled = set()
    lines = []
    nobs = [0]

    def set_opt(o, on):
        if o not in saved:
            saved[o] = getattr(dbg, o)
        setattr(dbg, o, bool(on))

    def do_op(S, op):
        """one operation of the history on service S, on S's thread; returns the observation line"""
        name_ = op[0]
        nb, ni = len(S.batches), len(S.items)
        before = [b.is_computed() for b in S.batches]
        batches, items = S.batches, S.items
        try:
            if name_ == "add":
                lk = op[3] if len(op) > 3 else None
                rop = "(add %d %s %s)" % (op[1], _sx(op[2]), _lx(lk))
                res = "(created %d)" % make_item(S, None, op[1], op[2], None, lk)
            elif name_ == "addTo":
                b = resolve(op[1], nb)
                rop = "(addTo %d %d)" % (b, op[2])
                res = "(invalid)" if b >= nb else "(created %d)" % make_item(S, batches[b], op[2], None, None)
            elif name_ in ("itemValue", "itemComputed"):
                i = resolve(op[1], ni)
                rop = "(%s %d)" % (name_, i)
                if i >= ni:
                    res = "(invalid)"
                elif name_ == "itemComputed":
                    res = "(bool %d)" % (1 if items[i].is_computed() else 0)
                else:
                    x = items[i].value()
                    res = "(ok %d)" % vt(x) if vt(x) != UNKNOWN else "(marker)"
            else:
                b = resolve(op[1], nb)
                rop = "(cancel %d %s)" % (b, _sx(op[2])) if name_ == "cancel" else "(%s %d)" % (name_, b)
                if b >= nb:
                    res = "(invalid)"
                elif name_ == "flush":
                    batches[b].flush()
                    res = "(unit)"
                elif name_ == "cancel":
                    if op[2] is None:
                        if nobs[0] % 2:
                            batches[b].cancel()
                        else:
                            batches[b].cancel(error=None)
                    elif nobs[0] % 2:
                        batches[b].cancel(errs[op[2]])
                    else:
                        batches[b].cancel(error=errs[op[2]])
                    res = "(unit)"
                elif name_ == "batchValue":
                    x = batches[b].value()
                    res = "(ok %d)" % vt(x) if vt(x) != UNKNOWN else "(marker)"
                elif name_ == "batchError":
                    e = batches[b].error()
                    res = "(errIs none)" if e is None else "(errIs %s)" % et(e)
                elif name_ == "isFlushed":
                    res = "(bool %d)" % (1 if batches[b].is_flushed() else 0)
                elif name_ == "isCancelled":
                    res = "(bool %d)" % (1 if batches[b].is_cancelled() else 0)
                elif name_ == "isEmpty":
                    res = "(bool %d)" % (1 if batches[b].is_empty() else 0)
                else:
                    raise HarnessBug(name_)
        except BaseException as e:
            if type(e).__name__ == "CaseTimeout" or isinstance(e, HarnessBug):
                raise
            res = "(raised %s)" % et(e)
        snap = snapshot(S)
        for t, was in enumerate(before):
            if not was and batches[t].is_computed() and any(it.batch is batches[t] for it in items):
                stats["finished"] += 1
                if t in S.free:
                    stats["free_finished"] += 1
        evs = " ".join(S.events)
        del S.events[:]
        return "(obs %d %s %s (%s) %s)" % (S.v, rop, res, evs, snap)

    def do_nb(S, n):
        b = S.new_batch(n)
        S.free.add(btok(S, b))
        snap = snapshot(S)
        evs = " ".join(S.events)
        del S.events[:]
        return "(nb %d (%s) %s)" % (S.v, evs, snap)

    try:
        for o in opts0:
            set_opt(o, True)
        hdr = []
        for v, sd in enumerate(case["svcs"]):
            S = Svc()
            S.v, S.kind = v, sd["kind"]
            S.scripts = (sd.get("scripts") or []) if S.kind == "user" else []
            S.events, S.batches, S.btoks, S.items, S.itoks = [], [], {}, [], {}
            S.payload, S.spawn, S.links, S.free = [], [], [], set()
            th = sd.get("thread", 0)
            if th not in runners:
                runners[th] = _Runner()
            S.runner = runners[th]
            S.thread = th
            if S.kind == "user":
                make_user(S)
            else:
                make_debug(S, sd, v)
            S.runner.call(lambda S=S: see_active(S))
            svcs.append(S)
            hdr.append("(svc %s %s)" % (S.kind, script_sexp(S.scripts)))
        lines.append("(case batchingm %d hist (keep %d) %s)" % (case["id"], 1 if keep0 else 0, " ".join(hdr)))
        for S in svcs:
            if S.kind == "debug":
                lines.append("(pre %d %d)" % (S.v, 1 if S.pre_ok else 0))
        for S in svcs:
            if getattr(S, "first", False):
                lines.append(S.runner.call(lambda S=S: do_op(S, ["add", 2 + S.v, None, None])))
        for op in case["ops"]:
            nobs[0] += 1
            if op[0] == "opt":
                set_opt(op[1], op[2])
                toggled.add(op[1])
                if op[1] == "KEEP_DEPENDENCIES":
                    lines.append("(setKeep %d)" % (1 if op[2] else 0))
            elif op[0] == "nb":
                if op[1] < len(svcs):
                    S = svcs[op[1]]
                    lines.append(S.runner.call(lambda S=S: do_nb(S, nobs[0])))
            elif op[0] < len(svcs):
                S = svcs[op[0]]
                lines.append(S.runner.call(lambda S=S, op=op: do_op(S, op[1:])))
        # one query per service at the end: whatever another service's operation changed here shows up now
        for S in svcs:
            lines.append(S.runner.call(lambda S=S: do_op(S, ["isFlushed", 0])))
        lines.append("(end)")
    finally:
        flag["closed"] = True
        for S in svcs:
            try:
                S.cleanup()
            except BaseException as e:
                if type(e).__name__ == "CaseTimeout":
                    raise
        for o, x in saved.items():
            setattr(dbg, o, x)
        if sink is not None:
            sink[0].stdout = sink[1]
        if "COLLECT_PERF_STATS" in saved:
            try:
                asynq.profiler.reset()
            except Exception:
                pass
        for r in runners.values():
            r.stop()

    text = "\n".join(lines)
    nops = len(case["ops"])
    feats = ["fam=svc", "services=%d" % len(svcs), "len<=%d" % next(b for b in (3, 8, 16, 24, 10**9) if nops <= b)]
    feats += sorted({"kind=" + S.kind for S in svcs})
    feats += sorted({"name=" + S.nkind for S in svcs if S.kind == "debug"})
    feats += sorted({"thread=%d" % S.thread for S in svcs})
    feats += sorted({"op=" + (o[0] if isinstance(o[0], str) else o[1]) for o in case["ops"]})
    feats += ["opt=" + o for o in opts0] or ["opt=none"]
    feats += sorted("midflight=" + o for o in toggled)
    feats.append("free-standing-batch-finished=%d" % min(stats["free_finished"], 3))
    feats.append("finished-with-items=%d" % min(stats["finished"], 3))
    for key, needle in (("second-flush-raises", "(raised batching)"), ("add-after-finish-raises", "(raised assertAdd)"),
                        ("item-not-set", "(err notSet)"), ("double-set-in-body", "(err already)"),
                        ("announce", "(announce "), ("body", "(body ")):
        if needle in text:
            feats.append("seen=" + key)
    if stats["during"]:
        feats.append("seen=request-during-flush")
    feats.append("sibling-completed-by-handler=%d" % min(stats["linked"], 3))
    nontrivial = None
    if stats["finished"] >= 1 and nops >= 3:
        nontrivial = hashlib.sha1(json.dumps([case["svcs"], opts0, case["ops"]]).encode()).hexdigest()[:16]
    return {"lines": lines, "features": feats, "nontrivial": nontrivial}


# ---------------------------------------------------------------------------------------------------
# family `sched` (mode batchingm / sched): DebugBatch items awaited by tasks, the scheduler flushes the batches
# ---------------------------------------------------------------------------------------------------

def run_sched(case):
    import asynq
    from asynq import batching

    compiled = not batching.__file__.endswith(".py")
    _serial[0] += 1
    uniq = case.get("id", 0) * 1000 + _serial[0] % 1000
    rounds = case["rounds"]
    sds = case["svcs"]                     # [{"name": kind, "tasks": k}]
    opts = list(case.get("opts") or [])
    runner = _Runner() if case.get("thread") else _Inline()
    names = [make_name(sd.get("name", "plain"), uniq, compiled, j) for j, sd in enumerate(sds)]
    seen, order = {}, []
    out = {}

    def body():
        reg = batching._debug_batch_state
        for nkind, key, tag in names:
            try:
                b = reg.batches.get(key())
                if b is not None and not b.is_computed():
                    b.cancel()
            except AssertionError:
                pass

        def request(j, payload):
            nkind, key, tag = names[j]
            it = debug_item(batching, nkind, key, tag, 0 if payload is None else 1 + (payload[3] % 2), payload)
            b = it.batch
            if id(b) not in seen:
                rec = {"svc": j, "obj": b, "items": 0, "pending": 0, "announced": 0, "active": 0}
                seen[id(b)] = rec
                order.append(rec)

                def announced(_b, rec=rec, key=key):
                    rec["announced"] += 1
                    rec["items"] = len(rec["obj"].items)
                    rec["pending"] = sum(1 for x in rec["obj"].items if not x.is_computed())
                    rec["active"] = 1 if reg.batches.get(key()) is rec["obj"] else 0

                b.on_computed.subscribe(announced)
            return it

        def payload_of(j, t, r):
            return None if (j + t + r) % 5 == 4 else ("p", j, t, r)

        @asynq.asynq()
        def task(j, t):
            got = []
            for r in range(rounds):
                x = yield request(j, payload_of(j, t, r))
                got.append(x)
            return got

        @asynq.asynq()
        def main():
            res = yield [[task.asynq(j, t) for t in range(sd["tasks"])] for j, sd in enumerate(sds)]
            return res

        try:
            res = main()
            good = all(res[j][t][r] is None if payload_of(j, t, r) is None else res[j][t][r] == payload_of(j, t, r)
                       for j, sd in enumerate(sds) for t in range(sd["tasks"]) for r in range(rounds))
            out["result"] = "(result ok %s)" % ("values-ok" if good else "values-bad")
        except BaseException as e:
            if type(e).__name__ == "CaseTimeout":
                raise
            out["result"] = "(result %s raised)" % type(e).__name__
        after = []
        for j, (nkind, key, tag) in enumerate(names):
            a = reg.batches.get(key())
            if a is None:
                after.append("(after %d 0 0 0)" % j)
            else:
                after.append("(after %d %d %d %d)" % (j, 0 if a.is_flushed() else 1, 1 if a.is_empty() else 0,
                                                     0 if id(a) in seen else 1))
        out["after"] = after

    dbg = asynq.debug.options
    saved = {}
    sink = None
    try:
        import io
        sink = (asynq.debug, asynq.debug.stdout)
        asynq.debug.stdout = io.StringIO()
    except Exception:
        sink = None
    try:
        for o in opts:
            saved[o] = getattr(dbg, o)
            setattr(dbg, o, True)
        runner.call(body)
    finally:
        for o, x in saved.items():
            setattr(dbg, o, x)
        if sink is not None:
            sink[0].stdout = sink[1]
        if "COLLECT_PERF_STATS" in opts:
            try:
                asynq.profiler.reset()
            except Exception:
                pass
        runner.stop()
    lines = ["(case batchingm %d sched (rounds %d) (svcs %s))" % (case["id"], rounds, " ".join(str(sd["tasks"]) for sd in sds)),
             out.get("result", "(result missing raised)")]
    for rec in order:
        b = rec["obj"]
        final = "pending" if not b.is_flushed() else ("cancelled" if b.is_cancelled() else "flushed")
        lines.append("(batch %d %d %d %d %s %d)" % (rec["svc"], rec["items"], rec["pending"], rec["announced"], final,
                                                    rec["active"]))
    lines += out.get("after", [])
    lines.append("(end)")
    feats = ["fam=sched", "services=%d" % len(sds), "rounds=%d" % rounds, "thread=%d" % (1 if case.get("thread") else 0)]
    feats += sorted({"name=" + n[0] for n in names})
    feats += ["opt=" + o for o in opts] or ["opt=none"]
    nontrivial = hashlib.sha1(json.dumps([sds, rounds, opts, case.get("thread", 0)]).encode()).hexdigest()[:16]
    return {"lines": lines, "features": feats, "nontrivial": nontrivial}


def run_case(case):
    fam = case.get("fam")
    if fam == "svc":
        return run_multi(case)
    if fam == "sched":
        return run_sched(case)
    return _run_single(case)
