"""C01 - see DESIGN.md section 5; shared machinery in corecommon.py"""
from checks import corecommon as cc
from checks import corefam7

PID = "C01"
LEVEL = cc.LEVEL
BUILDS = cc.BUILDS
CASE_TIMEOUT = cc.CASE_TIMEOUT
LEAN_MODULES = ['AsynqModel.Theorems.C01', 'AsynqModel.Theorems.C02', 'AsynqModel.Theorems.SpecC02', 'AsynqModel.Theorems.SpecC07']
THEOREMS = ["AsynqModel.Core." + n for n in ['C01_hyps_mono', 'C01_reachW_reach', 'C01_agree_prop', 'C01_agree', 'C01_taskOK_prop', 'C01_taskOK', 'C01_result', 'C02_delivery', 'C02_first_error', 'C02_uncaught', 'C01_reachW_runFuel', 'C01_exReach', 'C01_agree_needs_scoping', 'C01_shape', 'C02_received_trace', 'Spec_C02_accepts', 'Spec_C02_watch_agrees', 'Spec_C01_accepts', 'Spec_C07_read_value']]
MIX = [('full',3),('yield',2),('yield_err',2),('sync',1),('yield_ctx',3)]
RULE = ("grammar-generated task programs (profiles %s; trees and DAGs of tasks, 1-3 batch kinds with priority overrides "
        "and raising flushes, nested yield structures, errors, try/except, synchronous re-entry, contexts) interpreted on "
        "the real scheduler and replayed in the Lean machine with the implementation's flush choices; non-trivial = at "
        "least 2 tasks and 1 scheduler flush; distinct by hash of (configuration, programs)" % (", ".join(p for p, _ in MIX)))
RULE += cc.ASYNCIO_RULE
RULE += "; plus families valuekinds (generator objects, coroutines, iterators, every class of future passed AS VALUES through every kind of async function and calling convention: identity and untouched state) and equalreceivers (methods and sync_fn pairs on equal-but-distinct / unhashable receivers), judged by direct expectation (Drv/Families6v.lean)"
RULE += corefam7.RULE
TRUSTED = cc.TRUSTED_CORE + cc.TRUSTED_ASYNCIO
ASSUMPTIONS = cc.ASSUMPTIONS_CORE


def extra(tier, rng):
    import coregen
    return [coregen.override_family(rng) for _ in range(150 if tier == "quick" else 3000)] + \
        [coregen.shared_override_family(rng) for _ in range(100 if tier == "quick" else 2000)] + \
        cc.asyncio_cases(PID, tier, cc.fork(rng, "aio")) + \
        cc.corefam6v.valuekinds_cases(tier, cc.fork(rng, "valuekinds")) + cc.corefam6v.equalreceivers_cases(tier, cc.fork(rng, "equalreceivers")) + \
        corefam7.sharedread_cases(tier, cc.fork(rng, "sharedread"))


def plan(tier, seed):
    return cc.make_plan(PID, tier, seed, MIX, 3000, 40000, ntops=(1,), extra=extra)


def run_case(case):
    if case.get("special") == "sharedread":
        return corefam7.run_sharedread(case, PID)
    return cc.run_case_for(PID, case)


def shrink(case):
    if case.get("special") == "sharedread":
        return corefam7.shrink(case)
    return cc.shrink_case(case)


def neighbours(case, rng):
    return cc.neighbours_case(case, rng, [p for p, _ in MIX])


def signature(case, v):
    return cc.signature_for(case, v)
