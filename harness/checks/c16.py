"""C16  Computations on different threads never interfere.

PROVED (Lean, AsynqModel.Threads): the model is ONE global state (thread-indexed carriers, the one process-wide
deduplicate dict whose keys carry a thread component, objects the program shares between threads) with ONE global step
`gStep kg perf t op`; how a thread indexes the carriers and keys the dict is the parameter `kg`, the state the threads
start from is the parameter `g0`.  Theorems: the step of thread t commutes with the abstraction to t's own view (its
carriers + its slice of the dict) and, if `kg` separates the threads, leaves every other thread's view unchanged; hence
under EVERY schedule from EVERY start state - for fixed operation lists and for adaptive computations whose next
operation is any function of what the thread has observed - each thread that does not itself use a shared object ends
with the view and the records of running alone; WITHOUT that hypothesis all its records that are not themselves
operations on a shared object still equal those of its run alone (under COLLECT_PERF_STATS up to its first cached call).
With the thread missing from the deduplicate key, with thread-local holders turned into module state, for two threads
not created through threading.Thread on one OS thread ident (the library as written: an OPEN FINDING), or for a thread
that reads a shared scoped value / alru cache (the property as stated is false of such programs: an OPEN FINDING), the
statement is refuted (counterexample theorems).  A third OPEN FINDING needs no object of the program at all: the
library's own process-wide `asynq.none_future` keeps the re-entrancy flag of FutureBase.__repr__ (`_in_repr`) in the
object, so `repr(none_future)` answers '<recursion>' to a thread while another thread is inside the same method
(C16_none_future_repr_counterexample; replayed deterministically, see `nf_enter`).

NOT PROVABLE, SHOWN BY THE RUNS ONLY: that the Python functions behave like `gStep (Keying.cpython aliens)`, and
behaviour under real OS interleavings.  Four kinds of cases tie the model to the current tree:
  inv   an `ast` inventory of asynq/*.py (module-/class-level mutable objects, threading.local, ContextVar, rebound
        globals incl. `globals()[..]`, run-time writes to class attributes, mutable defaults, closure caches, function
        attributes, attributes of held objects), compared (in Lean) with the model's HAND-WRITTEN list of thread-indexed
        components and its list of process-wide / shared objects; plus the list of carriers the fixed probes are
        labelled with (a component without a probe is reported).  A tripwire on today's carriers, not a consequence of
        the property: no theorem is about it;
        Threads of a run may carry EQUAL NAMES (a home-made pool calling every worker "worker"; the empty name; a thread
        renaming itself in mid-flight; a successor with the name of its dead predecessor): the name is an attribute the
        program chooses, the model has no name component (renaming = `note`, a no-op), so any dependence of a carrier or
        of the deduplication scope on it shows as a disagreement with the model and with the run alone (the library
        reads the name in one place, for display: TaskScheduler.name, scheduler.py:48-55 - observed as a Boolean);
  hist  K threads execute generated histories of operations IN LOCK-STEP under a generated schedule (so thread B acts
        while thread A is inside a task, in the middle of a flush, in asyncio mode, holds an in-flight deduplicated
        task, is inside `with V.override(..)` of a scoped value both use ...): every observation is compared with the
        model run under the same schedule (CORR) and with the same thread running alone (SPEC: first everything no
        shared object can influence, then everything).  Some threads are started with a COPY of a context that is in
        asyncio mode (`Thread(target=copy_context().run)`, `asyncio.to_thread` from inside `fn.asyncio()`); their run
        alone is started the same way.  The fixed write-in-A/observe-in-B probes are of this kind;
  life  hist cases whose threads live one after the other, each created on the recycled OS thread ident of its joined
        predecessor, which left an un-awaited deduplicated task behind (a deduplication scope must belong to the thread,
        not to its ident); with threading.Thread threads and with `_thread.start_new_thread` threads;
  prog  K (2..16) free-running threads, sys.setswitchinterval(1e-6), repeated runs, each interpreting a generated asynq
        program (DebugBatchItem / sync(), @deduplicate functions shared by all threads with equal keys, AsyncContext,
        nested synchronous calls, COLLECT_PERF_STATS, get_active_task()): the per-thread trace (results, batch
        compositions, context events, active-task observations, profiler stats) must equal the trace of the same program
        alone (SPEC) and the model's per-thread projection (CORR).
"""
import hashlib
import json
import random

PID = "C16"
LEVEL = "proof"
LEAN_MODULES = ["AsynqModel.Theorems.C16", "AsynqModel.Theorems.C16b"]
HEADLINE = [
    # the sharing structure of the ONE global step
    "AsynqModel.Threads.C16_gstep_simulates_local",
    "AsynqModel.Threads.C16_gstep_frames_others",
    "AsynqModel.Threads.C16_never_observes_others",
    # non-interference derived from it, for every schedule and every start state
    "AsynqModel.Threads.C16_noninterference",
    "AsynqModel.Threads.C16_noninterference_strict",
    "AsynqModel.Threads.C16_schedule_independent",
    "AsynqModel.Threads.C16_adaptive_noninterference",
    "AsynqModel.Threads.C16_adaptive_schedule_independent",
    # the library as written with threads that were not created through threading.Thread
    "AsynqModel.Threads.C16_cpython_noninterference_partial",
    "AsynqModel.Threads.C16_alien_ident_counterexample",
    # a deduplication scope derived from an attribute of a thread that is not its identity (its name) - the library as
    # written reads the name for display only (TaskScheduler.name, scheduler.py:48-55)
    "AsynqModel.Threads.C16_thread_name_key_counterexample",
    # necessity: the same step with a keying that does not separate the threads / objects shared by the program / the
    # cut of the strict comparison under COLLECT_PERF_STATS / the start context
    "AsynqModel.Threads.C16_no_thread_in_key_counterexample",
    "AsynqModel.Threads.C16_module_state_counterexample",
    "AsynqModel.Threads.C16_shared_object_counterexample",
    # the library's own process-wide none_future carries the re-entrancy flag of FutureBase.__repr__ (OPEN FINDING)
    "AsynqModel.Threads.C16_none_future_repr_counterexample",
    "AsynqModel.Threads.C16_strict_cut_counterexample",
    "AsynqModel.Threads.C16_inherited_mode_counterexample",
    # the observer
    "AsynqModel.Threads.C16_spec_own_holds",
    "AsynqModel.Threads.C16_spec_holds_partial",
    "AsynqModel.Threads.C16_spec_fails_only_on_shared_objects",
    # the observer is EXACT (Theorems/C16b.lean): it accepts recorded runs - of ANY origin, also of a changed library -
    # exactly if the structural stage accepts and every thread's history equals its history alone
    "AsynqModel.Threads.C16_spec_iff",
    "AsynqModel.Threads.C16_spec_exact",
    "AsynqModel.Threads.C16_spec_rejects",
]
# hold by construction of the model / are instances of the theorems above in the functions the driver evaluates; the
# content is the correspondence
BY_CONSTRUCTION = [
    # third audit C: both are `rfl`-level facts about how the model is built (Keying.byAttr has slot := id; `note` is a
    # no-op of privStep); what ties thread names to the code are the lock-step runs with equal / empty / changing names
    "AsynqModel.Threads.C16_attr_key_separates_iff",
    "AsynqModel.Threads.C16_rename_is_noop",
    "AsynqModel.Threads.C16_real_separates",
    "AsynqModel.Threads.C16_noninterference_library",
    "AsynqModel.Threads.C16_spec_holds_library",
]
THEOREMS = HEADLINE + BY_CONSTRUCTION
BUILDS = {"quick": ["py"], "thorough": ["py", "cy"]}
CASE_TIMEOUT = 100
RULE = ("inv: one AST inventory of asynq/*.py per run + the list of probed carriers. hist: generated lock-step histories "
        "(2-6 threads, 6-40 operations per thread over scheduler/debug-batch/profiler/deduplicate/asyncio-mode, nested task "
        "bodies up to depth 3, flushes paused in the middle; 35% of them with some threads also using the scoped value and "
        "the alru_cache function that all threads of the run share; 15% with some threads started in a copy of a context "
        "that is in asyncio mode - Thread(target=copy_context().run) or asyncio.to_thread inside fn.asyncio(); 25% with "
        "some or all threads of the run carrying EQUAL thread names (one name class is the empty name), half of those with "
        "threads renaming themselves in mid-flight) under a generated schedule (fine / bursty / round-robin; 30% with identical histories on all threads), plus a FIXED list "
        "of write-in-A/observe-in-B probes: one per carrier of the model's component list, one for the shared objects, one "
        "thread-lifetime probe and two start-context probes, each with both COLLECT_PERF_STATS settings, and one "
        "thread-lifetime probe with threads not created through threading.Thread plus three thread-name probes per setting - equal names while a deduplicated task is in flight, the empty name with a rename in mid-flight, a successor with its dead predecessor's name and one none_future probe per setting - thread A is stopped inside repr(asynq.none_future) while thread B asks for the same repr (27 = 13 x 2 + 1); 20% of the generated histories get, from a generator of their own seeded by the case, 1-3 extra hops repr(none_future) per thread, as one step or split in two at the first call made inside FutureBase.__repr__; quick 400 / thorough "
        "6000. life: lock-step histories whose threads live ONE AFTER THE OTHER - each is created after its predecessor "
        "was joined, on the predecessor's recycled OS thread ident (candidate threads with another ident are parked, up to "
        "200 tries; feature thread-ident-recycled counts the cases where every successor got it), every thread leaves an "
        "un-awaited deduplicated task and every later thread asks for the same function and key; quick 40 / thorough 400 "
        "with threading.Thread threads (40% of them: the successor also carries its dead predecessor's NAME), quick 12 / thorough 120 with _thread.start_new_thread threads (COLLECT_PERF_STATS "
        "off, the left-behind task is asked for at top level and never run, all other deduplicate keys private to one "
        "thread). prog: 2-16 free-running threads started together (switch interval 1e-6; 3 repetitions quick / 5 "
        "thorough) interpreting generated asynq programs that share deduplicated functions, keys and batch names, 30% with "
        "threads serving asynq functions through asyncio.run(fn.asyncio()), 25% with equal thread names; quick 160 + one per "
        "thread count 2..16 (identical programs; every even count with ONE name for all threads) / "
        "thorough 700 + 15. non-trivial = a hist case with >= 2 threads, >= 8 steps and at least one thread inside a task "
        "body while others act, or a prog case with >= 2 threads, a flush of >= 2 items and >= 1 deduplicate hit; distinct "
        "by case hash")
TRUSTED = [
    "hand-written Lean model AsynqModel.Lib.Threads (one global state, `gStep`); that each Python operation behaves like "
    "`gStep (Keying.cpython aliens)` is NOT proved - it is tied by this check's inventory, lock-step histories and runs",
    "Python harness checks/c16.py: lock-step turn taking, identity->token maps (999999 / `(foreign ..)` = an object the "
    "thread did not create), on_before_batch_flush / on_computed hooks, read-only len(TaskScheduler._tasks/_batches), the "
    "op records it emits for scheduler-internal steps (push/pop/schedBatch) at the points where the code performs them, "
    "how it starts threads (threading.Thread, copy_context().run, asyncio.to_thread, _thread.start_new_thread) and that a "
    "thread's run alone is started the same way (a thread not created through threading.Thread runs alone as a "
    "threading.Thread)",
    "the OS / CPython thread scheduler: interleavings are sampled (tiny switch interval, repeated runs), not enumerated",
    "the one place where the harness plays the thread scheduler INSIDE a library method: hop nfEnter installs "
    "sys.setprofile for the calling thread around repr(asynq.none_future) and gives the turn away at the first Python-level "
    "call made from the frame of FutureBase.__repr__ (a point where CPython may switch threads anyway); in the compiled "
    "build the method makes no such call, the hop is recorded as one undivided nfRepr and the finding does not show",
    "CPython 3.12 threading.local (one slot per thread, also for threads not created through threading.Thread), "
    "contextvars (one context per thread; a copy is a snapshot), threading.current_thread (a distinct Thread object per "
    "threading.Thread thread; ONE cached _DummyThread per OS thread ident for other threads) - `Keying.cpython`",
]
ASSUMPTIONS = [
    "process-wide-by-design state is excluded: asynq._debug.options (COLLECT_PERF_STATS is a parameter of the model), "
    "debug.py hook flags, constants; DeduplicateDecorator.tasks is process-wide but keyed with the thread (modelled as the "
    "one shared dict, separation proved)",
    "objects that the PROGRAM shares between threads are INSIDE the statement as written and the property is false of "
    "them (OPEN FINDING hist/fail:interference:shared-object, by design of the library): an AsyncScopedValue / "
    "async_override target used by several threads (thread B reads 5 while thread A is inside `with V.override(5)`: "
    "scoped_value.py:62-68 writes the one object), the caches of alru_cache / acached_per_instance / alazy_constant (one "
    "per decorated function, like functools.lru_cache).  Modelled (Shared.sv, Shared.lru), generated, compared with the "
    "model (CORR) and with the run alone (SPEC, last clause); the non-interference theorems carry the hypothesis "
    "`isShared = false` on the thread's OWN operations (necessary: C16_shared_object_counterexample), "
    "C16_noninterference_strict needs no hypothesis",
    "the context a thread STARTS with is an input of its computation, not interference (explicit: parameter g0 of every "
    "theorem, GState.start, C16_inherited_mode_counterexample): a worker of asyncio.to_thread / Thread(target="
    "copy_context().run) created from inside fn.asyncio() begins in asyncio mode, so a synchronous asynq call in it "
    "raises RuntimeError and .asynq() returns a coroutine where the same function in a fresh thread works; generated "
    "(start-context=..), the run alone is started the same way.  After its start nothing the creator does changes it",
    "threads not created through threading.Thread: the deduplication scope belongs to the OS thread ident (OPEN FINDING "
    "hist-alien/fail:observes-foreign:deduplicate; C16_cpython_noninterference_partial needs identsDistinct, "
    "C16_alien_ident_counterexample); generated only as thread lifetimes with COLLECT_PERF_STATS off, the inherited "
    "task is never run",
    "the library's OWN process-wide objects are INSIDE the statement: asynq.none_future (a ConstFuture created at import, "
    "futures.py:225) is mutable - FutureBase.__repr__ keeps its re-entrancy flag `_in_repr` in the object - so a thread "
    "that only does `yield none_future; return repr(none_future)` gets '<recursion>' while another thread is inside the "
    "same method (OPEN FINDING hist/fail:interference:none-future-repr, C16_none_future_repr_counterexample, proposed "
    "repair proposed-fixes/C16-repr-guard-thread-local.diff).  Modelled (Shared.nf, TL.nfHeld, ops nfRepr/nfEnter/nfExit), "
    "generated in lock-step histories only: the free-running prog cases do NOT call repr(none_future) (the audit's "
    "probabilistic probe - 4 threads x 300000 calls, about 13% '<recursion>' - would be a flaky case)",
    "threads do not hand asynq objects (tasks, batch items, contexts) to each other",
    "Thread objects compare by identity (threading.Thread defines no __eq__/__hash__): cache_key compares the Thread "
    "object with ==, so a Thread SUBCLASS that declares two threads equal (e.g. __eq__/__hash__ by name) merges their "
    "deduplication scopes by the program's own definition of 'the same thread' (observed on the current tree; it is "
    "`Keying.byAttr`, C16_attr_key_separates_iff); not generated.  Thread NAMES are generated: equal names, the empty name "
    "(TaskScheduler.__init__ then names the scheduler after the ident), renaming in mid-flight",
    "programs are free of flush-priority ties (a tie is broken by set iteration order, i.e. by object addresses, "
    "also single-threaded); tie-prone generated programs are collapsed to one batch name",
    "asyncio event loops (one ContextVar context per asyncio task) are C15's subject; here a thread is one context",
    "the adaptive theorems treat a computation as a deterministic function of the thread's own records; the harness "
    "programs are of that kind (no clocks, no randomness, no reads of other threads' objects)",
    "operation-level atomicity: preemption INSIDE one modelled operation (inside DeduplicateDecorator.asynq, inside "
    "_flush) is not in the model; only the free-running prog cases exercise it",
]

FOREIGN = 999999
NAMES = 4          # DebugBatchItem names b0..b3; tokens >= 10 are sync tags (batch "sync-t<n>")
MUTATORS = {"append", "extend", "insert", "pop", "remove", "clear", "add", "discard", "update", "setdefault",
            "popitem", "sort", "reverse", "__setitem__", "__delitem__", "appendleft", "popleft"}


# ---------------------------------------------------------------------------------------------------
# generation
# ---------------------------------------------------------------------------------------------------

SIMPLE_IN_BLOCK = ["getSched", "snap", "getActive", "mkItem", "profIncr", "profFlush", "amGet", "svGet", "svSet",
                   "lruCall", "dedupCall"]


def thread_name(c):
    """the name a thread of name class `c` carries (class 0 = the empty, falsy name: TaskScheduler.__init__ then names
    the scheduler after the thread ident).  Threads of one run with the same class have EQUAL names - a home-made pool
    that calls all its workers "worker"; a thread's name is an attribute the program chooses, not its identity"""
    return "" if not c else "c16-worker-%d" % c


def _gen_names(rng, k, p_same=0.4):
    """name classes of the k threads of a run such that at least two threads carry the same name"""
    if rng.random() < p_same:
        return [rng.choice([0, 1, 1, 2])] * k
    pool = rng.sample([0, 1, 2, 3], rng.randint(1, min(3, max(1, k - 1))))
    names = [rng.choice(pool) for _ in range(k)]
    names[rng.randrange(1, k)] = names[0]
    return names


def _gen_hops(rng, n, shared=False, mode0=False, rename=False):
    """hops of one thread for a lock-step history; keeps the little bookkeeping needed for validity: nesting depth,
    asyncio-mode flag (a task created in asyncio mode is a coroutine: no body), batch sizes (no priority ties).
    `shared`: the thread also uses the objects that the threads of the run share by design (one AsyncScopedValue, one
    alru_cache function); a `with V.override(..)` block contains only hops that neither yield nor switch asyncio mode"""
    hops = []
    depth = 0
    am = []            # saved flags
    mode = bool(mode0)   # a thread started with a copied context begins in its creator's asyncio mode
    sizes = {}
    budget = n
    while budget > 0:
        budget -= 1
        choices = ["getSched", "snap", "getActive", "mkItem", "useItems", "profAppend", "profIncr", "profFlush",
                   "profReset", "dedupCall", "dirty", "amEnter", "amExit", "amGet", "taskEnter", "taskEnterD"]
        weights = [2, 4, 3, 4, 5, 2, 3, 2, 1, 5, 2, 1.5, 2.5, 2, 4, 4]
        if depth == 0:
            choices.append("resetSched")
            weights.append(0.7)
        else:
            choices.append("taskLeave")
            weights.append(5)
        if shared:
            choices += ["svGet", "svSet", "svBlock", "lruCall"]
            weights += [2.5, 1.2, 2, 2.5]
        if rename:       # the thread gives itself another name in mid-flight (threading.current_thread().name = ..)
            choices.append("setName")
            weights.append(1.5)
        c = rng.choices(choices, weights)[0]
        if c == "setName":
            hops.append(["setName", rng.randrange(4)])
            continue
        if c in ("svGet", "svSet", "lruCall"):
            hops.append(_simple_hop(rng, c, sizes))
            continue
        if c == "svBlock":
            hops.append(["svEnter", rng.randint(1, 9)])
            for _ in range(rng.randint(0, 3)):
                hops.append(_simple_hop(rng, rng.choice(SIMPLE_IN_BLOCK), sizes))
            hops.append(["svExit"])
            continue
        if c in ("getSched", "snap", "getActive", "profIncr", "profFlush", "profReset", "amGet", "resetSched"):
            hops.append([c])
            if c == "resetSched":
                pass
        elif c == "mkItem":
            nm = rng.randrange(NAMES) if rng.random() < 0.85 else 10 + rng.randrange(2)
            sizes[nm] = sizes.get(nm, 0) + 1
            hops.append(["mkItem", nm])
        elif c == "useItems":
            k = 2 if rng.random() < 0.35 else 1
            nms = rng.sample(range(NAMES), k)
            spec = [[nm, rng.randint(1, 3)] for nm in nms]
            if k == 2 and sizes.get(spec[0][0], 0) + spec[0][1] == sizes.get(spec[1][0], 0) + spec[1][1]:
                spec[0][1] += 1
            pause = 1 if (depth > 0 and rng.random() < 0.6) else 0
            hops.append(["useItems", spec, pause])
            if depth > 0 and pause:
                for _ in spec:
                    hops.append(["flushPause"])
            for nm, _ in spec:
                sizes[nm] = 0
        elif c == "profAppend":
            hops.append(["profAppend", rng.randrange(1, 50)])
        elif c in ("dedupCall", "dirty"):
            hops.append([c, rng.randrange(2), rng.randrange(3)])
        elif c == "amEnter":
            am.append(mode)
            mode = True
            hops.append(["amEnter"])
        elif c == "amExit":
            if am:
                mode = am.pop()
            hops.append(["amExit"])
        elif c in ("taskEnter", "taskEnterD"):
            if depth >= 3:
                continue
            h = ["taskEnter"] if c == "taskEnter" else ["taskEnter", rng.randrange(2), rng.randrange(3)]
            hops.append(h)
            if not mode:
                depth += 1
        elif c == "taskLeave":
            hops.append(["taskLeave"])
            depth -= 1
    while depth > 0:
        hops.append(["taskLeave"])
        depth -= 1
    return hops


def _simple_hop(rng, c, sizes):
    if c == "mkItem":
        nm = rng.randrange(NAMES)
        sizes[nm] = sizes.get(nm, 0) + 1
        return ["mkItem", nm]
    if c == "svSet":
        return ["svSet", rng.randint(1, 9)]
    if c == "lruCall":
        return ["lruCall", rng.randrange(3)]
    if c == "dedupCall":
        return ["dedupCall", rng.randrange(2), rng.randrange(3)]
    return [c]


def _order(rng, threads, style):
    """a schedule: the thread index of every step"""
    left = [len(h) for h in threads]
    order = []
    if style == "rr":
        while any(left):
            for t in range(len(threads)):
                if left[t]:
                    left[t] -= 1
                    order.append(t)
        return order
    while any(left):
        live = [t for t in range(len(threads)) if left[t]]
        t = rng.choice(live)
        burst = 1 if style == "fine" else rng.randint(1, 4)
        for _ in range(min(burst, left[t])):
            left[t] -= 1
            order.append(t)
    return order


def gen_hist(rng, k=None, n=None):
    k = k or rng.choice([2, 2, 3, 3, 4, 6])
    n = n or rng.choice([6, 10, 16, 24, 40])
    # 35% of the histories also use the objects shared by design (by some of their threads)
    sh = rng.random() < 0.35
    users = [sh and rng.random() < 0.6 for _ in range(k)]
    # 15%: some threads are started with a COPY of a context that is in asyncio mode (1 = Thread(target=ctx.run),
    # 2 = asyncio.to_thread from inside fn.asyncio() served by another thread)
    inh = rng.random() < 0.15
    inherit = [(rng.choice([1, 1, 2]) if inh and rng.random() < 0.5 else 0) for _ in range(k)]
    # 25%: some threads of the run carry EQUAL thread names (one of them possibly the empty name), and half of those
    # runs have threads that rename themselves in mid-flight
    names = _gen_names(rng, k) if rng.random() < 0.25 else None
    rename = names is not None and rng.random() < 0.5
    threads = [_gen_hops(rng, n, shared=users[t], mode0=inherit[t], rename=rename) for t in range(k)]
    if rng.random() < 0.3:   # identical histories on all threads: every name and key collides
        if any(inherit) and not all(inherit):
            # the validity bookkeeping (no scheduler reset inside a task body) must hold for the threads that start
            # outside asyncio mode, where tasks really run
            threads[0] = _gen_hops(rng, n, shared=users[0], mode0=False, rename=rename)
        threads = [json.loads(json.dumps(threads[0])) for _ in range(k)]
    case = {"kind": "hist", "perf": rng.randrange(2), "threads": threads,
            "order": _order(rng, threads, rng.choice(["fine", "fine", "burst", "rr"]))}
    if any(inherit):
        case["inherit"] = inherit
    if names is not None:
        case["names"] = names
    return add_nf(case)


def add_nf(case):
    """third audit A4: extra hops `repr(asynq.none_future)` - as one step (nfRepr) or split in two at the first call made
    inside FutureBase.__repr__ (nfEnter / nfExit, other threads get turns in between) - put into a generated history by a
    generator OF ITS OWN (seeded by the case, so the main random stream and every case generated before the third audit
    stay what they were).  Turn slots of a thread are interchangeable, so a hop added to thread t needs one more `t`
    anywhere in the order; the two halves of a split repr stay adjacent in the thread's hop list"""
    r2 = random.Random("nf:" + json.dumps(case, sort_keys=True))
    if r2.random() >= 0.2:
        return case
    order = case["order"]
    for t, hops in enumerate(case["threads"]):
        if r2.random() >= 0.7:
            continue
        for _ in range(r2.randint(1, 3)):
            ok = [j for j in range(len(hops) + 1)
                  if not (j < len(hops) and hops[j][0] in ("flushPause", "nfExit"))]
            j = r2.choice(ok)
            slots = [i for i, u in enumerate(order) if u == t]
            p = slots[j] if j < len(slots) else len(order)
            if r2.random() < 0.5:
                hops.insert(j, ["nfRepr"])
                order.insert(p, t)
            else:
                hops[j:j] = [["nfEnter"], ["nfExit"]]
                order.insert(p, t)
                order.insert(min(len(order), p + 1 + r2.randint(0, 4)), t)
    return case


def gen_life(rng, k=None):
    """thread LIFETIMES: the threads of the run live one after the other - thread t+1 is created after thread t has
    finished and been joined, on the OS thread ident that thread t gave back (see `_run_successors`).  Every thread
    leaves an un-awaited deduplicated task behind and every later thread asks for the same (function, key): a
    deduplication scope that belongs to a thread IDENT instead of a thread hands the dead thread's task to the later one"""
    k = k or rng.choice([2, 2, 2, 3])
    f, key = rng.randrange(2), rng.randrange(3)
    threads = []
    for t in range(k):
        hops = _gen_hops(rng, rng.choice([2, 4, 8]))
        first = [["dedupCall", f, key]] if t > 0 else []
        if t > 0 and rng.random() < 0.5:
            first.append(["taskEnter", f, key])
            first.append(["taskLeave"])
        threads.append(first + hops + [["dedupCall", f, key]])
    case = {"kind": "hist", "perf": rng.randrange(2), "threads": threads, "life": 1,
            "order": [t for t, hops in enumerate(threads) for _ in hops]}
    if rng.random() < 0.4:    # the successor carries the NAME of its dead predecessor as well (a pool re-creating "worker")
        case["names"] = _gen_names(rng, k, p_same=0.7)
    return case


ALIEN_KEY = (1, 2)      # the (function, key) whose task every thread of an alien-lifetime case leaves behind


def gen_life_alien(rng, k=None):
    """thread lifetimes of threads that were NOT created through threading.Thread (`_thread.start_new_thread`, like the
    threads of a C extension): the same as `gen_life`, COLLECT_PERF_STATS off.  The reserved (function, key) is asked for
    at top level only - as the first and the last operation of every thread - and never run (a thread that is handed
    the dead thread's task reports it and leaves it alone); all other deduplicate keys are private to one thread."""
    k = k or rng.choice([2, 2, 3])
    f, key = ALIEN_KEY
    threads = []
    for t in range(k):
        hops = _gen_hops(rng, rng.choice([2, 4, 8]))
        for h in hops:       # every other deduplicate key is used by one thread only (any un-awaited task is inherited)
            if h[0] in ("dedupCall", "dirty", "taskEnter") and len(h) == 3:
                h[2] += 10 * (t + 1)
        first = [["dedupCall", f, key]] if t > 0 else []
        threads.append(first + hops + [["dedupCall", f, key]])
    return {"kind": "hist", "perf": 0, "threads": threads, "life": 1, "alien": 1,
            "order": [t for t, hops in enumerate(threads) for _ in hops]}


def _probe(writer, observer, perf, comp):
    threads = [writer, [observer[i % len(observer)] for i in range(len(writer))]]
    return {"kind": "hist", "perf": perf, "threads": threads, "order": _order(None, threads, "rr"), "probe": 1,
            "comp": comp}


def probes():
    """write-in-thread-A / observe-in-thread-B: a FIXED list, one probe per carrier of the model's component list
    (`comp` = (module, name) of the carrier; the `inv` case hands the list of probed carriers to the Lean side, which
    reports a component without a probe) and one for the objects shared by design (comp None: correspondence only)"""
    res = []
    for perf in (0, 1):
        # scheduler: A is inside a task, inside a nested task, in the middle of a flush with another batch scheduled
        res.append(_probe([["taskEnter"], ["snap"], ["taskEnter"], ["getActive"], ["useItems", [[1, 1], [2, 2]], 1],
                           ["flushPause"], ["flushPause"], ["snap"], ["taskLeave"], ["taskLeave"], ["resetSched"], ["getSched"]],
                          [["snap"], ["getActive"], ["getSched"]], perf, ["scheduler", "_state"]))
        # debug-batch table
        res.append(_probe([["mkItem", 1], ["mkItem", 1], ["mkItem", 10], ["useItems", [[1, 1]], 0], ["mkItem", 1]],
                          [["mkItem", 1], ["mkItem", 10], ["useItems", [[1, 2]], 0]], perf, ["batching", "_debug_batch_state"]))
        # profiler buffer and counter
        res.append(_probe([["profAppend", 5], ["profIncr"], ["taskEnter"], ["taskLeave"], ["profIncr"], ["profFlush"]],
                          [["profIncr"], ["profFlush"], ["profAppend", 6], ["profReset"]], perf, ["profiler", "_state"]))
        # deduplication scope: same function, same key, task in flight on A
        res.append(_probe([["dedupCall", 0, 1], ["dedupCall", 0, 1], ["taskEnter", 0, 1], ["dedupCall", 0, 1],
                           ["taskLeave"], ["dedupCall", 0, 1], ["dirty", 0, 1], ["dedupCall", 0, 1]],
                          [["dedupCall", 0, 1], ["dirty", 0, 1], ["dedupCall", 0, 1], ["taskEnter", 0, 1], ["taskLeave"]], perf,
                          ["tools", "DeduplicateDecorator.tasks"]))
        # asyncio mode
        res.append(_probe([["amEnter"], ["amGet"], ["dedupCall", 1, 2], ["taskEnter"], ["amEnter"], ["amExit"], ["amGet"],
                           ["amExit"], ["amGet"]],
                          [["amGet"], ["dedupCall", 1, 2], ["taskEnter"], ["taskLeave"]], perf, ["asynq_to_async", "_asyncio_mode"]))
        # objects shared by design (audit A5): B reads the scoped value while A is inside `with V.override(5)`, B calls
        # the cached function after A filled the cache; both threads keep using their own state meanwhile
        res.append(_probe([["svGet"], ["svEnter", 5], ["getActive"], ["svGet"], ["svExit"], ["svSet", 7], ["lruCall", 1],
                           ["lruCall", 1], ["taskEnter"], ["svEnter", 3], ["mkItem", 1], ["svExit"], ["lruCall", 2], ["taskLeave"],
                           ["profFlush"]],
                          [["mkItem", 1], ["svGet"], ["lruCall", 1], ["snap"], ["profFlush"]], perf, None))
        # thread lifetimes: A leaves an in-flight deduplicated task and ends; B, created afterwards on A's thread ident,
        # asks for the same function and key, runs it, asks again
        res.append({"kind": "hist", "perf": perf, "life": 1, "probe": 1, "comp": ["tools", "DeduplicateDecorator.tasks"],
                    "threads": [[["dedupCall", 0, 1], ["mkItem", 1], ["profIncr"]],
                                [["dedupCall", 0, 1], ["getActive"], ["taskEnter", 0, 1], ["taskLeave"], ["dedupCall", 0, 1],
                                 ["mkItem", 1], ["profIncr"]]],
                    "order": [0] * 3 + [1] * 7})
        # start context (second audit N4b): B is started with a COPY of a context in asyncio mode (1: Thread(target=
        # copy_context().run), 2: asyncio.to_thread from inside fn.asyncio()) while A enters and leaves asyncio mode
        # itself; B's mode is the copied one whatever A does, and B's run alone (started the same way) is the same
        for how in (1, 2):
            c = _probe([["amGet"], ["amEnter"], ["dedupCall", 1, 2], ["amExit"], ["amGet"], ["dedupCall", 1, 2], ["taskEnter"],
                        ["amGet"], ["taskLeave"], ["lruCall", 1]],
                       [["amGet"], ["dedupCall", 1, 2], ["taskEnter"], ["taskLeave"], ["lruCall", 1], ["amEnter"], ["amGet"],
                        ["amExit"], ["amGet"], ["mkItem", 1]], perf, ["asynq_to_async", "_asyncio_mode"])
            c["inherit"] = [0, how]
            res.append(c)
        # thread NAMES (round-5 extension): a thread's name is chosen by the program and is not its identity.  Both
        # threads are called alike while A holds an in-flight deduplicated task / is inside a task with a batch
        # scheduled; B renames itself to A's name in mid-flight; a later thread carries its dead predecessor's name
        c = _probe([["dedupCall", 0, 1], ["dedupCall", 0, 1], ["taskEnter", 0, 1], ["dedupCall", 0, 1], ["mkItem", 1],
                    ["getSched"], ["taskLeave"], ["dedupCall", 0, 1], ["dirty", 0, 1], ["dedupCall", 0, 1], ["profIncr"]],
                   [["dedupCall", 0, 1], ["getActive"], ["mkItem", 1], ["getSched"], ["taskEnter", 0, 1], ["taskLeave"],
                    ["profFlush"]], perf, ["tools", "DeduplicateDecorator.tasks"])
        c["names"] = [1, 1]
        res.append(c)
        c = _probe([["setName", 2], ["dedupCall", 0, 1], ["taskEnter"], ["mkItem", 1], ["snap"], ["getSched"], ["amEnter"],
                    ["amGet"], ["amExit"], ["taskLeave"], ["resetSched"], ["getSched"], ["profIncr"]],
                   [["dedupCall", 0, 1], ["setName", 2], ["dedupCall", 0, 1], ["mkItem", 1], ["getActive"], ["getSched"],
                    ["amGet"], ["profFlush"], ["resetSched"], ["getSched"]], perf, ["scheduler", "_state"])
        c["names"] = [0, 0]
        res.append(c)
        res.append({"kind": "hist", "perf": perf, "life": 1, "probe": 1, "comp": ["tools", "DeduplicateDecorator.tasks"],
                    "names": [1, 1],
                    "threads": [[["dedupCall", 0, 1], ["mkItem", 1], ["profIncr"]],
                                [["dedupCall", 0, 1], ["getActive"], ["taskEnter", 0, 1], ["taskLeave"], ["dedupCall", 0, 1],
                                 ["mkItem", 1], ["profIncr"]]],
                    "order": [0] * 3 + [1] * 7})
        # the library's own none_future (third audit A4): A is stopped inside repr(none_future), B - which shares nothing
        # with A - asks for the same repr meanwhile ('<recursion>') and again after A has left the method
        res.append(_probe([["nfEnter"], ["nfExit"], ["nfRepr"], ["getActive"]],
                          [["nfRepr"], ["nfRepr"], ["mkItem", 1], ["nfRepr"]], perf, None))
    # thread lifetimes of threads not created through threading.Thread (second audit N4c): A leaves an in-flight
    # deduplicated task and ends; B, started afterwards with _thread.start_new_thread on A's thread ident, asks for it
    res.append({"kind": "hist", "perf": 0, "life": 1, "alien": 1, "probe": 1, "comp": ["tools", "DeduplicateDecorator.tasks"],
                "threads": [[["dedupCall", 1, 2], ["mkItem", 1], ["profIncr"]],
                            [["dedupCall", 1, 2], ["getActive"], ["dedupCall", 0, 1], ["taskEnter", 0, 1], ["taskLeave"],
                             ["mkItem", 1], ["dedupCall", 1, 2]]],
                "order": [0] * 3 + [1] * 7})
    return res


def _gen_node(rng, size, dd_ok, names, depth=0):
    """a program node; `dd_ok` = lowest deduplicated function this node may call (no recursion through dd bodies)"""
    if size <= 1 or depth > 5:
        r = rng.random()
        if r < 0.55:
            return ["leaf", rng.choice(names), rng.randint(1, 3)]
        if r < 0.65:
            return ["sync", 10 + rng.randrange(2)]
        if r < 0.75:
            return ["act"]
        if dd_ok < 3:
            return ["dd", rng.randrange(dd_ok, 3), rng.randrange(3)]
        return ["leaf", rng.choice(names), 1]
    r = rng.random()
    if r < 0.34:
        k = rng.randint(2, 4)
        return ["par", [_gen_node(rng, max(1, size // k), dd_ok, names, depth + 1) for _ in range(k)]]
    if r < 0.52:
        k = rng.randint(2, 3)
        return ["seq", [_gen_node(rng, max(1, size // k), dd_ok, names, depth + 1) for _ in range(k)]]
    if r < 0.66:
        return ["ctx", rng.randrange(6), _gen_node(rng, size - 1, dd_ok, names, depth + 1)]
    if r < 0.76:
        return ["call", _gen_node(rng, size - 1, dd_ok, names, depth + 1)]
    if r < 0.86:
        k = rng.randint(1, 2)
        return ["mix", rng.choice(names), rng.randint(1, 2),
                [_gen_node(rng, max(1, size // (k + 1)), dd_ok, names, depth + 1) for _ in range(k)]]
    if r < 0.9 and dd_ok < 3:
        return ["seq", [["dirty", rng.randrange(dd_ok, 3), rng.randrange(3)], _gen_node(rng, size - 1, dd_ok, names, depth + 1)]]
    if dd_ok < 3:
        f = rng.randrange(dd_ok, 3)
        return ["par", [["dd", f, rng.randrange(3)], ["dd", f, rng.randrange(3)], _gen_node(rng, max(1, size - 2), dd_ok, names, depth + 1)]]
    return ["par", [_gen_node(rng, max(1, size // 2), dd_ok, names, depth + 1) for _ in range(2)]]


def gen_prog(rng, k=None, reps=3):
    k = k or rng.choice([2, 2, 3, 4, 4, 6, 8, 8, 12, 16])
    names = rng.choice([[0], [0], [1], [0, 1], [0, 1, 2]])
    dd = [[_gen_node(rng, rng.choice([1, 2, 3, 5]), f + 1, names) for _ in range(3)] for f in range(3)]
    same = rng.random() < 0.5
    size = rng.choice([3, 5, 8]) if k > 8 else (rng.choice([3, 6, 10, 14]) if k > 4 else rng.choice([3, 6, 10, 16, 24]))
    base = [_gen_node(rng, size, 0, names) for _ in range(rng.randint(1, 2))]
    threads = []
    for _ in range(k):
        if same:
            threads.append(json.loads(json.dumps(base)))
        else:
            threads.append([_gen_node(rng, size, 0, names) for _ in range(rng.randint(1, 2))])
    if rng.random() < 0.3:
        # one or two threads serve asynq functions through asyncio (fn.asyncio() under asyncio.run) meanwhile
        for t in rng.sample(range(k), 1 if k < 4 else 2):
            threads[t] = [["aio", rng.randint(2, 5)]] + (threads[t][:1] if rng.random() < 0.5 else [])
    case = {"kind": "prog", "perf": rng.randrange(2), "threads": threads, "dd": dd, "reps": reps}
    if rng.random() < 0.25:   # free-running threads with equal thread names
        case["names"] = _gen_names(rng, k)
    return case


# which hops WRITE / OBSERVE which carrier of the model's component list: a probe counts for the carrier it is labelled
# with only if its first thread performs a writing hop and its second thread an observing hop of that carrier
CARRIER_HOPS = {
    ("scheduler", "_state"): ({"taskEnter", "resetSched", "useItems"}, {"snap", "getActive", "getSched"}),
    ("batching", "_debug_batch_state"): ({"mkItem", "useItems"}, {"mkItem", "useItems"}),
    ("profiler", "_state"): ({"profAppend", "profIncr"}, {"profIncr", "profFlush"}),
    ("tools", "DeduplicateDecorator.tasks"): ({"dedupCall", "taskEnter"}, {"dedupCall"}),
    ("asynq_to_async", "_asyncio_mode"): ({"amEnter"}, {"amGet"}),
}


def probed_carriers():
    res = set()
    for p in probes():
        comp = tuple(p["comp"]) if p.get("comp") else None
        if comp in CARRIER_HOPS and len(p["threads"]) >= 2:
            w, o = CARRIER_HOPS[comp]
            if {h[0] for h in p["threads"][0]} & w and {h[0] for h in p["threads"][1]} & o:
                res.add(comp)
    return sorted(res)


def _atom(x):
    """a string as one S-expression atom"""
    return "".join(ch if (ch.isalnum() or ch in "._:*-[]") else "_" for ch in str(x)) or "_"


def corpus():
    import glob
    import os
    res = []
    d = os.path.join(os.path.dirname(os.path.dirname(os.path.dirname(os.path.abspath(__file__)))), "corpus", PID)
    for p in sorted(glob.glob(os.path.join(d, "*.json"))):
        with open(p) as f:
            res.append(json.load(f))
    return res


def plan(tier, seed):
    rng = random.Random(seed * 1000003 + 16)
    quick = tier == "quick"
    cases = corpus()
    cases.append({"kind": "inv"})
    cases += probes()
    cases += [gen_hist(rng) for _ in range(400 if quick else 6000)]
    cases += [gen_life(rng) for _ in range(40 if quick else 400)]
    cases += [gen_life_alien(rng) for _ in range(12 if quick else 120)]
    cases += [gen_prog(rng, reps=3 if quick else 5) for _ in range(160 if quick else 700)]
    # every thread count once more with identical programs (all keys and names collide)
    for k in range(2, 17):
        c = gen_prog(rng, k=k, reps=2 if quick else 6)
        c["threads"] = [json.loads(json.dumps(c["threads"][0])) for _ in range(k)]
        if k % 2 == 0:        # ... and every second thread count with one name for all threads
            c["names"] = [1 + k % 3] * k
        else:
            c.pop("names", None)
        cases.append(c)
    return cases


def shrink(case):
    kind = case.get("kind")
    if kind == "inv":
        return
    th = case["threads"]
    # fewer threads
    if len(th) > 2:
        for i in range(len(th)):
            c = dict(case, reps=max(int(case.get("reps", 1)), 8)) if kind == "prog" else dict(case)
            c["threads"] = th[:i] + th[i + 1:]
            if kind == "hist":
                c["order"] = [t - (1 if t > i else 0) for t in case["order"] if t != i]
                if case.get("inherit"):
                    c["inherit"] = case["inherit"][:i] + case["inherit"][i + 1:]
            if case.get("names"):
                c["names"] = case["names"][:i] + case["names"][i + 1:]
            yield c
    if kind == "prog":
        # a failure of a free-running case is a race: candidates get more repetitions so that it shows again
        case = dict(case, reps=max(int(case.get("reps", 1)), 8))
        for i, progs in enumerate(th):
            if len(progs) > 1:
                for j in range(len(progs)):
                    yield dict(case, threads=th[:i] + [progs[:j] + progs[j + 1:]] + th[i + 1:])
            for j, p in enumerate(progs):
                for q in _sub_nodes(p):
                    yield dict(case, threads=th[:i] + [progs[:j] + [q] + progs[j + 1:]] + th[i + 1:])
        return
    # hist: drop one hop of one thread (keeping enter/leave and pause structure: drop only simple hops or whole pairs)
    for i, hops in enumerate(th):
        for j, h in enumerate(hops):
            if h[0] in ("taskEnter", "taskLeave", "flushPause", "svEnter", "svExit", "nfEnter", "nfExit"):
                continue
            n = 1
            if h[0] == "useItems":
                while j + n < len(hops) and hops[j + n][0] == "flushPause":
                    n += 1
            c = dict(case)
            c["threads"] = th[:i] + [hops[:j] + hops[j + n:]] + th[i + 1:]
            # remove n occurrences of thread i from the order, starting at its j-th step
            seen, out, removed = 0, [], 0
            for t in case["order"]:
                if t == i:
                    if seen >= j and removed < n:
                        removed += 1
                        seen += 1
                        continue
                    seen += 1
                out.append(t)
            c["order"] = out
            yield c


def _sub_nodes(p):
    k = p[0]
    if k == "aio":
        if p[1] > 1:
            yield ["aio", p[1] - 1]
        return
    if k in ("par", "seq"):
        for c in p[1]:
            yield c
        if len(p[1]) > 1:
            for i in range(len(p[1])):
                yield [k, p[1][:i] + p[1][i + 1:]]
    elif k == "ctx":
        yield p[2]
    elif k == "call":
        yield p[1]
    elif k == "mix":
        for c in p[3]:
            yield c
        yield ["leaf", p[1], p[2]]
    elif k == "leaf" and p[2] > 1:
        yield ["leaf", p[1], 1]


def neighbours(case, rng):
    # around an inventory / correspondence disagreement: the probes, then fresh histories and programs
    for c in probes():
        yield c
    for _ in range(16):
        yield gen_hist(rng, k=rng.choice([2, 3]), n=rng.choice([10, 24]))
    for _ in range(8):
        yield gen_life(rng)
    for _ in range(4):
        yield gen_life_alien(rng)
    for _ in range(16):
        c = gen_prog(rng, k=rng.choice([2, 4, 8]), reps=3)
        if rng.random() < 0.7:
            c["threads"] = [json.loads(json.dumps(c["threads"][0])) for _ in c["threads"]]
        yield c


def signature(case, v):
    """WHAT fails: the kind of case (lock-step histories of threads not created through threading.Thread apart, so that
    the finding recorded for them cannot hide a deduplication-scope defect of ordinary threads), the clause of the
    observer, and whether the model disagreed with the implementation as well (a recorded finding is recognised only
    when the model MIRRORS what the implementation did)"""
    kind = case.get("kind")
    if kind == "hist" and case.get("alien"):
        kind = "hist-alien"
    sig = "%s/%s" % (kind, v["spec"])
    if v.get("corr", "ok") != "ok":
        sig += "+model-disagrees"
    return sig


# ---------------------------------------------------------------------------------------------------
# the AST inventory (locality probe, static half)
# ---------------------------------------------------------------------------------------------------

def _mutable_kind(v, local_classes=()):
    """kind of the object an expression creates: dict / list / set / tlocal / contextvar / call:<callee> / None"""
    import ast
    if isinstance(v, (ast.Dict, ast.DictComp)):
        return "dict"
    if isinstance(v, (ast.List, ast.ListComp)):
        return "list"
    if isinstance(v, (ast.Set, ast.SetComp)):
        return "set"
    if isinstance(v, ast.Call):
        callee = ast.unparse(v.func)
        last = callee.split(".")[-1]
        if last in local_classes or last == "local":
            return "tlocal"
        if last == "ContextVar":
            return "contextvar"
        return "call:" + "".join(ch for ch in callee if ch.isalnum() or ch in "._")
    return None


def _flat_targets(t):
    import ast
    if isinstance(t, (ast.Tuple, ast.List)):
        for e in t.elts:
            for x in _flat_targets(e):
                yield x
    elif isinstance(t, ast.Starred):
        for x in _flat_targets(t.value):
            yield x
    else:
        yield t


def _pairs(targets, value):
    """(target node, value node or None) of an assignment, tuple targets taken apart (`a, b = {}, []`)"""
    import ast
    for t in targets:
        if isinstance(t, (ast.Tuple, ast.List)):
            if isinstance(value, (ast.Tuple, ast.List)) and len(value.elts) == len(t.elts) and \
                    not any(isinstance(e, ast.Starred) for e in t.elts):
                for te, ve in zip(t.elts, value.elts):
                    for x in _pairs([te], ve):
                        yield x
            else:       # unpacking of something opaque: every name gets the kind of the whole right-hand side
                for te in _flat_targets(t):
                    yield te, value
        else:
            yield t, value


def _own_nodes(fnode):
    """the nodes of a function body that belong to that function itself (not to nested functions / classes)"""
    import ast
    stack = list(ast.iter_child_nodes(fnode))
    while stack:
        n = stack.pop()
        yield n
        if not isinstance(n, (ast.FunctionDef, ast.AsyncFunctionDef, ast.Lambda, ast.ClassDef)):
            stack.extend(ast.iter_child_nodes(n))


def _locals_of(fnode):
    import ast
    names = set()
    a = fnode.args
    for x in a.posonlyargs + a.args + a.kwonlyargs + [a.vararg, a.kwarg]:
        if x is not None:
            names.add(x.arg)
    glob = set()
    for n in _own_nodes(fnode):
        if isinstance(n, (ast.Global, ast.Nonlocal)):
            glob.update(n.names)
        elif isinstance(n, ast.Name) and isinstance(n.ctx, (ast.Store, ast.Del)):
            names.add(n.id)
        elif isinstance(n, (ast.FunctionDef, ast.AsyncFunctionDef, ast.ClassDef)):
            names.add(n.name)
        elif isinstance(n, (ast.Import, ast.ImportFrom)):
            for al in n.names:
                names.add((al.asname or al.name).split(".")[0])
        elif isinstance(n, ast.ExceptHandler) and n.name:
            names.add(n.name)
    return names - glob


def _written(node):
    """the expressions whose object / binding a statement or call changes: [(expression, how)]"""
    import ast
    res = []
    if isinstance(node, (ast.Assign, ast.AugAssign, ast.AnnAssign, ast.Delete, ast.For, ast.AsyncFor)):
        if isinstance(node, ast.Assign):
            tg = node.targets
        elif isinstance(node, ast.Delete):
            tg = node.targets
        else:
            tg = [node.target]
        for t in tg:
            for x in _flat_targets(t):
                if isinstance(x, ast.Subscript):
                    res.append((x.value, "item"))
                elif isinstance(x, ast.Attribute):
                    res.append((x, "attr"))
                elif isinstance(x, ast.Name) and isinstance(node, ast.AugAssign):
                    res.append((x, "item"))        # `x += ..` mutates a list / set in place
    elif isinstance(node, ast.Call):
        if isinstance(node.func, ast.Attribute) and node.func.attr in MUTATORS:
            res.append((node.func.value, "item"))
        elif isinstance(node.func, ast.Name) and node.func.id in ("setattr", "delattr") and node.args:
            res.append((ast.Attribute(value=node.args[0], attr="*", ctx=ast.Store()), "attr"))
    return res


def inventory(pkg_dir):
    """the static half of the locality probe: every place of the package's .py files where state that outlives one
    call can live, as [(module, qualified name, kind)]:
      dict / list / set / const   module- or class-level container (const = no code of the module mutates it)
      tlocal / contextvar         a threading.local (sub)class instance / a ContextVar
      call:<callee>               another module- or class-level object created by a call
      global                      a module global rebound inside a function (`global x`) or through `globals()[..]`
      default                     a mutable default argument that its function mutates (const otherwise)
      classattr                   a class attribute written at run time (`Cls.x = ..`, `Cls.x += 1`, `cls.x`, `type(self).x`)
      attrwrite                   an attribute of a module-level object written inside a function (`options.X = ..`)
      closure:<kind>              a container / object created in a function and mutated by a function nested in it
      fnattr                      state kept in attributes of a function object, written by nested functions
      held                        an attribute of an object that an instance merely holds (`self._target._value = ..`,
                                  `setattr(self._target, ..)`): the object is shared with whoever else holds it"""
    import ast
    import os
    out = []
    for fn in sorted(os.listdir(pkg_dir)):
        if not fn.endswith(".py"):
            continue
        mod = fn[:-3]
        with open(os.path.join(pkg_dir, fn)) as f:
            tree = ast.parse(f.read())
        local_classes = set()
        classes = set()
        for node in ast.walk(tree):
            if isinstance(node, ast.ClassDef):
                classes.add(node.name)
                if any(ast.unparse(b).split(".")[-1] == "local" for b in node.bases):
                    local_classes.add(node.name)
        mutated = set()
        for node in ast.walk(tree):
            for tgt, how in _written(node):
                if how != "item":
                    continue
                if isinstance(tgt, ast.Name):
                    mutated.add(tgt.id)
                elif isinstance(tgt, ast.Attribute):
                    mutated.add(tgt.attr)

        def kind_of(v, name):
            k = _mutable_kind(v, local_classes)
            if k in ("dict", "list", "set"):
                return k if name.split(".")[-1] in mutated else "const"
            return k

        carriers = set()      # module-level names bound to a threading.local / ContextVar

        def scan(body, prefix):
            for st in body:
                if isinstance(st, (ast.Assign, ast.AnnAssign)):
                    if st.value is None:
                        continue
                    targets = st.targets if isinstance(st, ast.Assign) else [st.target]
                    for t, v in _pairs(targets, st.value):
                        name = None
                        if isinstance(t, ast.Name):
                            name = t.id
                        elif isinstance(t, ast.Subscript) and ast.unparse(t.value) == "globals()" and \
                                isinstance(t.slice, ast.Constant) and isinstance(t.slice.value, str):
                            name = t.slice.value        # globals()["x"] = ... at module level is `x = ...`
                        if name is not None:
                            k = kind_of(v, prefix + name)
                            if k:
                                out.append((mod, prefix + name, k))
                                if k in ("tlocal", "contextvar") and not prefix:
                                    carriers.add(name)
                elif isinstance(st, ast.ClassDef):
                    scan(st.body, prefix + st.name + ".")
                elif isinstance(st, (ast.If, ast.Try, ast.With, ast.For, ast.While)):
                    scan(st.body, prefix)
                    for h in getattr(st, "handlers", []):
                        scan(h.body, prefix)
                    scan(getattr(st, "orelse", []), prefix)
                    scan(getattr(st, "finalbody", []), prefix)

        scan(tree.body, "")

        rebound = set()

        def visit_fn(fnode, cls, outer):
            """`cls` = innermost enclosing class name, `outer` = enclosing functions, outermost first, as
            (node, locals, names of the functions defined directly in it)"""
            loc = _locals_of(fnode)
            own = list(_own_nodes(fnode))
            glob = set()
            for n in own:
                if isinstance(n, ast.Global):
                    glob.update(n.names)
            for n in own:
                if isinstance(n, ast.Name) and isinstance(n.ctx, (ast.Store, ast.Del)) and n.id in glob:
                    rebound.add(n.id)
                for tgt, how in _written(n):
                    # globals()[..] = ..  inside a function
                    if how == "item" and ast.unparse(tgt) == "globals()":
                        key = getattr(getattr(n, "targets", [None])[0], "slice", None) if isinstance(n, ast.Assign) else None
                        rebound.add(key.value if isinstance(key, ast.Constant) and isinstance(key.value, str) else "globals()[*]")
                        continue
                    base = tgt.value if how == "attr" else tgt
                    attr = tgt.attr if how == "attr" else None
                    # class attributes written at run time
                    if how == "attr":
                        b = ast.unparse(base)
                        if isinstance(base, ast.Name) and base.id in classes and base.id not in loc:
                            out.append((mod, "%s.%s" % (base.id, attr), "classattr"))
                            continue
                        if b in ("cls", "type(self)", "self.__class__") and cls:
                            out.append((mod, "%s.%s" % (cls, attr), "classattr"))
                            continue
                        # an attribute of an object held in an instance attribute
                        if isinstance(base, ast.Attribute) and isinstance(base.value, ast.Name) and base.value.id == "self" and cls:
                            out.append((mod, "%s.%s.%s" % (cls, base.attr, attr), "held"))
                            continue
                    if not isinstance(base, ast.Name):
                        continue
                    nm = base.id
                    # state in attributes of a function object defined in an enclosing function
                    if how == "attr" and nm not in loc:
                        hit = False
                        for (onode, oloc, odefs) in reversed(outer):
                            if nm in odefs:
                                out.append((mod, "%s:%s.%s" % (outer[0][0].name, nm, attr), "fnattr"))
                                hit = True
                                break
                            if nm in oloc:
                                hit = True       # attribute of an enclosing function's local object: per call
                                break
                        if hit:
                            continue
                        if nm not in carriers and nm != "self":
                            out.append((mod, "%s.*" % nm, "attrwrite"))
                        continue
                    # a container of an enclosing function mutated from here
                    if how == "item" and nm not in loc:
                        for (onode, oloc, odefs) in reversed(outer):
                            if nm in oloc:
                                k = None
                                for st in _own_nodes(onode):
                                    if isinstance(st, (ast.Assign, ast.AnnAssign)) and st.value is not None:
                                        tg = st.targets if isinstance(st, ast.Assign) else [st.target]
                                        for t, v in _pairs(tg, st.value):
                                            if isinstance(t, ast.Name) and t.id == nm:
                                                k = _mutable_kind(v, local_classes) or k
                                out.append((mod, "%s:%s" % (outer[0][0].name, nm), "closure:%s" % (k or "object")))
                                break
            # `nonlocal x` rebinding = state of the enclosing call
            for n in own:
                if isinstance(n, ast.Nonlocal) and outer:
                    for x in n.names:
                        out.append((mod, "%s:%s" % (outer[0][0].name, x), "closure:nonlocal"))
            # mutable default arguments
            args = fnode.args
            pos = args.posonlyargs + args.args
            for a, d in list(zip(pos[len(pos) - len(args.defaults):], args.defaults)) + \
                    [(a, d) for a, d in zip(args.kwonlyargs, args.kw_defaults) if d is not None]:
                if isinstance(d, (ast.Dict, ast.List, ast.Set, ast.DictComp, ast.ListComp, ast.SetComp)):
                    mut = False
                    for node in ast.walk(fnode):
                        for tgt, how in _written(node):
                            if how == "item" and isinstance(tgt, ast.Name) and tgt.id == a.arg:
                                mut = True
                    out.append((mod, "%s:%s" % (fnode.name, a.arg), "default" if mut else "const"))
            defs = {n.name for n in own if isinstance(n, (ast.FunctionDef, ast.AsyncFunctionDef))}
            for n in own:
                if isinstance(n, (ast.FunctionDef, ast.AsyncFunctionDef)):
                    visit_fn(n, cls, outer + [(fnode, loc, defs)])
                elif isinstance(n, ast.ClassDef):
                    visit_body(n.body, n.name, outer + [(fnode, loc, defs)])

        def visit_body(body, cls, outer):
            for st in body:
                for n in [st] + [x for x in _own_nodes(st)] if not isinstance(st, (ast.FunctionDef, ast.AsyncFunctionDef, ast.ClassDef)) else [st]:
                    if isinstance(n, (ast.FunctionDef, ast.AsyncFunctionDef)):
                        visit_fn(n, cls, outer)
                    elif isinstance(n, ast.ClassDef):
                        visit_body(n.body, n.name, outer)

        visit_body(tree.body, None, [])
        for name in sorted(rebound):
            out.append((mod, name, "global"))
    return sorted(set(out))


# ---------------------------------------------------------------------------------------------------
# implementation side
# ---------------------------------------------------------------------------------------------------

class LockstepBroken(Exception):
    pass


class Turns(object):
    """lock-step execution of a schedule: step i belongs to thread order[i]; a thread's turn lasts from one take() to
    its next take().  A schedule that can no longer be followed (a thread finished or took more turns than planned) is
    detected at once; a thread that never gives its turn back is detected by the timeout."""

    def __init__(self, order):
        import threading
        self.order = order
        self.pos = 0
        self.cv = threading.Condition()
        self.dead = False
        self.finished = set()

    def _stuck(self):
        return self.pos >= len(self.order) or self.order[self.pos] in self.finished

    def acquire(self, t):
        with self.cv:
            ok = self.cv.wait_for(
                lambda: self.dead or self._stuck() or self.order[self.pos] == t, timeout=8)
            if not ok or self.dead or self._stuck():
                self.dead = True
                self.cv.notify_all()
                raise LockstepBroken()

    def release(self):
        with self.cv:
            self.pos += 1
            self.cv.notify_all()

    def leave(self, t):
        with self.cv:
            self.finished.add(t)
            self.cv.notify_all()


class Hang(Exception):
    pass


_ENV = None
_KEEP = []   # worlds of the cases whose threads were not created through threading.Thread (see run_case)
REG = {}     # threading.get_ident() -> Recorder of the run executing on that thread (harness state, not asynq's)


def sx(x):
    if isinstance(x, (list, tuple)):
        return "(" + " ".join(sx(i) for i in x) + ")"
    if x is True:
        return "1"
    if x is False:
        return "0"
    if x is None:
        return "none"
    return str(x)


EXC = {"RuntimeError": 1, "ValueError": 2, "AssertionError": 3, "TypeError": 4, "KeyError": 5, "AttributeError": 6,
       "BatchingError": 7, "LockstepBroken": 8, "IndexError": 9}


def raised(e):
    return ["raised", EXC.get(type(e).__name__, 99)]


class World(object):
    """what the threads of ONE run share, like user code would: the deduplicated functions (fresh per run, so that a
    library that leaks deduplication state cannot make one run depend on an earlier one) and, for the harness only,
    which thread created which task"""

    def __init__(self, env):
        self.DB = [env.make_db(f) for f in range(2)]
        self.DD = [env.make_dd(f) for f in range(3)]
        self.V = env.make_sv()       # ONE AsyncScopedValue for all threads of the run (shared by design)
        self.LRU = env.make_lru()    # ONE @alru_cache() function for all threads of the run (shared by design)
        self.owner = {}      # id(task) -> (thread index, the token its creator gave it)


class Recorder(object):
    """everything the harness knows about one thread of one run: its records, its identity->token maps"""

    def __init__(self, env, t, sink, case, world, hops=None, turns=None):
        self.env = env
        self.world = world
        self.t = t
        self.sink = sink          # list.append is atomic: the global order of the records of a concurrent run
        self.case = case
        self.perf = bool(case.get("perf"))
        self.tasks = {}           # id(task) -> token
        self.keep = []            # keeps every object alive (ids stay unique)
        self.ntask = 0
        self.items = {}           # id(item) -> result token
        self.nitem = 0
        self.hops = hops
        self.hpos = 0
        self.turns = turns
        self.holding = False
        self.tie = False
        self.am = []
        self.sv = []              # the `V.override(..)` context managers this thread is inside of
        self.lru_ran = False
        self.hist = case.get("kind") == "hist"
        self.pause = False
        self.flushes = 0
        self.maxflush = 0
        self.hits = 0
        self.sched = None
        self.handler = None
        self.barrier = None
        self.sname = None         # the name TaskScheduler.__init__ gives a scheduler this thread creates (set at its start)

    # ---- records ----
    def emit(self, op, obs):
        self.sink.append((self.t, op, obs))

    # ---- tokens ----
    def tok_of(self, task):
        if task is None:
            return None
        return self.tasks.get(id(task), FOREIGN)

    def new_tok(self, task):
        tok = self.ntask
        self.ntask += 1
        self.tasks[id(task)] = tok
        self.keep.append(task)
        return tok

    def pid_of(self, obj):
        if not self.perf and isinstance(obj, self.env.AsyncTask):
            return 0
        s = obj.to_str()
        return int(s[:6]) if s[:6].isdigit() else FOREIGN

    def name_str(self, nm):
        return ("b%d" % nm) if nm < 10 else ("sync-t%d" % nm)

    def name_tok(self, s):
        try:
            if s.startswith("sync-t"):
                return int(s[6:])
            if s.startswith("b"):
                return int(s[1:])
        except ValueError:
            pass
        return FOREIGN

    # ---- scheduler hook ----
    def hook(self):
        self.sched = self.env.scheduler.get_scheduler()
        self.handler = self.on_flush
        self.sched.on_before_batch_flush.subscribe(self.handler)

    def unhook(self):
        if self.sched is not None:
            try:
                self.sched.on_before_batch_flush.unsubscribe(self.handler)
            except Exception:
                pass
            self.sched = None

    def on_flush(self, batch):
        # may run on ANOTHER thread's recorder if schedulers were shared - then the records land in the wrong trace,
        # which is exactly what has to be seen
        me = REG.get(self.env.threading.get_ident(), self)
        items = [me.items.get(id(i), FOREIGN) for i in batch.items]
        me.flushes += 1
        me.maxflush = max(me.maxflush, len(items))
        sched = me.env.scheduler.get_scheduler()
        try:
            for b in sched._batches:
                if b is not batch and b.items and not b.is_flushed() and len(b.items) == len(batch.items):
                    me.tie = True
        except Exception:
            pass
        me.emit(["schedFlush", me.name_tok(getattr(batch, "name", "?"))], ["flushed", getattr(batch, "index", FOREIGN), items])
        if me.hist:
            me.emit(["snap"], me.snap())
            if me.pause:
                hop = me.take()
                if hop is not None and hop[0] != "flushPause":
                    me.hpos -= 1     # not ours: leave it to the main loop (the trace will differ)

    def snap(self):
        s = self.env.scheduler.get_scheduler()
        return ["snap", len(s._tasks), len(s._batches), self.tok_of(s.active_task)]

    def active(self):
        return ["active", self.tok_of(self.env.scheduler.get_active_task())]

    # ---- lock-step ----
    def take(self):
        if self.turns is not None and self.holding:
            self.holding = False
            self.turns.release()
        if self.hops is None or self.hpos >= len(self.hops):
            return None
        if self.turns is not None:
            self.turns.acquire(self.t)
            self.holding = True
        hop = self.hops[self.hpos]
        self.hpos += 1
        return hop

    # ---- operations shared by both kinds ----
    def mk_item(self, nm, sync=False):
        res = 100 + self.nitem
        self.nitem += 1
        if sync or nm >= 10:
            item = self.env.batching.sync("t%d" % nm)      # = DebugBatchItem("sync-t<n>"), answers None
        else:
            item = self.env.batching.DebugBatchItem(self.name_str(nm), res)
        self.keep.append(item)
        self.items[id(item)] = res
        b = item.batch
        self.emit(["mkItem", nm, res], ["item", getattr(b, "index", FOREIGN), item.index, self.pid_of(item)])
        return item

    def classify_task(self, t, op, dedup):
        """records the creation of a task (or what came back instead); returns the token or None"""
        env = self.env
        if not isinstance(t, env.AsyncTask):
            if hasattr(t, "close"):
                t.close()       # a coroutine (asyncio mode): never awaited
            self.emit(op, ["bypass"])
            return None
        known = id(t) in self.tasks
        if known:
            tok = self.tasks[id(t)]
            self.hits += 1
        elif self.world.owner.get(id(t), (self.t, 0))[0] != self.t:
            # a task created by ANOTHER thread of this run was handed to this thread: the property sees `foreign`; for
            # the correspondence the record says which task it was, in the numbering of the thread that created it
            self.keep.append(t)
            if dedup:
                self.emit(op, ["foreign", ["dedup", 1, self.world.owner[id(t)][1], self.pid_of(t)]])
            else:
                self.emit(op, ["task", FOREIGN, FOREIGN])
            return FOREIGN
        else:
            tok = self.new_tok(t)
            self.world.owner[id(t)] = (self.t, tok)
            rec = self
            t.on_computed.subscribe(lambda _t, tok=tok: REG.get(env.threading.get_ident(), rec).emit(["taskDone", tok], ["unit"]))
        pid = self.pid_of(t)
        if dedup:
            self.emit(op, ["dedup", 1 if known else 0, tok, pid])
        elif known:   # a plain call handed out an existing task: impossible unless tasks leak between threads
            self.emit(op, ["task", FOREIGN, pid])
        else:
            self.emit(op, ["task", tok, pid])
        return tok

    def start(self, tok):
        self.emit(["taskStart", tok if tok is not None else FOREIGN], self.active())

    def stop(self):
        self.emit(["taskStop"], ["unit"])


def fold(vals):
    acc = 0
    for i, v in enumerate(vals):
        if v is None:
            v = 7
        acc = (acc * 31 + (i + 1) * int(v)) % 1000003
    return acc


def env():
    """per worker process: the asynq functions shared by ALL threads of ALL cases (module-level, like user code)"""
    global _ENV
    if _ENV is not None:
        return _ENV
    import threading
    import asynq
    from asynq import batching, contexts, profiler, scheduler, tools, _debug
    from asynq import asynq_to_async
    from asynq.async_task import AsyncTask

    class E(object):
        pass

    e = E()
    e.threading, e.asynq, e.batching, e.profiler, e.scheduler, e.tools = threading, asynq, batching, profiler, scheduler, tools
    e.debug_options = _debug.options
    e.a2a = asynq_to_async
    e.AsyncTask = AsyncTask

    def cur():
        return REG[threading.get_ident()]

    def sched_name():
        # what TaskScheduler.__init__ (scheduler.py:47-55) calls a scheduler created by the current thread now
        n = threading.current_thread().name
        return n if n else str(threading.current_thread().ident)

    e.sched_name = sched_name

    # ---------------- lock-step histories ----------------
    def hop_loop(rec, inbody, tok):
        """executes the hops of this thread until the matching taskLeave / the end; a generator because inside a task
        body some hops yield to the scheduler"""
        sch = e.scheduler
        while True:
            hop = rec.take()
            if hop is None:
                return
            name = hop[0]
            op = [name]
            try:
                if name == "taskLeave":
                    if inbody:
                        return
                    rec.emit(["note", 8, 0], ["unit"])       # stray: its taskEnter did not produce a task
                elif name == "flushPause":
                    rec.emit(["note", 8, 1], ["unit"])       # stray: the flush it belongs to did not happen
                elif name == "getSched":
                    s = sch.get_scheduler()
                    tn, _, num = s.name.rpartition(" / ")
                    rec.emit(op, ["sched", int(num), tn == rec.sname])
                elif name == "resetSched":
                    rec.unhook()
                    sch.reset()
                    rec.sname = sched_name()     # the new scheduler is named after the thread as it is called NOW
                    rec.hook()
                    rec.emit(op, ["unit"])
                elif name == "setName":
                    # the thread renames itself; nothing in the library may depend on it (model: `note`, a no-op)
                    op = ["note", 7, hop[1]]
                    threading.current_thread().name = thread_name(hop[1])
                    rec.emit(op, ["unit"])
                elif name == "snap":
                    rec.emit(op, rec.snap())
                elif name == "getActive":
                    rec.emit(op, rec.active())
                elif name == "mkItem":
                    rec.mk_item(hop[1])
                elif name == "useItems":
                    spec = hop[1]
                    items = []
                    for nm, n in spec:
                        items.append([rec.mk_item(nm) for _ in range(n)])
                    if inbody:
                        rec.stop()
                        for nm, _ in spec:
                            rec.emit(["schedBatch", nm], ["unit"])
                        rec.emit(["pop"], ["unit"])
                        rec.pause = bool(hop[2])
                        try:
                            vals = yield [i for grp in items for i in grp]
                        finally:
                            rec.pause = False
                        rec.emit(["push", tok], ["unit"])
                        rec.start(tok)
                        rec.emit(["note", 1, fold(vals)], ["unit"])
                    else:
                        vals = []
                        for (nm, _), grp in zip(spec, items):
                            b = grp[0].batch
                            comp = [rec.items.get(id(i), FOREIGN) for i in b.items]
                            idx = b.index
                            v0 = grp[0].value()     # BatchItemBase._compute -> batch.flush()
                            rec.emit(["directFlush", nm], ["flushed", idx, comp])
                            vals.append(v0)
                            vals.extend(i.value() for i in grp[1:])
                        rec.emit(["note", 1, fold(vals)], ["unit"])
                elif name == "profAppend":
                    e.profiler.append({"name": "u%d" % hop[1]})
                    rec.emit(["profAppend", hop[1]], ["unit"])
                elif name == "profIncr":
                    rec.emit(op, ["nat", e.profiler.incr_counter()])
                elif name == "profFlush":
                    rec.emit(op, ["stats", stats_tokens(e.profiler.flush())])
                elif name == "profReset":
                    e.profiler.reset()
                    rec.emit(op, ["unit"])
                elif name == "dedupCall":
                    op = ["dedupCall", hop[1], hop[2]]
                    rec.classify_task(rec.world.DB[hop[1]].asynq(hop[2]), op, True)
                elif name == "dirty":
                    op = ["dirty", hop[1], hop[2]]
                    rec.world.DB[hop[1]].dirty(hop[2])
                    rec.emit(op, ["unit"])
                elif name == "amEnter":
                    m = e.a2a.AsyncioMode()
                    m.__enter__()
                    rec.am.append(m)
                    rec.emit(op, ["unit"])
                elif name == "amExit":
                    if rec.am:
                        rec.am.pop().__exit__(None, None, None)
                    rec.emit(op, ["unit"])
                elif name == "amGet":
                    rec.emit(op, ["bool", bool(e.a2a.is_asyncio_mode())])
                elif name == "svGet":
                    v = rec.world.V.get()
                    rec.emit(op, ["nat", v if isinstance(v, int) else FOREIGN])
                elif name == "svSet":
                    op = ["svSet", hop[1]]
                    rec.world.V.set(hop[1])
                    rec.emit(op, ["unit"])
                elif name == "svEnter":
                    op = ["svEnter", hop[1]]
                    c = rec.world.V.override(hop[1])
                    c.__enter__()
                    rec.sv.append(c)
                    rec.emit(op, ["unit"])
                elif name == "svExit":
                    if rec.sv:
                        rec.sv.pop().__exit__(None, None, None)
                    rec.emit(op, ["unit"])
                elif name == "lruCall":
                    op = ["lruCall", hop[1]]
                    rec.lru_ran = False
                    v = rec.world.LRU(hop[1])
                    rec.emit(op, ["cache", 0 if rec.lru_ran else 1, v if isinstance(v, int) else FOREIGN])
                elif name == "nfRepr":
                    # what the audit's threads do: the result of the computation is this text
                    rec.emit(op, ["bool", repr(e.asynq.none_future) == "<recursion>"])
                elif name == "nfEnter":
                    nf_enter(rec)
                elif name == "nfExit":
                    rec.emit(op, ["unit"])      # its nfEnter was not stopped inside the method: nothing is left to do
                elif name == "taskEnter":
                    if len(hop) == 1:
                        op = ["newTask"]
                        t = e.BODY.asynq()
                        ttok = rec.classify_task(t, op, False)
                    else:
                        op = ["dedupCall", hop[1], hop[2]]
                        t = rec.world.DB[hop[1]].asynq(hop[2])
                        ttok = rec.classify_task(t, op, True)
                    if ttok is not None:
                        op = ["push", ttok]
                        rec.emit(op, ["unit"])
                        op = ["pop"]
                        t.value()            # AsyncTask._compute -> get_scheduler().wait_for(task)
                        rec.emit(op, ["unit"])
                else:
                    rec.emit(["note", 9, 0], ["other"])
            except LockstepBroken:
                raise
            except Exception as x:   # what the operation raised is its observation
                rec.emit(op, raised(x))

    def nf_enter(rec):
        """`repr(asynq.none_future)` with a thread switch INSIDE FutureBase.__repr__ at a point the harness chooses: a
        profile function of this thread gives the turn away at the first Python-level call made from the frame of
        `__repr__` (futures.py:166-184: `self.is_computed()`, the statement after `self._in_repr = True`) and comes back
        at the thread's next turn (hop nfExit).  Records: nfEnter (was the answer '<recursion>' at once) + nfExit, or -
        when the method makes no such call (compiled build) - one undivided nfRepr."""
        import sys
        code = getattr(getattr(e.asynq.futures.FutureBase, "__repr__", None), "__code__", None)
        st = {"in": False}

        def prof(frame, event, arg):
            if event == "call" and not st["in"] and frame.f_back is not None and frame.f_back.f_code is code:
                sys.setprofile(None)
                st["in"] = True
                rec.emit(["nfEnter"], ["bool", False])
                hop = rec.take()      # preempted here: the other threads act until this thread's next turn
                if hop is not None and hop[0] != "nfExit":
                    rec.hpos -= 1     # not ours: leave it to the main loop (the trace will differ)

        if code is not None:
            sys.setprofile(prof)
        try:
            s = repr(e.asynq.none_future)
        finally:
            sys.setprofile(None)
        rec_ = s == "<recursion>"
        if st["in"]:
            rec.emit(["nfExit"], ["bool", True] if rec_ else ["unit"])
        elif rec_:
            rec.emit(["nfEnter"], ["bool", True])
        else:
            rec.emit(["nfRepr"], ["bool", False])

    def body():
        rec = cur()
        tok = rec.tok_of(e.scheduler.get_active_task())
        rec.start(tok)
        yield from hop_loop(rec, True, tok)
        rec.stop()
        return 0

    e.hop_loop = hop_loop
    e.BODY = asynq.asynq()(body)
    key0 = lambda args, kwargs: args[0]

    def make_db(f):
        def dbody(k):
            return (yield from body())
        dbody.__name__ = "dbody%d" % f
        return tools.deduplicate(keygetter=key0)(asynq.asynq()(dbody))

    e.make_db = make_db

    def make_sv():
        from asynq import scoped_value
        return scoped_value.AsyncScopedValue(0)

    def make_lru():
        def lbody(k):
            cur().lru_ran = True
            return 10 * k + 1
        return tools.alru_cache()(asynq.asynq()(lbody))

    e.make_sv = make_sv
    e.make_lru = make_lru

    def stats_tokens(stats):
        out = []
        for s in stats:
            n = str(s.get("name", "")) if isinstance(s, dict) else ""
            if n[:6].isdigit() and n[6:7] == ".":
                out.append(["task", int(n[:6])])
            elif n.startswith("u") and n[1:].isdigit():
                out.append(["user", int(n[1:])])
            elif "DebugBatch" in n:
                out.append("batch")
            else:
                out.append("other")
        return out

    e.stats_tokens = stats_tokens

    # ---------------- programs ----------------
    class Ctx(contexts.AsyncContext):
        def __init__(self, rec, c):
            self.rec = rec
            self.c = c

        def resume(self):
            REG.get(threading.get_ident(), self.rec).emit(["note", 2, self.c], ["unit"])

        def pause(self):
            REG.get(threading.get_ident(), self.rec).emit(["note", 3, self.c], ["unit"])

    def spawn(rec, node):
        if node[0] == "dd":
            return rec.world.DD[node[1]].asynq(node[2]), ["dedupCall", node[1], node[2]], True
        return e.RUN.asynq(node, rec.ntask), ["newTask"], False

    def interp(rec, node, tok):
        kind = node[0]
        if kind == "leaf":
            items = [rec.mk_item(node[1]) for _ in range(node[2])]
            rec.emit(["schedBatch", node[1]], ["unit"])
            rec.stop()
            vals = yield (items if len(items) > 1 else items[0])
            rec.start(tok)
            return fold(vals if len(items) > 1 else [vals])
        if kind == "sync":
            item = rec.mk_item(node[1], sync=True)
            rec.emit(["schedBatch", node[1]], ["unit"])
            rec.stop()
            v = yield item
            rec.start(tok)
            return fold([v])
        if kind == "act":
            rec.emit(["getActive"], rec.active())
            return 3
        if kind == "dirty":
            rec.world.DD[node[1]].dirty(node[2])
            rec.emit(["dirty", node[1], node[2]], ["unit"])
            return 5
        if kind == "par":
            ts = []
            inline = []
            for c in node[1]:
                if c[0] in ("act", "dirty"):
                    inline.append((yield from interp(rec, c, tok)))
                    continue
                t, op, dd = spawn(rec, c)
                if rec.classify_task(t, op, dd) is not None:
                    ts.append(t)
            rec.stop()
            vals = yield ts
            rec.start(tok)
            return fold(list(vals) + inline)
        if kind == "seq":
            vals = []
            for c in node[1]:
                vals.append((yield from interp(rec, c, tok)))
            return fold(vals)
        if kind == "dd":
            t, op, dd = spawn(rec, node)
            rec.classify_task(t, op, dd)
            rec.stop()
            v = yield t
            rec.start(tok)
            return fold([v])
        if kind == "ctx":
            with Ctx(rec, node[1]):
                v = yield from interp(rec, node[2], tok)
            return fold([v, node[1]])
        if kind == "call":
            t, op, dd = spawn(rec, node[1])
            ttok = rec.classify_task(t, op, dd)
            v = t.value() if ttok is not None else 11          # nested synchronous run on this thread's scheduler
            rec.emit(["getActive"], rec.active())
            return fold([v, 1])
        if kind == "mix":
            items = [rec.mk_item(node[1]) for _ in range(node[2])]
            rec.emit(["schedBatch", node[1]], ["unit"])
            ts = []
            for c in node[3]:
                if c[0] in ("act", "dirty"):
                    continue
                t, op, dd = spawn(rec, c)
                rec.classify_task(t, op, dd)
                ts.append(t)
            rec.stop()
            got = yield {"i": items, "t": tuple(ts)}
            rec.start(tok)
            return fold(list(got["i"]) + list(got["t"]))
        raise ValueError(kind)

    def run(node, tok):
        rec = cur()
        rec.start(tok)
        v = yield from interp(rec, node, tok)
        rec.stop()
        return v

    e.RUN = asynq.asynq()(run)

    # a thread that serves asynq functions through asyncio: fn.asyncio() runs the body in asyncio mode (AsyncioMode
    # entered by the converted coroutine); `.asynq()` calls inside hand out coroutines
    import asyncio

    def aio_leaf(x):
        return 2 * x + 1

    e.AIO_LEAF = asynq.asynq()(aio_leaf)

    def aio(n):
        rec = cur()
        rec.emit(["amEnter"], ["unit"])
        rec.emit(["amGet"], ["bool", bool(e.a2a.is_asyncio_mode())])
        vals = []
        for i in range(n):
            vals.append((yield e.AIO_LEAF.asynq(i)))
            yield asyncio.sleep(0.0003)          # an await point: the thread stays in asyncio mode while others run
            rec.emit(["amGet"], ["bool", bool(e.a2a.is_asyncio_mode())])
        rec.emit(["getActive"], rec.active())
        rec.emit(["amExit"], ["unit"])
        return fold(vals)

    e.AIO = asynq.asynq()(aio)
    e.asyncio = asyncio

    def serve(f, *a):
        # an asynq function served through asyncio that pushes blocking legacy work to a thread: the worker thread of
        # asyncio.to_thread runs `f` in a COPY of this coroutine's context, i.e. in asyncio mode
        yield asyncio.to_thread(f, *a)

    e.SERVE = asynq.asynq()(serve)

    def make_dd(f):
        def ddbody(k):
            rec = cur()
            tok = rec.tok_of(e.scheduler.get_active_task())
            rec.start(tok)
            v = yield from interp(rec, rec.case["dd"][f][k], tok)
            rec.stop()
            return fold([v, k])
        ddbody.__name__ = "ddbody%d" % f
        return tools.deduplicate(keygetter=key0)(asynq.asynq()(ddbody))

    e.make_dd = make_dd

    def run_programs(rec, progs):
        rec.emit(["getActive"], rec.active())
        for p in progs:
            if p[0] == "aio":
                try:
                    v = e.asyncio.run(e.AIO.asyncio(p[1]))
                    rec.emit(["note", 4, v if isinstance(v, int) else FOREIGN], ["unit"])
                except Exception as x:
                    rec.emit(["note", 4, 0], raised(x))
                rec.emit(["amGet"], ["bool", bool(e.a2a.is_asyncio_mode())])
                continue
            try:
                t, op, dd = spawn(rec, p)
                ttok = rec.classify_task(t, op, dd)
                v = t.value() if ttok is not None else 11
                rec.emit(["note", 0, v if isinstance(v, int) else FOREIGN], ["unit"])
            except Exception as x:
                rec.emit(["note", 0, 0], raised(x))
            rec.emit(["getActive"], rec.active())
            rec.emit(["snap"], rec.snap())
        rec.emit(["profFlush"], ["stats", stats_tokens(e.profiler.flush())])
        s = e.scheduler.get_scheduler()
        tn, _, num = s.name.rpartition(" / ")
        rec.emit(["getSched"], ["sched", int(num) if num.isdigit() else FOREIGN, tn == rec.sname])
        rec.emit(["amGet"], ["bool", bool(e.a2a.is_asyncio_mode())])

    e.run_programs = run_programs
    _ENV = e
    return e


def _thread_main(e, rec, fn):
    ident = e.threading.get_ident()
    REG[ident] = rec
    try:
        rec.sname = e.sched_name()
        rec.hook()
        if rec.barrier is not None:
            rec.barrier.wait(30)     # free-running threads start together
        fn(rec)
    except LockstepBroken:
        rec.emit(["note", 9, 1], ["raised", EXC["LockstepBroken"]])
    except BaseException as x:  # noqa  the thread died: that is an observation
        rec.emit(["note", 9, 2], raised(x))
    finally:
        try:
            # a thread that stopped early must not leave the others waiting for its turns
            while rec.turns is not None and not rec.turns.dead and rec.take() is not None:
                pass
            if rec.turns is not None and rec.holding:
                rec.holding = False
                rec.turns.release()
        except BaseException:  # noqa
            pass
        if rec.turns is not None:
            rec.turns.leave(rec.t)
        while rec.sv:
            try:
                rec.sv.pop().__exit__(None, None, None)
            except Exception:
                pass
        while rec.am:
            try:
                rec.am.pop().__exit__(None, None, None)
            except Exception:
                pass
        rec.unhook()
        REG.pop(ident, None)


def _make_thread(e, rec, fn, name, how=0):
    """a threading.Thread that runs `rec`: 0 = in a fresh context, 1 = in a COPY of a context that is in asyncio mode
    (`Thread(target=copy_context().run)`), 2 = as the worker of `asyncio.to_thread(..)` awaited inside `fn.asyncio()`
    (the thread created here serves the asynq function through asyncio and stays parked on the await meanwhile)"""
    if how == 1:
        import contextvars
        with e.a2a.AsyncioMode():
            ctx = contextvars.copy_context()
        return e.threading.Thread(target=ctx.run, args=(_thread_main, e, rec, fn), name=name, daemon=True)
    if how == 2:
        return e.threading.Thread(target=lambda: e.asyncio.run(e.SERVE.asyncio(_thread_main, e, rec, fn)), name=name, daemon=True)
    return e.threading.Thread(target=_thread_main, args=(e, rec, fn), name=name, daemon=True)


def _name_of(names, label, t):
    """the name of thread t of a run: its own (distinct from every other thread's) unless the case gives name classes"""
    if names and t < len(names):
        return thread_name(names[t])
    return "c16-%s-%d" % (label, t)


def _run_threads(e, recs, fns, label, inherit=None, names=None):
    ths = []
    for rec, fn in zip(recs, fns):
        th = _make_thread(e, rec, fn, _name_of(names, label, rec.t), (inherit or {}).get(rec.t, 0))
        ths.append(th)
    import time
    for th in ths:
        th.start()
    turns = recs[0].turns
    deadline = time.time() + 12
    for th in ths:
        while th.is_alive():
            th.join(0.2)
            if turns is not None and turns.dead:
                deadline = min(deadline, time.time() + 3)
            if time.time() > deadline:
                break
    if any(th.is_alive() for th in ths):
        # a thread spins or sleeps forever (seen when a thread waits for a task that lives in another thread's
        # scheduler): it cannot be stopped, the worker process has to go
        import __main__
        ct = getattr(__main__, "CaseTimeout", None)
        raise (ct() if ct is not None else Hang("a thread never finished"))


class _Alien(object):
    """a thread started with `_thread.start_new_thread` (no threading.Thread object: `threading.current_thread()` inside
    it answers a `_DummyThread`), with the little of the Thread interface that `_run_successors` needs"""

    def __init__(self, e, main):
        import _thread
        self.started = e.threading.Event()
        self.done = e.threading.Event()
        self.ident = None

        def wrap():
            self.ident = _thread.get_ident()
            self.started.set()
            try:
                main()
            finally:
                self.done.set()

        _thread.start_new_thread(wrap, ())
        self.started.wait(10)

    def is_alive(self):
        return not self.done.is_set()

    def join(self, timeout=None):
        self.done.wait(timeout)


def _run_successors(e, recs, fns, label, alien=False, names=None):
    """thread lifetimes: the threads run ONE AFTER THE OTHER; thread t+1 is created only after thread t has finished and
    been joined, and it is created on the OS thread ident that thread t gave back: CPython hands the ident (the stack) of
    a finished thread to a later one a moment after join() returns, so candidate threads are created until one has that
    ident; the candidates with another ident have done nothing, are never logged, and stay parked (keeping their idents
    occupied) until the end of the run.  `alien`: the threads are started with `_thread.start_new_thread` instead of
    threading.Thread.  Returns how many successors really got their predecessor's ident, and the ident of every thread."""
    import time
    threading = e.threading
    release = threading.Event()
    parked = []
    recycled = 0
    prev = None
    idents = []
    try:
        for rec, fn in zip(recs, fns):
            chosen = None
            tries = 0
            while True:
                box = {"run": False, "go": threading.Event()}

                def main(box=box, rec=rec, fn=fn):
                    box["go"].wait()
                    if box["run"]:
                        _thread_main(e, rec, fn)
                    else:
                        release.wait()

                if alien:
                    th = _Alien(e, main)
                else:
                    th = threading.Thread(target=main, name=_name_of(names, label, rec.t), daemon=True)
                    th.start()
                if prev is None or th.ident == prev or tries >= 200:
                    chosen = (th, box)
                    break
                box["go"].set()           # parks on `release`
                parked.append(th)
                tries += 1
                time.sleep(0.0002 * min(tries, 10))
            th, box = chosen
            if prev is not None and th.ident == prev:
                recycled += 1
            prev = th.ident
            idents.append(th.ident)
            box["run"] = True
            box["go"].set()
            deadline = time.time() + 12
            while th.is_alive() and time.time() < deadline:
                th.join(0.2)
            if th.is_alive():
                import __main__
                ct = getattr(__main__, "CaseTimeout", None)
                raise (ct() if ct is not None else Hang("a thread never finished"))
            if alien:
                time.sleep(0.002)     # `done` is set inside the thread: give the OS thread a moment to end
    finally:
        release.set()
        for th in parked:
            th.join(1)
    return recycled, idents


def _collapse(node):
    """tie-prone program: everything on one batch name"""
    k = node[0]
    if k == "leaf":
        return ["leaf", 0, node[2]]
    if k == "sync":
        return ["leaf", 0, 1]
    if k in ("par", "seq"):
        return [k, [_collapse(c) for c in node[1]]]
    if k == "aio":
        return node
    if k == "ctx":
        return ["ctx", node[1], _collapse(node[2])]
    if k == "call":
        return ["call", _collapse(node[1])]
    if k == "mix":
        return ["mix", 0, node[2], [_collapse(c) for c in node[3]]]
    return node


def run_case(case):
    import os
    import sys
    cid = case["id"]
    kind = case.get("kind")
    e = env()
    if kind == "inv":
        inv = inventory(os.path.dirname(os.path.abspath(e.asynq.__file__)))
        probed = probed_carriers()
        lines = ["(case threads %d inv 0 0 0)" % cid] + ["(inv %s %s %s)" % tuple(_atom(y) for y in x) for x in inv] + \
                ["(probe %s %s)" % x for x in probed] + ["(end)"]
        return {"lines": lines, "features": ["kind=inv", "inventory-entries=%d" % len(inv)], "nontrivial": "inventory"}

    case = json.loads(json.dumps(case))
    k = len(case["threads"])
    perf = bool(case.get("perf"))
    reps = 1 if kind == "hist" else int(case.get("reps", 1))
    feats = ["kind=" + kind, "threads=%d" % k, "perf=%d" % perf]
    inherit = {t: int(h) for t, h in enumerate(case.get("inherit") or []) if h and t < k} if kind == "hist" else {}
    alien = kind == "hist" and bool(case.get("life")) and bool(case.get("alien"))
    names = [int(c) for c in case["names"]][:k] if case.get("names") and not alien else None
    if names and len(names) == k:
        feats.append("thread-names=%s" % ("all-equal" if len(set(names)) == 1 and k > 1 else
                                          "some-equal" if len(set(names)) < k else "distinct"))
        if 0 in names:
            feats.append("thread-name-empty")
    else:
        names = None
    pre = ["(mode %d 1)" % t for t in sorted(inherit)]
    for t in sorted(inherit):
        feats.append("start-context=%s" % ("copy_context.run" if inherit[t] == 1 else "asyncio.to_thread"))
    old_perf = e.debug_options.COLLECT_PERF_STATS
    old_si = sys.getswitchinterval()
    e.debug_options.COLLECT_PERF_STATS = True if perf else False
    lines = []
    stats = {"flushes": 0, "maxflush": 0, "hits": 0, "tie": False}

    def fn_for(t):
        if kind == "hist":
            def fn(rec):
                for _ in e.hop_loop(rec, False, None):
                    raise RuntimeError("top-level hop yielded")
            return fn
        return lambda rec: e.run_programs(rec, case["threads"][t])

    def note(rec):
        stats["flushes"] += rec.flushes
        stats["maxflush"] = max(stats["maxflush"], rec.maxflush)
        stats["hits"] += rec.hits
        stats["tie"] = stats["tie"] or rec.tie

    try:
        # ---- every thread alone (one at a time, each in a fresh thread) ----
        for attempt in (0, 1):
            alone = []
            tie = False
            for t in range(k):
                sink = []
                rec = Recorder(e, t, sink, case, World(e), hops=case["threads"][t] if kind == "hist" else None)
                _run_threads(e, [rec], [fn_for(t)], "a%d" % cid, inherit, names)     # started the same way as in the concurrent run
                alone.append(sink)
                tie = tie or rec.tie
                if attempt == 1 or not rec.tie:
                    note(rec)
            if kind == "prog" and tie and attempt == 0:
                case["threads"] = [[_collapse(p) for p in progs] for progs in case["threads"]]
                case["dd"] = [[_collapse(p) for p in row] for row in case["dd"]]
                feats.append("collapsed-tie-prone")
                stats.update(flushes=0, maxflush=0, hits=0, tie=False)
                continue
            break
        for t, sink in enumerate(alone):
            for (_, op, obs) in sink:
                lines.append("(a %d %s %s)" % (t, sx(op), sx(obs)))
        # ---- all threads together ----
        if kind == "prog":
            sys.setswitchinterval(1e-6)
        for r in range(reps):
            sink = []
            life = kind == "hist" and bool(case.get("life"))
            turns = Turns(case["order"]) if kind == "hist" and not life else None
            world = World(e)
            recs = [Recorder(e, t, sink, case, world, hops=case["threads"][t] if kind == "hist" else None, turns=turns)
                    for t in range(k)]
            if kind == "prog":
                barrier = e.threading.Barrier(k)
                for rec in recs:
                    rec.barrier = barrier
            if life:
                n, idents = _run_successors(e, recs, [fn_for(t) for t in range(k)], "c%d-%d" % (cid, r), alien, names)
                feats.append("thread-lifetimes" + ("-not-threading.Thread" if alien else ""))
                feats.append("thread-ident-recycled" if n == k - 1 else "thread-ident-not-recycled")
                if alien:
                    _KEEP.append(world)      # its functions stay alive: no later case can meet their ids again
                    cls = sorted(set(idents), key=idents.index)
                    pre += ["(alien %d %d)" % (t, cls.index(i)) for t, i in enumerate(idents)]
            else:
                _run_threads(e, recs, [fn_for(t) for t in range(k)], "c%d-%d" % (cid, r), inherit, names)
            for rec in recs:
                note(rec)
            for (t, op, obs) in sink:
                lines.append("(c %d %d %s %s)" % (r, t, sx(op), sx(obs)))
    finally:
        sys.setswitchinterval(old_si)
        e.debug_options.COLLECT_PERF_STATS = old_perf
    header = "(case threads %d %s %d %d %d)" % (cid, kind, k, 1 if perf else 0, reps)
    lines = [header] + pre + lines + ["(end)"]
    feats.append("records<=%d" % next(b for b in (50, 200, 1000, 5000, 10 ** 9) if len(lines) <= b))
    feats.append("flushes=%s" % ("0" if not stats["flushes"] else "1+"))
    feats.append("max-batch=%d" % min(stats["maxflush"], 6))
    feats.append("dedup-hits=%s" % ("0" if not stats["hits"] else "1+"))
    if stats["tie"]:
        feats.append("tie-seen")
    if case.get("probe"):
        feats.append("probe")
    if kind == "hist":
        used = sorted({h[0] for hops in case["threads"] for h in hops})
        feats += ["hop=" + u for u in used]
        inter = any(h[0] == "taskEnter" for hops in case["threads"] for h in hops)
        nontrivial = inter and k >= 2 and len(case["order"]) >= 8
    else:
        nontrivial = k >= 2 and stats["maxflush"] >= 2 and stats["hits"] >= 1
    key = None
    if nontrivial:
        key = hashlib.sha1(json.dumps([kind, case["threads"], case.get("order"), case.get("dd"), perf] + ([names] if names else [])).encode()).hexdigest()[:16]
    return {"lines": lines, "features": feats, "nontrivial": key}
