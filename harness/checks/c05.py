"""C05 - see DESIGN.md section 5; shared machinery in corecommon.py"""
from checks import corecommon as cc
from checks import corefam8

PID = "C05"
LEVEL = cc.LEVEL
BUILDS = cc.BUILDS
CASE_TIMEOUT = cc.CASE_TIMEOUT
LEAN_MODULES = ['AsynqModel.Theorems.C05', 'AsynqModel.Theorems.SpecC05', 'AsynqModel.Theorems.AuditFixes', 'AsynqModel.Theorems.SpecC04b']
THEOREMS = ["AsynqModel.Core." + n for n in ['C05_trace_mono', 'C05_out_stable', 'C05_flush_block', 'C05_max_priority', 'C05_inadmissible_stuck', 'C05_flush_not_stuck', 'C05_not_after_done', 'C05_not_after_done_E', "C05_items_answered_min", 'C05_items_in_heap', 'C05_batches_distinct', 'C05_body_flushed', "C05_flush_once_min", 'Spec_C05_accepts_reach', 'Spec_C05_accepts', 'Spec_C05_accepts_run', 'Spec_C05_relation', 'Spec_C05_obs']]
MIX = [('yield',3),('yield_err',3),('full',3),('sync',1)]
RULE = ("grammar-generated task programs (profiles %s; trees and DAGs of tasks, 1-3 batch kinds with priority overrides "
        "and raising flushes, nested yield structures, errors, try/except, synchronous re-entry, contexts) interpreted on "
        "the real scheduler and replayed in the Lean machine with the implementation's flush choices; non-trivial = at "
        "least 2 tasks and 1 scheduler flush; distinct by hash of (configuration, programs)" % (", ".join(p for p, _ in MIX)))
RULE += "; plus families prioflush (get_priority on class / instance / mock.patch.object, items answered before the flush, several rounds: flush order = greatest priority first) and crossthread, judged by direct expectation (Drv/Families6t.lean)"
RULE += "; plus round-6 families selfcancel (items of a batch whose flush completes its own batch: each completed exactly once with its first outcome, flush events once around the flush) and flushabort (a flush refused by a before-flush handler / a raising _try_switch_active_batch / an after-flush handler: the batch is not flushed later by an unrelated computation, flushed once when awaited again), judged by direct expectation (Drv/Families8.lean)"
TRUSTED = cc.TRUSTED_CORE
ASSUMPTIONS = cc.ASSUMPTIONS_CORE


def extra(tier, rng):
    return [cc.cancel_case(na, nb, h, we) for na in (1, 2, 3, 4) for nb in (1, 2, 3) for h in (0, 1) for we in (0, 1)] + \
        [{"special": "reflush", "n": n, "depth": d} for n in (1, 2, 3) for d in (1, 2, 3)] + \
        cc.corefam4.hookssurvive_cases(tier, cc.fork(rng, "hooks")) + cc.corefam4.eventhook_cases(tier, cc.fork(rng, "eventhook")) + \
        cc.guard_cases(tier, cc.fork(rng, "guard")) + \
        cc.corefam6t.prioflush_cases(tier, cc.fork(rng, "prioflush")) + cc.corefam6t.crossthread_cases(tier, cc.fork(rng, "crossthread")) + \
        corefam8.selfcancel_cases(tier, cc.fork(rng, "selfcancel")) + corefam8.flushabort_cases(tier, cc.fork(rng, "flushabort"), stale_dims=False)


def plan(tier, seed):
    return cc.make_plan(PID, tier, seed, MIX, 3000, 40000, ntops=(1,), extra=extra)


def run_case(case):
    if case.get("special") in corefam8.RUNNERS:
        return corefam8.run(case, PID)
    return cc.run_case_for(PID, case)


def shrink(case):
    if case.get("special") in corefam8.RUNNERS:
        return corefam8.shrink(case)
    return cc.shrink_case(case)


def neighbours(case, rng):
    return cc.neighbours_case(case, rng, [p for p, _ in MIX])


def signature(case, v):
    return cc.signature_for(case, v)
