"""C06 - see DESIGN.md section 5; shared machinery in corecommon.py"""
from checks import corecommon as cc
from checks import ctxhist

PID = "C06"
LEVEL = cc.LEVEL
BUILDS = cc.BUILDS
CASE_TIMEOUT = cc.CASE_TIMEOUT
LEAN_MODULES = ['AsynqModel.Theorems.C06', 'AsynqModel.Theorems.C07b', 'AsynqModel.Theorems.C06b', 'AsynqModel.Theorems.SpecC06']
THEOREMS = ["AsynqModel.Core." + n for n in ['C06_flags', 'C06_flags_strong', 'C06_alternate', 'C06_nonasync_fails', 'C06_nonasync_only', 'C06_paused_at_ret', 'C06_resumed_awaits_top', 'C06_resumed_implies_awaiting', 'C06_paused_unless_awaiting', 'C06_paused_at_outer_flush', 'C06_flush_nested', 'C06_flush_nested_step', 'C06_own_code_resumed', 'C06_own_code_resumed_head', 'C06_own_code_resumed_after_call', 'C06b_ws', 'C06b_A_not_awaiting_B', 'Spec_C06_accepts', 'Spec_C06_accepts_reach', 'Spec_C06_accepts_run', 'Spec_C06_accepts_ctx', 'Spec_C06_watch_agrees', 'C06_registered_live', 'C06_active_awaits_top', 'Spec_C06_needs_guard']]
LEAN_MODULES = LEAN_MODULES + ['AsynqModel.Theorems.AuditFixes']
THEOREMS = THEOREMS + ["AsynqModel.Core." + n for n in ['C06_block_registered', 'C06_registered_iff_open', 'C06_own_block_resumed', 'C06_block_registered_needs_guard', 'C06_nonasync_only_any', 'C06_nonasync_only_reach', 'C06_suspNA_own_context']]
LEAN_MODULES = LEAN_MODULES + ['AsynqModel.Theorems.C06d']
THEOREMS = THEOREMS + ["AsynqModel.Core." + n for n in ['C06_awaiting_implies_resumed', 'C06_caller_awaits_running', 'C06_awaiting_caller_resumed', 'C06_active_iff_awaiting_tree', 'C06_open_resumed_implies_awaiting', 'C06_resumed_iff_on_spine', 'C06_scheduler_of_running_resumed', 'C06d_shared_not_resumed', 'Spec_C06strict_accepts', 'checkC06strict_of_checkC06', 'C06d_iff_needs_guard']]
LEAN_MODULES = LEAN_MODULES + ['AsynqModel.Theorems.NoNA']
THEOREMS = THEOREMS + ["AsynqModel.Core." + n for n in ['C06_resumed_implies_awaiting_any', 'C06_paused_unless_awaiting_any', 'C06_paused_at_outer_flush_any', 'C06_paused_at_ret_any']]
MIX = [('yield_ctx',5),('full',3),('nonasync',3)]
RULE = ("grammar-generated task programs (profiles %s; trees and DAGs of tasks, 1-3 batch kinds with priority overrides "
        "and raising flushes, nested yield structures, errors, try/except, synchronous re-entry, contexts) interpreted on "
        "the real scheduler and replayed in the Lean machine with the implementation's flush choices; non-trivial = at "
        "least 2 tasks and 1 scheduler flush; distinct by hash of (configuration, programs)" % (", ".join(p for p, _ in MIX)))
LEAN_MODULES = LEAN_MODULES + ctxhist.LEAN_MODULES
THEOREMS = THEOREMS + ["AsynqModel.Contexts." + n for n in ctxhist.THEOREMS]
RULE += "; plus " + ctxhist.RULE
RULE += "; plus families composite (contexts whose pause()/resume() leave / enter member contexts of the same task), hookenter (hooks that run asynq code) and afterthrow (contexts entered after a caught dependency error), judged by direct expectation (Drv/Families6c.lean)"
TRUSTED = cc.TRUSTED_CORE + ctxhist.TRUSTED
ASSUMPTIONS = cc.ASSUMPTIONS_CORE + ctxhist.ASSUMPTIONS


def extra(tier, rng):
    import coregen
    return [{"special": "overlap", "extra": e} for e in (False, True)] + cc.ctxraise_cases(two_hooks=False) + [coregen.override_family(rng) for _ in range(150 if tier == "quick" else 3000)] + \
        ctxhist.cases(tier, rng) + cc.corefam4.callctx_cases(tier, cc.fork(rng, "callctx")) + \
        cc.guard_ctx_cases(tier, cc.fork(rng, "guard")) + cc.corefam6c.composite_cases(tier, cc.fork(rng, "composite")) + \
        cc.corefam6c.hookenter_cases(tier, cc.fork(rng, "hookenter")) + cc.corefam6c.afterthrow_cases(tier, cc.fork(rng, "afterthrow"))


def plan(tier, seed):
    return cc.make_plan(PID, tier, seed, MIX, 3000, 40000, ntops=(1,), extra=extra)


def run_case(case):
    if case.get("special") in ("ctxhist", "ctxwith"):
        return ctxhist.run(case)
    return cc.run_case_for(PID, case)


def shrink(case):
    if case.get("special") in ("ctxhist", "ctxwith"):
        return ctxhist.shrink(case)
    return cc.shrink_case(case)


def neighbours(case, rng):
    if case.get("special") in ("ctxhist", "ctxwith"):
        return ctxhist.neighbours(case, rng)
    return cc.neighbours_case(case, rng, [p for p, _ in MIX])


def signature(case, v):
    return cc.signature_for(case, v, PID)
