"""Round-5 families of the core checks, contexts part (C06 / C07 / C08): hooks of an AsyncContext that themselves enter or
leave asynq contexts (composite contexts, hooks running asynq code), and contexts entered in the step of a task that
follows an error THROWN into it.  All of it lies outside the machine's language (its contexts neither own members nor run
code in their hooks, and an override is never entered by a handler), so each family drives the REAL library through public
API and is judged by a direct expectation in lean/AsynqModel/Drv/Families6c.lean (mode of the same name).
Shared rules: public API only, objects mapped to small tokens, raw observations out, the judgement is made in Lean."""
import json

from checks.corefam4 import let_timeouts_through, _sx, _ename

RUNNERS = {}


def _kit(asynq):
    """a batch kind of the harness: every flush answers each item with its payload, an item whose payload starts with
    "err" with the error object stored behind it"""
    from asynq import batching

    class B(batching.BatchBase):
        def _try_switch_active_batch(self):
            if cur[0] is self:
                cur[0] = B()

        def _flush(self):
            for it in self.items:
                if isinstance(it.payload, tuple) and it.payload and it.payload[0] == "err":
                    it.set_error(it.payload[1])
                else:
                    it.set_value(it.payload)

    class I(batching.BatchItemBase):
        def __init__(self, payload):
            batching.BatchItemBase.__init__(self, cur[0])
            self.payload = payload

    cur = [B()]
    return I


def _sched_state(sched):
    from checks import corecommon
    return corecommon.sched_state(sched)


class _Who(object):
    """maps the active task seen at an observation point to a small token"""

    def __init__(self, asynq):
        self.asynq = asynq
        self.names = {}

    def bind(self, name):
        t = self.asynq.scheduler.get_active_task()
        if t is not None:
            self.names[id(t)] = (name, t)
        return t

    def tok(self, owner=None):
        t = self.asynq.scheduler.get_active_task()
        if t is None:
            return "none"
        if owner is not None and t is owner:
            return "self"
        n = self.names.get(id(t))
        return n[0] if n is not None and n[1] is t else "other"


# =====================================================================================================================
# composite (C06, C08): an AsyncContext whose pause() leaves and whose resume() re-enters MEMBER contexts of the same task
# =====================================================================================================================

COMPOSITE_STYLES = ["resume", "enter-after", "enter-before"]


def composite_cases(tier, rng):
    cases = []

    def mk(ctxs, susp, sib=1, wrap="top"):
        return {"special": "composite", "ctxs": ctxs, "susp": susp, "sib": sib, "wrap": wrap}
    # the shape of the stored demo and its neighbours: composite of n members alone / after / before / between plain contexts
    for n in (0, 1, 2, 3):
        for style in COMPOSITE_STYLES:
            cases.append(mk([["L"], ["C", n, style]], [["item"]]))
    for style in COMPOSITE_STYLES:
        cases.append(mk([["C", 2, style]], [["item"]]))
        cases.append(mk([["C", 2, style], ["L"]], [["item"], ["item"]]))
        cases.append(mk([["L"], ["C", 1, style], ["L"]], [["child", 2, 1]], wrap="sync"))
        cases.append(mk([["L"], ["L"], ["C", 2, style]], [["item"], ["child", 1, 2], ["item"]], sib=3))
    for _ in range(40 if tier == "quick" else 1500):
        nctx = rng.randint(1, 4)
        ctxs = [["L"] for _i in range(nctx)]
        for pos in rng.sample(range(nctx), rng.choice([1, 1, 1, 2]) if nctx > 1 else 1):
            ctxs[pos] = ["C", rng.randint(0, 3), rng.choice(COMPOSITE_STYLES)]
        susp = []
        for _i in range(rng.randint(1, 3)):
            susp.append(["item"] if rng.random() < 0.6 else ["child", rng.randint(0, 2), rng.randint(0, 2)])
        cases.append(mk(ctxs, susp, sib=rng.randint(0, 3), wrap=rng.choice(["top", "top", "sync"])))
    return cases


def run_composite(case, pid="C06"):
    """C06 ('an AsyncContext entered by a task is active exactly while that task, or work it awaits, runs: paused at each
    suspension, resumed at each continuation, resume / pause alternate starting with a resume on entry and ending with a
    pause on exit') for COMPOSITE contexts: a context applying several member contexts as one - its pause() leaves the
    members (member.__exit__), its resume() enters them again (member.__enter__), so the task's table of contexts changes
    from inside a hook while the library walks over it.  The worker task enters its contexts (plain logging ones and
    composites) in the order of `ctxs`, is suspended once per element of `susp` (on a batch item, or on a child task with
    contexts of its own that needs j flushes) and leaves them in reverse; a sibling looks at the contexts' flags at each of
    its steps.  Styles of a composite: `resume` = resume() enters / pause() leaves the members (first entry = the resume()
    of __enter__); `enter-after` / `enter-before` = __enter__ enters the members after / before registering itself, pause()
    leaves them if entered, resume() enters them if not, __exit__ leaves what is entered."""
    import contextlib
    import asynq
    from asynq import contexts

    I = _kit(asynq)
    who = _Who(asynq)
    ctxs, susp, sib, wrap = case["ctxs"], case["susp"], case["sib"], case["wrap"]
    logs = {}       # key -> [letters, acts]
    order = []      # R<i> / P<i> of the worker's own (top-level) contexts
    flags = {}
    owner = [None]

    class L(contexts.AsyncContext):
        def __init__(self, key, top=None, task=None):
            self.key = key
            self.top = top
            self.task = task
            logs[key] = [[], []]
            flags[key] = 0

        def _note(self, letter):
            logs[self.key][0].append(letter)
            logs[self.key][1].append(who.tok(self.task[0] if self.task else None))
            if self.top is not None:
                order.append("%s%d" % (letter, self.top))
            flags[self.key] = 1 if letter == "R" else 0

        def resume(self):
            self._note("R")

        def pause(self):
            self._note("P")

    class Composite(L):
        def __init__(self, key, top, task, n, style):
            L.__init__(self, key, top, task)
            self.members = [L("m-%d-%d" % (top, j), None, task) for j in range(n)]
            self.style = style
            self.entered = False
            self.ready = False

        def _in(self):
            if not self.entered:
                self.entered = True
                for m in self.members:
                    m.__enter__()

        def _out(self):
            if self.entered:
                self.entered = False
                for m in reversed(self.members):
                    m.__exit__(None, None, None)

        def __enter__(self):
            if self.style == "enter-before":
                self._in()
                self.ready = True
            r = L.__enter__(self)
            if self.style == "enter-after":
                self._in()
                self.ready = True
            return r

        def resume(self):
            self._note("R")
            if self.style == "resume" or self.ready:
                self._in()

        def pause(self):
            self._out()
            self._note("P")

    @asynq.asynq()
    def child(s, j, nctx):
        me = [who.bind("child")]
        with contextlib.ExitStack() as st:
            for i in range(nctx):
                st.enter_context(L("k-%d-%d" % (s, i), None, me))
            for level in range(j):
                yield I(("k", s, level))
        return s

    @asynq.asynq()
    def worker():
        owner[0] = who.bind("worker")
        with contextlib.ExitStack() as st:
            for i, c in enumerate(ctxs):
                if c[0] == "L":
                    st.enter_context(L("w-%d" % i, i, owner))
                else:
                    st.enter_context(Composite("w-%d" % i, i, owner, c[1], c[2]))
            for s, e in enumerate(susp):
                if e[0] == "item":
                    v = yield I(("w", s))
                    ok = v == ("w", s)
                else:
                    v = yield child.asynq(s, e[1], e[2])
                    ok = v == s
                if not ok:
                    return "wrong-value"
                if not all(flags[k] for k in flags if k.startswith("w-") or k.startswith("m-")):
                    return "contexts-not-resumed"
        return "ok"

    seen = []

    @asynq.asynq()
    def sibling():
        for level in range(sib):
            seen.append(sum(flags.values()))
            yield I(("s", level))
        seen.append(sum(flags.values()))
        return "s"

    @asynq.asynq()
    def root():
        w, _s = yield worker.asynq(), sibling.asynq()
        return w

    @asynq.asynq()
    def caller():
        # the computation is started synchronously from inside a task of another computation: the scheduler's loop runs
        # nested, with this task as the active one while it switches between the tasks of the inner computation
        who.bind("caller")
        yield I("before")
        r = root()
        yield I("after")
        return r

    @asynq.asynq()
    def nxt():
        a = yield I(1)
        b = yield I(2), I(3)
        return [a, list(b), who.tok()]

    asynq.scheduler.reset()
    sched = asynq.scheduler.get_scheduler()
    try:
        out = caller() if wrap == "sync" else root()
    except BaseException as e:
        let_timeouts_through(e)
        out = "raised-" + _ename(e)
    clean = "(clean %d %d %d)" % _sched_state(sched)
    act = who.tok()
    try:
        r = nxt()
        nx = "ok" if r == [1, [2, 3], "other"] else "wrong"
    except BaseException as e:
        let_timeouts_through(e)
        nx = "raised-" + _ename(e)
    asynq.scheduler.reset()
    lines = ["(case composite %d %s %s %d %s %s)" % (case["id"], _sx(["ctxs"] + ctxs), _sx(["susp"] + susp), sib, wrap, pid),
             "(result %s %s %s %s %s)" % (out, clean, act, nx, _sx(["seen"] + seen)),
             "(order %s)" % " ".join(order)]
    for key in sorted(logs):
        lines.append("(log %s (%s) (%s))" % (key, " ".join(logs[key][0]), " ".join(logs[key][1])))
    lines.append("(end)")
    styles = sorted({c[2] for c in ctxs if c[0] == "C"})
    return {"lines": lines,
            "features": ["family=composite", "composite-wrap=" + wrap] + ["composite-style=" + s for s in styles]
            + ["composite-members=%d" % c[1] for c in ctxs if c[0] == "C"]
            + (["composite-after-plain"] if any(c[0] == "C" and i > 0 for i, c in enumerate(ctxs)) else []),
            "nontrivial": "composite-" + json.dumps([ctxs, susp, sib, wrap])}


RUNNERS["composite"] = run_composite


# =====================================================================================================================
# hookenter (C08, C06): a context whose resume() / pause() hook runs asynq code
# =====================================================================================================================

HOOK_WHATS = ["with", "withL", "call", "callb", "keep"]
HOOK_WHENS = ["resume", "pause", "both"]


def hookenter_cases(tier, rng):
    cases = []

    def mk(ctxs, nsusp=1, workers=2, via="item", wrap="top", runs=2):
        return {"special": "hookenter", "ctxs": ctxs, "nsusp": nsusp, "workers": workers, "via": via, "wrap": wrap, "runs": runs}
    for what in HOOK_WHATS:
        for when in HOOK_WHENS:
            cases.append(mk([["H", when, what], ["L"]]))
            cases.append(mk([["L"], ["H", when, what]], workers=1, runs=1))
    for what in HOOK_WHATS:
        cases.append(mk([["H", "resume", what], ["H", "both", what], ["L"]], nsusp=2, via="child"))
        cases.append(mk([["L"], ["H", "resume", what], ["L"]], wrap="sync", runs=1))
    for _ in range(40 if tier == "quick" else 1500):
        nctx = rng.randint(1, 4)
        ctxs = [["L"] for _i in range(nctx)]
        for pos in rng.sample(range(nctx), rng.choice([1, 1, 2]) if nctx > 1 else 1):
            ctxs[pos] = ["H", rng.choice(HOOK_WHENS), rng.choice(HOOK_WHATS)]
        cases.append(mk(ctxs, nsusp=rng.randint(1, 3), workers=rng.randint(1, 3), via=rng.choice(["item", "item", "child"]),
                        wrap=rng.choice(["top", "top", "sync"]), runs=rng.choice([1, 2])))
    return cases


def run_hookenter(case, pid="C08"):
    """C08 ('inside a task get_active_task() is that task; once the outermost call has returned it is None and the scheduler
    keeps nothing of the computation; a later computation behaves as on a fresh scheduler') and C06 (hook calls alternate,
    once per suspension / continuation) for contexts whose hooks themselves use asynq: `with` = a scoped-value override
    entered and left inside the hook (the value is read inside), `withL` = a logging AsyncContext entered and left, `call` =
    a synchronous call of an @asynq function, `callb` = a synchronous call of an @asynq function that needs a batch flush
    of a kind of its own, `keep` = resume() enters a scoped-value override that pause() leaves.  Each worker enters its
    contexts in the order of `ctxs`, is suspended `nsusp` times (on a batch item, or on a child task awaiting one) and
    leaves them; the whole computation is run `runs` times, then a plain computation follows."""
    import contextlib
    import asynq
    from asynq import contexts

    I = _kit(asynq)
    I2 = _kit(asynq)
    who = _Who(asynq)
    ctxs, nsusp, nworkers, via, wrap, runs = case["ctxs"], case["nsusp"], case["workers"], case["via"], case["wrap"], case["runs"]
    S = asynq.AsyncScopedValue(0)
    logs = {}
    hookres = []     # what the code run inside hooks observed: 1 = as in sequential code

    class L(contexts.AsyncContext):
        def __init__(self, key, task):
            self.key = key
            self.task = task
            logs[key] = [[], []]

        def _note(self, letter):
            logs[self.key][0].append(letter)
            logs[self.key][1].append(who.tok(self.task[0]))

        def resume(self):
            self._note("R")

        def pause(self):
            self._note("P")

    @asynq.asynq()
    def const_fn(x):
        return x + 1

    @asynq.asynq()
    def batch_fn(x):
        v = yield I2(x)
        return v + 1

    class H(L):
        def __init__(self, key, task, when, what):
            L.__init__(self, key, task)
            self.when, self.what = when, what
            self.kept = None
            self.n = 0

        def _act(self, letter):
            self.n += 1
            if self.what == "with":
                before = S.get()
                with S.override(before + 100):
                    inside = S.get()
                hookres.append(1 if (inside == before + 100 and S.get() == before) else 0)
            elif self.what == "withL":
                inner = L(self.key + "-i%d" % self.n, self.task)
                with inner:
                    pass
                hookres.append(1 if logs[inner.key][0] == ["R", "P"] else 0)
            elif self.what == "call":
                hookres.append(1 if const_fn(self.n) == self.n + 1 else 0)
            elif self.what == "callb":
                hookres.append(1 if batch_fn(self.n) == self.n + 1 else 0)

        def resume(self):
            self._note("R")
            if self.what == "keep":
                if self.when in ("resume", "both"):
                    self.kept = S.override(S.get() + 1000)
                    self.kept.__enter__()
                    hookres.append(1 if S.get() >= 1000 else 0)
            elif self.when in ("resume", "both"):
                self._act("R")

        def pause(self):
            if self.what == "keep":
                if self.kept is not None:
                    k, self.kept = self.kept, None
                    k.__exit__(None, None, None)
            elif self.when in ("pause", "both"):
                self._act("P")
            self._note("P")

    acts = []

    @asynq.asynq()
    def child(w, s):
        me = who.bind("child")
        v = yield I(("c", w, s))
        acts.append(1 if asynq.scheduler.get_active_task() is me else 0)
        return v

    @asynq.asynq()
    def worker(run, w):
        me = [asynq.scheduler.get_active_task()]
        with contextlib.ExitStack() as st:
            for i, c in enumerate(ctxs):
                key = "r%d-w%d-%d" % (run, w, i)
                st.enter_context(L(key, me) if c[0] == "L" else H(key, me, c[1], c[2]))
            for s in range(nsusp):
                acts.append(1 if asynq.scheduler.get_active_task() is me[0] else 0)
                if via == "item":
                    v = yield I(("w", w, s))
                    ok = v == ("w", w, s)
                else:
                    v = yield child.asynq(w, s)
                    ok = v == ("c", w, s)
                acts.append(1 if asynq.scheduler.get_active_task() is me[0] else 0)
                if not ok:
                    return "wrong-value"
        acts.append(1 if asynq.scheduler.get_active_task() is me[0] else 0)
        return w

    @asynq.asynq()
    def root(run):
        me = asynq.scheduler.get_active_task()
        got = yield [worker.asynq(run, w) for w in range(nworkers)]
        acts.append(1 if asynq.scheduler.get_active_task() is me else 0)
        return "ok" if list(got) == list(range(nworkers)) else "wrong-value"

    @asynq.asynq()
    def caller(run):
        me = who.bind("caller")
        yield I("before")
        r = root(run)
        acts.append(1 if asynq.scheduler.get_active_task() is me else 0)
        yield I("after")
        return r

    @asynq.asynq()
    def nxt():
        a = yield I(1)
        b = yield I(2), I(3)
        return [a, list(b), who.tok(), S.get()]

    asynq.scheduler.reset()
    sched = asynq.scheduler.get_scheduler()
    outs = []
    for run in range(runs):
        try:
            out = caller(run) if wrap == "sync" else root(run)
        except BaseException as e:
            let_timeouts_through(e)
            out = "raised-" + _ename(e)
        outs.append([out, ["clean"] + list(_sched_state(sched)), who.tok(), S.get()])
    try:
        r = nxt()
        nx = "ok" if r == [1, [2, 3], "other", 0] else "wrong"
    except BaseException as e:
        let_timeouts_through(e)
        nx = "raised-" + _ename(e)
    asynq.scheduler.reset()
    lines = ["(case hookenter %d %s %d %d %s %s %d %s)" % (case["id"], _sx(["ctxs"] + ctxs), nsusp, nworkers, via, wrap, runs, pid),
             "(result %s %s %s %s)" % (_sx(["runs"] + outs), nx, _sx(["hook"] + hookres), _sx(["acts"] + acts))]
    for key in sorted(logs):
        lines.append("(log %s (%s) (%s))" % (key, " ".join(logs[key][0]), " ".join(logs[key][1])))
    lines.append("(end)")
    return {"lines": lines,
            "features": ["family=hookenter", "hookenter-wrap=" + wrap, "hookenter-via=" + via]
            + sorted({"hookenter=%s-%s" % (c[1], c[2]) for c in ctxs if c[0] == "H"})
            + (["hookenter-not-last"] if any(c[0] == "H" and i < len(ctxs) - 1 for i, c in enumerate(ctxs)) else []),
            "nontrivial": "hookenter-" + json.dumps([ctxs, nsusp, nworkers, via, wrap, runs])}


RUNNERS["hookenter"] = run_hookenter


# =====================================================================================================================
# afterthrow (C07, C06): contexts entered in the step of a task that follows an error THROWN into it
# =====================================================================================================================

THROW_FAILS = ["errfut", "child", "childb", "item", "list"]
THROW_WHERES = ["in-except", "after-except", "nested", "child-after"]


def afterthrow_cases(tier, rng):
    cases = []

    def mk(fail, where, ov, pre=0, hold="item", nhold=1, sib=2, outer=(7, 8)):
        return {"special": "afterthrow", "fail": fail, "where": where, "ov": ov, "pre": pre, "hold": hold, "nhold": nhold,
                "sib": sib, "outer": list(outer)}
    for fail in THROW_FAILS:
        for where in THROW_WHERES:
            cases.append(mk(fail, where, [["S", 1], ["A", 2]]))
            cases.append(mk(fail, where, [["L"], ["S", 3]], pre=1, hold="child", nhold=2, sib=4, outer=(0, 0)))
    for _ in range(60 if tier == "quick" else 2000):
        ov = []
        for _i in range(rng.randint(1, 3)):
            k = rng.choice(["S", "S", "A", "L"])
            ov.append([k] if k == "L" else [k, rng.randint(1, 5)])
        cases.append(mk(rng.choice(THROW_FAILS), rng.choice(THROW_WHERES), ov, pre=rng.randint(0, 2), hold=rng.choice(["item", "child"]),
                        nhold=rng.randint(1, 2), sib=rng.randint(1, 4), outer=(rng.choice([0, 7]), rng.choice([0, 8]))))
    return cases


def run_afterthrow(case, pid="C07"):
    """C07 ('a value read inside any task is the one established by the innermost enclosing override in that task or in the
    tasks awaiting it - what the same code would read if run sequentially; after the computation every overridden value is
    back') and C06 (hook calls alternate) for overrides / contexts entered by a task right AFTER it caught the error of a
    failed dependency - the task was resumed by generator.throw(), not send().  The worker first makes `pre` successful
    requests, awaits a dependency that fails (`fail`: an ErrorFuture, a child failing at once / after a flush, a batch item
    answered with an error, one failing element of a yielded list), catches the error, then (`where`: inside the handler /
    after the try statement / in the handler of the outer of two nested try blocks after a second failure / in a child task
    created by the handler) enters the overrides `ov` (S = AsyncScopedValue, A = attribute under async_override, L = logging
    AsyncContext) and is suspended `nhold` times inside them (batch item / a child that reads); a bystander task next to it
    reads both variables at each of its `sib` steps.  Every read is logged with its static position: i = inside the
    overrides (or awaited from inside), o = outside."""
    import contextlib
    import asynq
    from asynq import contexts

    I = _kit(asynq)
    fail, where, ov, pre, hold, nhold, sib = case["fail"], case["where"], case["ov"], case["pre"], case["hold"], case["nhold"], case["sib"]
    outer = case["outer"]
    S = asynq.AsyncScopedValue(0)

    class Cfg(object):
        value = 0

    A = Cfg()
    ctxlogs = {}
    reads = []

    class L(contexts.AsyncContext):
        def __init__(self, key):
            self.key = key
            ctxlogs[key] = []

        def resume(self):
            ctxlogs[self.key].append("R")

        def pause(self):
            ctxlogs[self.key].append("P")

    class Boom(Exception):
        pass

    def note(whom, where_, scope):
        reads.append([whom, where_, scope, S.get(), A.value])

    @asynq.asynq()
    def bad_child(levels, tag):
        for level in range(levels):
            yield I(("bad", tag, level))
        raise Boom(tag)

    @asynq.asynq()
    def good_child():
        v = yield I("good")
        return v

    def failing(tag):
        if fail == "errfut":
            return asynq.ErrorFuture(Boom(tag))
        if fail == "child":
            return bad_child.asynq(0, tag)
        if fail == "childb":
            return bad_child.asynq(1, tag)
        if fail == "item":
            return I(("err", Boom(tag)))
        return [good_child.asynq(), bad_child.asynq(1, tag)]

    @asynq.asynq()
    def reader(h):
        note("r", "body", "i")
        yield I(("r", h))
        note("r", "after", "i")
        return h

    def mkctx(j, c):
        if c[0] == "S":
            return S.override(c[1])
        if c[0] == "A":
            return asynq.async_override(A, "value", c[1])
        return L("l-%d" % j)

    def held(whom):
        with contextlib.ExitStack() as st:
            for j, c in enumerate(ov):
                st.enter_context(mkctx(j, c))
            note(whom, "in", "i")
            for h in range(nhold):
                if hold == "item":
                    yield I((whom, h))
                else:
                    yield reader.asynq(h)
                note(whom, "resumed", "i")
        note(whom, "after", "o")

    @asynq.asynq()
    def holder():
        yield from held("c")
        return "c"

    @asynq.asynq()
    def worker():
        note("w", "start", "o")
        for p in range(pre):
            yield I(("pre", p))
        caught = 0
        if where == "nested":
            try:
                try:
                    yield failing("first")
                    return "no-error"
                except Boom:
                    note("w", "handler", "o")
                    yield failing("second")
                    return "no-error"
            except Boom as e:
                if e.args != ("second",):
                    return "wrong-error"
                note("w", "handler2", "o")
                yield from held("w")
            return "ok"
        try:
            yield failing("first")
            return "no-error"
        except Boom as e:
            if e.args != ("first",):
                return "wrong-error"
            note("w", "handler", "o")
            caught = 1
            if where == "in-except":
                yield from held("w")
            elif where == "child-after":
                yield holder.asynq()
                note("w", "after", "o")
        if where == "after-except" and caught:
            yield from held("w")
        return "ok"

    @asynq.asynq()
    def bystander():
        for level in range(sib):
            note("b", "step", "o")
            yield I(("b", level))
        note("b", "end", "o")
        return "b"

    afters = []

    @asynq.asynq()
    def root():
        with contextlib.ExitStack() as st:
            if outer[0]:
                st.enter_context(S.override(outer[0]))
            if outer[1]:
                st.enter_context(asynq.async_override(A, "value", outer[1]))
            w, _b = yield worker.asynq(), bystander.asynq()
            afters.extend([S.get(), A.value])
        return w

    asynq.scheduler.reset()
    sched = asynq.scheduler.get_scheduler()
    try:
        out = root()
    except BaseException as e:
        let_timeouts_through(e)
        out = "raised-" + _ename(e)
    clean = "(clean %d %d %d)" % _sched_state(sched)
    final = [S.get(), A.value]
    asynq.scheduler.reset()
    lines = ["(case afterthrow %d %s %s %s %d %s %d %d %s %s)" % (case["id"], fail, where, _sx(["ov"] + ov), pre, hold, nhold, sib,
                                                             _sx(["outer"] + outer), pid),
             "(result %s %s %s %s)" % (out, clean, _sx(["after"] + afters), _sx(["final"] + final))]
    for r in reads:
        lines.append("(read %s %s %s %d %d)" % tuple(r))
    for key in sorted(ctxlogs):
        lines.append("(ctx %s (%s))" % (key, " ".join(ctxlogs[key])))
    lines.append("(end)")
    return {"lines": lines,
            "features": ["family=afterthrow", "afterthrow-fail=" + fail, "afterthrow-where=" + where, "afterthrow-hold=" + hold]
            + sorted({"afterthrow-ov=" + c[0] for c in ov}) + (["afterthrow-send-then-throw"] if pre else []),
            "nontrivial": "afterthrow-" + json.dumps([fail, where, ov, pre, hold, nhold, sib, outer])}


RUNNERS["afterthrow"] = run_afterthrow
