"""Round-6 families of the core checks (C02, C03, C05, C08):

`selfcancel` (C02, C05) - a batch whose _flush() answers some items, then completes ITS OWN batch through the public API
(self.cancel(), self.cancel(err), self.set_error(err), self.set_value(None)) or not at all, and then returns or raises: every
item ends with the FIRST outcome it was given (what the flush set for it, else the batch's first outcome, else the flush's
exception, else the library's "value wasn't set" AssertionError), the waiting task receives exactly that at its yield (or
from item.value() inside a task), try/except there works and the task goes on, nothing else escapes, before/after flush
events balanced, scheduler clean, next computation works.

`deepfail` (C03, C02) - chains of n+1 tasks (n from 10 to far beyond the interpreter's DEFAULT recursion limit), each task
created inside the body of the one above (or all up front), in which the task at level k FAILS (raise in the body, an item
completed with an error, an ErrorFuture), with or without a handler at a level j above: value() raises exactly that instance
or returns the handler's value, every task of the chain computed, every body started once and resumed once, asking again runs
nothing, scheduler clean.

`flushabort` (C08, C05) - a scheduler flush that fails BEFORE the batch is executed (a raising on_before_batch_flush
handler, a raising _try_switch_active_batch) or right after it (a raising on_after_batch_flush handler), at top level or
inside a synchronous call nested in a task (whose caller catches the error or not); then a second, unrelated computation on
the same thread: it flushes exactly its own batch, the hooks fire for its batch only, no item of the first computation is
touched, the scheduler is clean after both; the first computation awaited again then completes with one flush.

All three lie outside the machine's language, drive the REAL library through public API and are judged by a direct
expectation written in lean/AsynqModel/Drv/Families8.lean (modes of the same names).  Rules as in corefam4/6: objects mapped
to small tokens by identity, nothing compared by repr / address / time."""
import json

from checks.corefam4 import let_timeouts_through, _sx, _ename


# =====================================================================================================================
# selfcancel (C02, C05)
# =====================================================================================================================

SC_PRE = ["val", "err", "none"]
SC_SELF = ["none", "cancel", "cancel-err", "set-error", "set-value"]
SC_END = ["return", "raise", "raise-same"]
SC_HOW = ["yield", "sync"]


def _sc_case(pre, self_, end, handler, how=None):
    return {"special": "selfcancel", "pre": pre, "self": self_, "end": end, "handler": handler, "how": how or ["yield"] * len(pre)}


def selfcancel_cases(tier, rng):
    """`pre[i]`: what the flush does for item i BEFORE the self-action (set_value / set_error / nothing); `self`: how the
    flush completes its own batch; `end`: the flush then returns, raises a NEW error Y, or raises the error X it cancelled
    with; `handler[i]`: reader i has try/except around its read (then goes on with a fallback request to another service);
    `how[i]`: reader i awaits its item at a yield or reads it with item.value() from inside its body"""
    cases = []
    for self_ in SC_SELF:
        for end in SC_END:
            if end == "raise-same" and self_ not in ("cancel-err", "set-error"):
                continue
            cases.append(_sc_case(["val", "none", "none"], self_, end, [1, 1, 1]))
            cases.append(_sc_case(["val", "none", "err"], self_, end, [0, 0, 0]))
            cases.append(_sc_case(["none", "none"], self_, end, [1, 1], ["yield", "sync"]))
    for _ in range(40 if tier == "quick" else 800):
        n = rng.randint(1, 4)
        self_ = rng.choice(SC_SELF)
        end = rng.choice(SC_END if self_ in ("cancel-err", "set-error") else SC_END[:2])
        cases.append(_sc_case([rng.choice(SC_PRE) for _ in range(n)], self_, end, [rng.randint(0, 1) for _ in range(n)],
                              [rng.choice(["yield", "yield", "sync"]) for _ in range(n)]))
    return cases


def run_selfcancel(case, pid):
    import asynq
    from asynq import batching
    from checks import corecommon as cc

    pre, self_, end, handler, how = case["pre"], case["self"], case["end"], case["handler"], case["how"]
    n = len(pre)

    class ServiceDown(Exception):
        pass

    class ItemError(Exception):
        pass

    X = ServiceDown("X")
    Y = ServiceDown("Y")
    E = [ItemError(i) for i in range(n)]
    cur = {}
    batches = []
    hooks = []

    class Batch(batching.BatchBase):
        def __init__(self, kind):
            batching.BatchBase.__init__(self)
            self.kind = kind
            self.nflush = 0
            self.had = []
            batches.append(self)

        def _try_switch_active_batch(self):
            if cur.get(self.kind) is self:
                cur[self.kind] = Batch(self.kind)

        def _flush(self):
            self.nflush += 1
            self.had = list(self.items)
            if self.kind != "B":
                for it in self.items:
                    it.set_value(("fallback", it.key))
                return
            for it in self.items:
                if pre[it.key] == "val":
                    it.set_value(("value", it.key))
                elif pre[it.key] == "err":
                    it.set_error(E[it.key])
            if self_ == "cancel":
                self.cancel()
            elif self_ == "cancel-err":
                self.cancel(X)
            elif self_ == "set-error":
                self.set_error(X)
            elif self_ == "set-value":
                self.set_value(None)
            if end == "raise":
                raise Y
            if end == "raise-same":
                raise X

    class Item(batching.BatchItemBase):
        def __init__(self, kind, key):
            if kind not in cur:
                cur[kind] = Batch(kind)
            batching.BatchItemBase.__init__(self, cur[kind])
            self.key = key

    def token(e, item=None):
        """which exception is it: by identity where the harness made it, by class where the library did"""
        if e is X:
            return "X"
        if e is Y:
            return "Y"
        for i, x in enumerate(E):
            if e is x:
                return "E%d" % i
        if isinstance(e, batching.BatchCancelledError):
            return "Cancelled"
        if isinstance(e, AssertionError) and "wasn't set" in str(e):
            return "Unset"
        return "other:" + _ename(e)

    got = {}
    items = {}

    @asynq.asynq()
    def reader(i):
        it = items[i] = Item("B", i)
        try:
            if how[i] == "sync":
                v = it.value()
            else:
                v = yield it
            got[i] = "val" if v == ("value", i) else "wrong-value"
            return "v"
        except BaseException as e:
            let_timeouts_through(e)
            got[i] = token(e)
            if not handler[i]:
                raise
        # the task goes on after having caught the failure
        v = yield Item("F", i)
        return "f" if v == ("fallback", i) else "wrong-fallback"

    @asynq.asynq()
    def unrelated():
        v = yield Item("F", 99)
        return "u" if v == ("fallback", 99) else "wrong-unrelated"

    @asynq.asynq()
    def root():
        return (yield tuple(reader.asynq(i) for i in range(n)) + (unrelated.asynq(),))

    @asynq.asynq()
    def canary():
        a, b = yield Item("B2", 0), Item("F", 7)
        return [a, b]

    asynq.scheduler.reset()
    sched = asynq.scheduler.get_scheduler()
    before = lambda b: hooks.append(("b", id(b)))
    after = lambda b: hooks.append(("a", id(b)))
    sched.on_before_batch_flush.subscribe(before)
    sched.on_after_batch_flush.subscribe(after)
    saved = asynq.debug.options.DUMP_PRE_ERROR_STATE
    asynq.debug.options.DUMP_PRE_ERROR_STATE = False
    try:
        try:
            res = root()
            out = ["ok"] + list(res)
        except BaseException as e:
            let_timeouts_through(e)
            out = ["raised", token(e)]
        st = cc.sched_state(sched)
        active_none = 1 if asynq.scheduler.get_active_task() is None else 0
        # every item of batch kind B: computed, and asking it again gives the same outcome the reader got
        item_state = []
        for i in range(n):
            it = items.get(i)
            if it is None:
                item_state.append("not-created")
            elif not it.is_computed():
                item_state.append("uncomputed")
            else:
                err = it.error()
                item_state.append("val" if err is None and it.value() == ("value", i) else token(err) if err is not None else "wrong-value")
        cur.pop("B", None)
        try:
            cv = canary()
            can = "ok" if cv == [("fallback", 0), ("fallback", 7)] else "wrong-values"
        except BaseException as e:
            let_timeouts_through(e)
            can = "raised-" + _ename(e)
        st2 = cc.sched_state(sched)
    finally:
        asynq.debug.options.DUMP_PRE_ERROR_STATE = saved
        asynq.scheduler.reset()
    # before/after events: exactly once each around every scheduler flush, in that order
    # (a batch flushed by item.value() called from user code is flushed by the ITEM, not by the scheduler: no events)
    hook_bad = hook_none = 0
    seen = {}
    for kind_, b in hooks:
        seen.setdefault(b, []).append(kind_)
    for b in batches:
        if b.nflush and seen.get(id(b), []) == []:
            hook_none += 1
        elif seen.get(id(b), ["b", "a"]) != ["b", "a"] or (id(b) in seen and not b.nflush):
            hook_bad += 1
    notonce = sorted([b.kind, len(b.had), b.nflush] for b in batches if (b.items or b.had) and b.nflush != 1)
    lines = ["(case selfcancel %d %s %s %s %s %s %s)" % (case["id"], _sx(["pre"] + pre), self_, end, _sx(["handler"] + handler), _sx(["how"] + how), pid),
             "(result %s %s %s %s %d %s %s %s %s)" % (_sx(["out"] + out), _sx(["got"] + [got.get(i, "not-run") for i in range(n)]), _sx(["items"] + item_state),
                                                    _sx(["clean"] + list(st)), active_none, can, _sx(["clean"] + list(st2)), _sx(["events", hook_bad, hook_none]), _sx(notonce)),
             "(end)"]
    return {"lines": lines, "features": ["family=selfcancel", "selfcancel-self=" + self_, "selfcancel-end=" + end,
                                         "selfcancel-sync=%d" % (1 if "sync" in how else 0)],
            "nontrivial": "selfcancel-" + json.dumps([pre, self_, end, handler, how])}


def shrink_selfcancel(case):
    n = len(case["pre"])
    for i in range(n):
        if n > 1:
            yield dict(case, **{k: case[k][:i] + case[k][i + 1:] for k in ("pre", "handler", "how")})
    for i in range(n):
        if case["how"][i] == "sync":
            yield dict(case, how=case["how"][:i] + ["yield"] + case["how"][i + 1:])
        if case["pre"][i] != "none":
            yield dict(case, pre=case["pre"][:i] + ["none"] + case["pre"][i + 1:])
        if case["handler"][i]:
            yield dict(case, handler=case["handler"][:i] + [0] + case["handler"][i + 1:])


# =====================================================================================================================
# deepfail (C03, C02)
# =====================================================================================================================

DF_SRC = ["raise", "item", "errfut"]
DF_DEPTHS_QUICK = [10, 40, 150, 400, 900, 1100, 1600, 2500, 4000]


def deepfail_cases(tier, rng):
    """levels n (root) .. 0 (leaf); `k`: the level that fails (after its child below returned, the leaf at once); `j`: the
    level whose try/except RETURNS a fallback (None: nobody does); `reraise`: the levels in between catch and re-raise
    (try/except/raise, the ordinary logging idiom) or have no try block at all; `created`: every task made inside the body
    of the one above / all made up front; `src`: how level k fails"""
    cases = []
    for n in DF_DEPTHS_QUICK:
        cases.append({"special": "deepfail", "n": n, "k": 0, "j": None, "reraise": 1, "created": "inside", "src": "raise"})
        cases.append({"special": "deepfail", "n": n, "k": 0, "j": min(3, n), "reraise": 1, "created": "inside", "src": "raise"})
    cases.append({"special": "deepfail", "n": 2500, "k": 0, "j": None, "reraise": 0, "created": "inside", "src": "item"})
    cases.append({"special": "deepfail", "n": 2500, "k": 0, "j": 2500, "reraise": 0, "created": "upfront", "src": "errfut"})
    cases.append({"special": "deepfail", "n": 3000, "k": 1200, "j": 2900, "reraise": 1, "created": "inside", "src": "raise"})
    if tier != "quick":
        cases.append({"special": "deepfail", "n": 20000, "k": 0, "j": None, "reraise": 1, "created": "inside", "src": "raise"})
        cases.append({"special": "deepfail", "n": 20000, "k": 0, "j": 3, "reraise": 0, "created": "inside", "src": "item"})
    for _ in range(24 if tier == "quick" else 300):
        n = rng.choice([rng.randint(1, 30), rng.randint(30, 900), rng.randint(1000, 3000 if tier == "quick" else 9000)])
        k = rng.choice([0, 0, rng.randint(0, n)])
        j = rng.choice([None, rng.randint(k + 1, n) if k < n else None, min(n, k + rng.randint(1, 4)) if k < n else None])
        cases.append({"special": "deepfail", "n": n, "k": k, "j": j, "reraise": rng.randint(0, 1),
                      "created": rng.choice(["inside", "inside", "upfront"]), "src": rng.choice(DF_SRC)})
    return cases


def run_deepfail(case, pid):
    import sys
    import asynq
    from asynq import batching
    from checks import corecommon as cc

    n, k, j, reraise, created, src = case["n"], case["k"], case["j"], case["reraise"], case["created"], case["src"]

    class Boom(Exception):
        pass

    boom = Boom("level %d failed" % k)
    cur = [None]
    flushes = [0]

    class Batch(batching.BatchBase):
        def _try_switch_active_batch(self):
            if cur[0] is self:
                cur[0] = Batch()

        def _flush(self):
            flushes[0] += 1
            for it in self.items:
                it.set_error(boom)

    class Item(batching.BatchItemBase):
        def __init__(self):
            batching.BatchItemBase.__init__(self, cur[0])

    tasks = {}
    starts = {}
    resumes = {}
    early = [0]

    def fail():
        if src == "raise":
            raise boom
        if src == "item":
            return Item()
        return asynq.ErrorFuture(boom)

    @asynq.asynq()
    def step(i):
        starts[i] = starts.get(i, 0) + 1
        value = 0
        if i > 0:
            if created == "inside":
                tasks[i - 1] = step.asynq(i - 1)
            child = tasks[i - 1]
            if reraise or i == j:
                try:
                    value = yield child
                except Boom:
                    resumes[i] = resumes.get(i, 0) + 1
                    if not child.is_computed():
                        early[0] += 1
                    if i == j:
                        return 1000
                    raise
            else:
                value = yield child
            resumes[i] = resumes.get(i, 0) + 1
            if not child.is_computed():
                early[0] += 1
        if i == k:
            f = fail()
            if i == j:
                try:
                    yield f
                except Boom:
                    return 1000
            else:
                yield f
        return value + 1

    def ask():
        try:
            return ["ok", tasks[n].value()]
        except BaseException as e:
            let_timeouts_through(e)
            return ["raised", "Boom-same" if e is boom else _ename(e)]

    old_limit = sys.getrecursionlimit()
    sys.setrecursionlimit(1000)     # the interpreter's DEFAULT limit (the worker raises it), as in family `chain`
    limit = sys.getrecursionlimit()
    asynq.scheduler.reset()
    saved = asynq.debug.options.DUMP_PRE_ERROR_STATE
    asynq.debug.options.DUMP_PRE_ERROR_STATE = False
    try:
        cur[0] = Batch()
        if created == "upfront":
            for i in range(n + 1):
                tasks[i] = step.asynq(i)
        else:
            tasks[n] = step.asynq(n)
        out = ask()
        st = cc.sched_state(asynq.scheduler.get_scheduler())
        snapshot = (dict(starts), dict(resumes), flushes[0])
        again = ask()
        same = 1 if (again == out and (dict(starts), dict(resumes), flushes[0]) == snapshot) else 0
        # which levels must exist and be computed: all of them when made up front, else those from the failing level up
        # (the levels below k were created and completed before level k failed)
        uncomputed = sum(1 for i in range(n + 1) if i not in tasks or not tasks[i].is_computed())
        nstart = len(starts)
        bad_start = sum(1 for c in starts.values() if c != 1)
        nres = len(resumes)
        bad_res = sum(1 for c in resumes.values() if c != 1)
    finally:
        asynq.debug.options.DUMP_PRE_ERROR_STATE = saved
        sys.setrecursionlimit(old_limit)
        asynq.scheduler.reset()
    lines = ["(case deepfail %d %d %d %s %d %s %s %s)" % (case["id"], n, k, "none" if j is None else j, reraise, created, src, pid),
             "(result %s %d %d %d %d %d %d %s %d %d %s)" % (_sx(["out"] + out), uncomputed, nstart, bad_start, nres, bad_res, early[0],
                                                          _sx(["clean"] + list(st)), same, flushes[0], _sx(["limit", limit])),
             "(end)"]
    return {"lines": lines, "features": ["family=deepfail", "deepfail-src=" + src, "deepfail-created=" + created,
                                         "deepfail-depth<=%d" % next(b for b in (30, 900, 3000, 10**9) if n <= b),
                                         "deepfail-handler=%d" % (0 if j is None else 1)],
            "nontrivial": "deepfail-" + json.dumps([n, k, j, reraise, created, src])}


def shrink_deepfail(case):
    n, k, j = case["n"], case["k"], case["j"]
    if n > 10:
        # the same shape, less deep (the failing level and the handler keep their distance from the leaf where possible)
        m = max(n // 2, 1)
        yield dict(case, n=m, k=min(k, m), j=None if j is None else min(j, m))
        m = n * 3 // 4
        yield dict(case, n=m, k=min(k, m), j=None if j is None else min(j, m))
    if j is not None:
        yield dict(case, j=None)
    if k > 0:
        yield dict(case, k=0)
    if case["src"] != "raise":
        yield dict(case, src="raise")
    if case["reraise"]:
        yield dict(case, reraise=0)


# =====================================================================================================================
# flushabort (C08, C05)
# =====================================================================================================================

FA_HOW = ["before-hook", "switch", "after-hook"]
FA_HOW_STALE = FA_HOW + ["priority"]
FA_NEST = ["top", "sync-caught", "sync-uncaught"]


def flushabort_cases(tier, rng, stale_dims=True):
    """`how`: what fails - a before-flush handler of the scheduler, the batch's own _try_switch_active_batch (inside
    batch.flush(), before _flush), an after-flush handler; `n1`: items of computation 1 waiting for the batch; `nest`: the
    failing flush is issued by the outermost value() or by a synchronous call inside a task (whose caller catches the
    error and goes on / lets it fail the task); `n2`: items of the unrelated second computation; `retry`: computation 1 is
    awaited again at the end (only when its root is still unfinished: nest = top).
    `stale_dims` (C08 only; both meet the OPEN finding "a failed computation leaves a pending batch scheduled"): how = priority
    (get_priority of the batch raises while the scheduler selects what to flush) and `side` (computation 1 also waits for
    `side` items of ANOTHER, smaller batch that is still pending when the flush of the first one fails)"""
    cases = []
    if stale_dims:
        # (not nest = sync-caught: the computation goes on after the failure and may or may not flush the leftover itself)
        for nest in ("top", "sync-uncaught"):
            cases.append({"special": "flushabort", "how": "priority", "n1": 2, "nest": nest, "n2": 1, "retry": 0, "side": 0})
        for how in FA_HOW:
            for nest in ("top", "sync-uncaught"):
                cases.append({"special": "flushabort", "how": how, "n1": 3, "nest": nest, "n2": 1, "retry": 0, "side": 2})
    for how in FA_HOW:
        for nest in FA_NEST:
            for n1 in (1, 2):
                cases.append({"special": "flushabort", "how": how, "n1": n1, "nest": nest, "n2": 1, "retry": 1 if nest == "top" else 0})
    for _ in range(20 if tier == "quick" else 300):
        nest = rng.choice(FA_NEST)
        cases.append({"special": "flushabort", "how": rng.choice(FA_HOW), "n1": rng.randint(1, 4), "nest": nest, "n2": rng.randint(1, 3),
                      "retry": rng.randint(0, 1) if nest == "top" else 0})
    if stale_dims:
        for _ in range(6 if tier == "quick" else 100):
            n1 = rng.randint(2, 4)
            cases.append({"special": "flushabort", "how": rng.choice(FA_HOW_STALE), "n1": n1, "nest": rng.choice(["top", "sync-uncaught"]),
                          "n2": rng.randint(1, 3), "retry": 0, "side": rng.randint(0, n1 - 1)})
    return cases


def run_flushabort(case, pid):
    import asynq
    from asynq import batching
    from checks import corecommon as cc

    how, n1, nest, n2, retry = case["how"], case["n1"], case["nest"], case["n2"], case["retry"]
    side = case.get("side", 0)

    class Refused(Exception):
        pass

    refused = Refused("flush refused")
    cur = {}
    flushes = []        # (kind, number of items) in flush order
    hooks = []          # ("before" / "after", kind)
    armed = [True]
    items1 = []
    active_bad = [0]

    class Batch(batching.BatchBase):
        def __init__(self, kind):
            batching.BatchBase.__init__(self)
            self.kind = kind

        def _try_switch_active_batch(self):
            if cur.get(self.kind) is self:
                del cur[self.kind]
            if how == "switch" and self.kind == "first" and armed[0]:
                armed[0] = False
                raise refused

        def _flush(self):
            flushes.append([self.kind, len(self.items)])
            for it in self.items:
                it.set_value(it.key * 10)

        def get_priority(self):
            if how == "priority" and self.kind == "first" and armed[0]:
                armed[0] = False
                raise refused
            return (0, len(self.items))

    class Item(batching.BatchItemBase):
        def __init__(self, kind, key):
            if kind not in cur:
                cur[kind] = Batch(kind)
            batching.BatchItemBase.__init__(self, cur[kind])
            self.key = key

    def on_before(batch):
        hooks.append(["before", batch.kind])
        if how == "before-hook" and batch.kind == "first" and armed[0]:
            armed[0] = False
            raise refused

    def on_after(batch):
        hooks.append(["after", batch.kind])
        if how == "after-hook" and batch.kind == "first" and armed[0]:
            armed[0] = False
            raise refused

    @asynq.asynq()
    def leaf(kind, key):
        me = asynq.scheduler.get_active_task()
        it = Item(kind, key)
        if kind == "first":
            items1.append(it)
        v = yield it
        if asynq.scheduler.get_active_task() is not me:
            active_bad[0] += 1
        return v

    @asynq.asynq()
    def first():
        vs = yield [leaf.asynq("first", i + 1) for i in range(n1)] + [leaf.asynq("side", 0) for _ in range(side)]
        return sum(vs)

    @asynq.asynq()
    def outer():
        me = asynq.scheduler.get_active_task()
        pre = yield leaf.asynq("pre", 5)
        if nest == "sync-caught":
            try:
                v = first()        # synchronous call: the nested wait_for issues the failing flush
            except Refused as e:
                v = -1 if e is refused else -2
        else:
            v = first()
        if asynq.scheduler.get_active_task() is not me:
            active_bad[0] += 1
        post = yield leaf.asynq("post", 6)
        return [pre, v, post]

    @asynq.asynq()
    def second():
        vs = yield [leaf.asynq("second", 7 + i) for i in range(n2)]
        return sum(vs)

    def outcome(thunk, want):
        try:
            v = thunk()
            return "ok" if v == want else "wrong-value"
        except BaseException as e:
            let_timeouts_through(e)
            return "raised-Refused-same" if e is refused else "raised-" + _ename(e)

    sum1 = sum((i + 1) * 10 for i in range(n1))
    asynq.scheduler.reset()
    sched = asynq.scheduler.get_scheduler()
    sched.on_before_batch_flush.subscribe(on_before)
    sched.on_after_batch_flush.subscribe(on_after)
    saved = asynq.debug.options.DUMP_PRE_ERROR_STATE
    asynq.debug.options.DUMP_PRE_ERROR_STATE = False
    try:
        root1 = first.asynq() if nest == "top" else outer.asynq()
        # after an after-hook failure the batch HAS been executed: the nested call's caller that catches sees -1 as well
        out1 = outcome(root1.value, sum1 if nest == "top" else [50, -1, 60])
        st1 = cc.sched_state(sched)
        stale1 = sorted(set(b.kind for b in sched._batches if b.items and not b.is_flushed()))
        none1 = 1 if asynq.scheduler.get_active_task() is None else 0
        nfirst1 = sum(1 for kd, _ in flushes if kd == "first")
        computed_before = sum(1 for it in items1 if it.is_computed())
        f0, h0 = len(flushes), len(hooks)
        out2 = outcome(second, sum((7 + i) * 10 for i in range(n2)))
        flushes2, hooks2 = flushes[f0:], hooks[h0:]
        touched = sum(1 for it in items1 if it.is_computed()) - computed_before
        st2 = cc.sched_state(sched)
        none2 = 1 if asynq.scheduler.get_active_task() is None else 0
        out3 = "not-run"
        if retry:
            out3 = outcome(root1.value, sum1)
        nfirst = sum(1 for kd, _ in flushes if kd == "first")
        st3 = cc.sched_state(sched)
    finally:
        asynq.debug.options.DUMP_PRE_ERROR_STATE = saved
        asynq.scheduler.reset()
    lines = ["(case flushabort %d %s %d %s %d %d %d %s)" % (case["id"], how, n1, nest, n2, retry, side, pid),
             "(result %s %s %s %d %d %s %s %s %d %s %d %s %d %s %d)" % (
                 out1, _sx(["clean"] + list(st1)), _sx(["stale"] + stale1), none1, nfirst1, out2, _sx(["flushes"] + flushes2), _sx(["hooks"] + hooks2), touched,
                 _sx(["clean"] + list(st2)), none2, out3, nfirst, _sx(["clean"] + list(st3)), active_bad[0]),
             "(end)"]
    return {"lines": lines, "features": ["family=flushabort", "flushabort-how=" + how, "flushabort-nest=" + nest, "flushabort-side=%d" % min(side, 1)],
            "nontrivial": "flushabort-" + json.dumps([how, n1, nest, n2, retry, side])}


def shrink_flushabort(case):
    if case.get("side"):
        yield dict(case, side=0)
    if case["n1"] > 1 and not case.get("side"):
        yield dict(case, n1=1)
    if case["n2"] > 1:
        yield dict(case, n2=1)
    if case["retry"]:
        yield dict(case, retry=0)
    if case["nest"] != "top":
        yield dict(case, nest="top")


RUNNERS = {"selfcancel": run_selfcancel, "deepfail": run_deepfail, "flushabort": run_flushabort}
SHRINKERS = {"selfcancel": shrink_selfcancel, "deepfail": shrink_deepfail, "flushabort": shrink_flushabort}


def run(case, pid):
    return RUNNERS[case["special"]](case, pid)


def shrink(case):
    return SHRINKERS[case["special"]](case)
