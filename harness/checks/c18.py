"""C18  Diagnostics are faithful and total: glued tracebacks, stack, repr, filter.

Three kinds of cases, all judged by the Lean model AsynqModel.Lib.Debug (mode `debug`):

* filter : tracebacks assembled from boilerplate and foreign lines are given to the real asynq.debug.filter_traceback.
           The REPLACEMENTS tables are extracted from the CURRENT debug.py (ast) on every run and sent to the driver, so
           the theorem "for all tables without an empty pattern list and all line lists the output is a rendering of
           the input" is instantiated with the tables of the tree under test; lines are abstracted to the set of pattern strings they contain
           (computed with Python's `in`, the only question the code asks about a line).
* glue   : chains of 1-8 awaiting tasks with raise / re-raise / catch positions are run on the real scheduler; the
           traceback that reaches the caller is read frame by frame, format_asynq_stack() is called inside bodies and
           inside orphan tasks run after their creators finished, format_error() is applied to what arrives.  The
           exceptions of a chain derive from Exception or (case field "exc": "base") from BaseException only.
* again  : (judged like glue, driver kind `again`) a chain whose result is asked for AGAIN after it reached the first
           caller: the same task by value() / () / raise_if_error() / ErrorFuture(task.error()).value() / after a peek at error() / on
           another thread, or through a new task put on top of the finished
           one (yield / synchronous value(), no handler / bare re-raise / raise e), 1-8 consumers in any order; every
           consumer must catch THAT exception with the caller's frame, one frame per task level crossed now and the
           raising frames - nothing of what an earlier consumer saw (theorems C18_retrieval_resets,
           C18_again_refines_partial).
* repr   : every asynq object kind is driven into the lifecycle states of the state table and str/repr/dump are called;
           objects that hold a user value (scoped values, their override contexts, generator.Value, futures, items,
           tasks) additionally hold every value SHAPE (tuples of 0-3 elements, namedtuple, dict, %-string, ...) and
           must show that value.
"""
import ast
import collections
import dataclasses
import hashlib
import io
import itertools
import json
import os
import random
import re
import types

PID = "C18"
LEVEL = "proof"
LEAN_MODULES = ["AsynqModel.Theorems.C18", "AsynqModel.Theorems.C18Exact"]
# HEADLINE: statements with content about the model (what the property text says).  BY_CONSTRUCTION: true because of the
# way the model / the observer is written (constant tables, `x == x`); kept for the record and audited like the others,
# but NOT part of the claim - for the str / repr / dump / format_error clause the content is the correspondence run.
HEADLINE = [
    # filter_traceback
    "AsynqModel.Debug.C18_filter_sound",
    "AsynqModel.Debug.C18_filter_id",
    "AsynqModel.Debug.C18_filter_first_match",
    "AsynqModel.Debug.C18_filter_observer_exact",
    "AsynqModel.Debug.C18_filter_observer_sound",
    "AsynqModel.Debug.C18_filter_tablesOK_needed",
    # gluing
    "AsynqModel.Debug.C18_glue",
    "AsynqModel.Debug.C18_ref_passing_prefix",
    "AsynqModel.Debug.C18_glue_crosses",
    "AsynqModel.Debug.C18_glue_crosses_own",
    "AsynqModel.Debug.C18_glue_crosses_hook",
    "AsynqModel.Debug.C18_glue_shape",
    "AsynqModel.Debug.C18_glue_starts_at_awaiter",
    # the asynq stack / the whole observation of a run
    "AsynqModel.Debug.C18_stack_events_exact",
    "AsynqModel.Debug.C18_stack_orphan_partial",
    "AsynqModel.Debug.C18_stack_orphan_counterexample",
    "AsynqModel.Debug.C18_glue_refines_partial",
    "AsynqModel.Debug.C18_glue_observer_exact",
    "AsynqModel.Debug.C18_glue_spec_holds_partial",
    "AsynqModel.Debug.C18_stackSafe_exact_small",
    "AsynqModel.Debug.C18_known_signature_exact",
    # later retrievals of the error of a failed chain (second / third consumer of one task)
    "AsynqModel.Debug.C18_retrieval_resets",
    "AsynqModel.Debug.C18_again_refines_partial",
    "AsynqModel.Debug.C18_again_observer_exact",
    "AsynqModel.Debug.C18_again_spec_holds_partial",
    # audit 3: exception classes that reject attribute assignment (repaired b55deef) and the open finding badHeld
    "AsynqModel.Debug.C18_reject_repaired",
    "AsynqModel.Debug.C18_reject_traceback_counterexample",
    "AsynqModel.Debug.C18_reject_repaired_small",
    "AsynqModel.Debug.C18_reject_signature_exact",
    "AsynqModel.Debug.C18_badheld_signature_exact",
]
BY_CONSTRUCTION = [
    "AsynqModel.Debug.C18_filter_spec_holds",
    # str / repr / dump / format_error: `render` is a table; its content is the correspondence run
    "AsynqModel.Debug.C18_repr_total_partial",
    "AsynqModel.Debug.C18_repr_raises_iff",
    "AsynqModel.Debug.C18_repr_spec_holds_partial",
    "AsynqModel.Debug.C18_repr_flags_needed",
    "AsynqModel.Debug.C18_repr_holders_total",
    "AsynqModel.Debug.C18_bare_percent_fails",
    "AsynqModel.Debug.C18_format_error_total",
    "AsynqModel.Debug.C18_format_error_non_exception",
    "AsynqModel.Debug.C18_format_error_garbage_traceback_attr",
    "AsynqModel.Debug.C18_extract_tb_hides_only_library",
    "AsynqModel.Debug.C18_repr_badheld_counterexample",     # `render (.badHeld ..)` is a two-line table
    "AsynqModel.Debug.C18_glue_refines_class_partial",      # C18_glue_refines_partial with the exception class explicit
]
THEOREMS = HEADLINE + BY_CONSTRUCTION
BUILDS = {"quick": ["py"], "thorough": ["py", "cy"]}
EXHAUSTIVE = {"quick": False, "thorough": False}
CASE_TIMEOUT = 30
RULE = ("filter: tracebacks over the pattern tables extracted from the current debug.py - exhaustive over all line-type "
        "sequences up to length 3 (4 thorough), every pair of slices of the boilerplate runs framed by foreign lines, "
        "plus random long assemblies of complete runs / slices / multi-pattern / foreign / odd lines; glue: every chain of "
        "depth 1 and (reduced alphabet) 2 (3 thorough) plus random chains of depth 1-8 over await style x handler "
        "(none, bare re-raise, raise e, raise new, swallow) x own raise (helper depth 0-3) x orphan x bottom (nothing, "
        "ErrorFuture, or a context hook - pause() on suspension / resume() on continuation of the innermost task blocked "
        "on a batch item - raising through 0-3 helpers, every depth 1-4 (thorough 1-8)) x exception class (Exception; a "
        "quarter of the random chains and the plain deep chains also BaseException-only); again: every list of 1-3 later "
        "retrievals over (same task again, new task on top by yield, new task on top by synchronous call) x depth 1-3 x "
        "own raise / ErrorFuture, every way of asking (value(), (), raise_if_error(), ErrorFuture(task.error()).value(), after format_error(task.error()), on another thread) x first retrieval x exception class, "
        "every handler of the task on top, 1-8 consumers in a row, hook failures and returned values asked again, plus "
        "250 (2500 thorough) random chains of depth 1-8 each followed by 1-6 random later retrievals, and new tasks on top that "
        "await ErrorFuture(task.error()) instead of the task (yield / value(), every handler, depth 1-3); glue-reject (exception "
        "class that rejects attribute assignment): every chain of depth 1 and 2 over await x handler x own raise x bottom (quick: outer "
        "level by yield), plain chains of depth 1-8 x raise position, hook raisers of depth 1-4, 150 (2000 thorough) random chains; repr: a fixed list of scenarios "
        "per object kind that reaches every cell of the model's state table which public API calls can reach (incl. "
        "`almost finished` tasks seen from a DUMP_QUEUED_RESULTS write, futures asked for their repr from inside their own "
        "repr, format_error of non-exceptions with a traceback and of exceptions whose `_traceback` is garbage), each cell with str/repr/dump; scoped values, their "
        "override contexts, generator.Value, futures, batch items and task results additionally hold every value shape "
        "((), 1-, 2-, 3-tuple, nested tuple, namedtuple, dict, %-string, None, list) and must show that value; kind badHeld: "
        "ConstFuture / Future / batch item / ErrorFuture / failed Future / computed and failed task / scoped value / both override "
        "contexts / generator.Value holding a value (error) whose own repr raises, str / repr / dump. non-trivial = filter "
        "case with a complete and a partial run / chain where an exception crosses >= 2 task levels or an orphan "
        "asks for its stack after a creator failed / an error asked for at least twice / repr case with >= 3 states; distinct by case hash")
TRUSTED = [
    "hand-written Lean model AsynqModel.Lib.Debug, tied to the code by this differential run only",
    "Python harness checks/c18.py: ast extraction of the REPLACEMENTS tables and of _AsyncGenerator's attributes, "
    "mapping of frames / stack entries / output lines to tokens, classification of str/repr/dump texts by their fixed words",
    "CPython 3.12 traceback semantics (one entry per frame unwound, generator.throw with / without a traceback, "
    "bare `raise` adds no entry), `fmt % x` treating a tuple `x` as the argument list, inspect.getframeinfo, "
    "traceback.format_exception, pygments, qcore.errors / qcore.inspection",
]
ASSUMPTIONS = [
    "filter: no entry of REPLACEMENTS has an empty pattern list (hypothesis `tablesOK` of C18_filter_sound; with one the "
    "real function does not terminate - the harness then does not call it and the observer answers empty-pattern-list)",
    "filter: the observer demands the model's output (C18_filter_observer_exact) - a rendering in which every complete "
    "run met by the left-to-right scan is collapsed and the first table entry wins; `only collapses complete runs` alone "
    "(Renders) would also admit a filter that collapses nothing",
    "format_error: the first argument is None or an exception instance, and its private attribute `_traceback` (where "
    "asynq / qcore keep sys.exc_info()[2]) is absent, None or a traceback object (the statement says `any exception with "
    "or without traceback`; other objects, and an exception whose `_traceback` holds anything else - format_error then "
    "raises AttributeError, C18_format_error_garbage_traceback_attr - are modelled, driven and compared but not judged: "
    "`inStatement`)",
    "gluing: the exceptions of a chain do not derive from GeneratorExit (exercised: classes deriving from Exception and "
    "from BaseException only; the model has no exception class).  An exception deriving from GeneratorExit that leaves a "
    "task's generator is read by asynq as the END of the task (async_task.py `_continue`: `except GeneratorExit` -> "
    "AsyncTaskResult = the value of `result()`, AsyncTaskCancelledError = failure, anything else -> `_queue_exit(None)`): "
    "the awaiter receives None and no exception (reproduced; it is Python's own meaning of GeneratorExit for generators "
    "and the mechanism `result()` is built on, hence treated as outside `an exception that crosses d levels`); "
    "StopIteration raised in a body becomes RuntimeError (PEP 479) before asynq sees it",
    "stack of a task run after its creator finished: judged for every chain.  With the repaired "
    "`_continue_on_generator` (the walk to the frame stored in `_frame` stops before the first asynq frame) the harness "
    "extracts the frame rule `own` and C18_glue_refines_partial covers EVERY chain (its hypothesis is `rule = .own` or "
    "`stackSafe`); the `deepest` rule of the code before that fix, C18_stack_orphan_counterexample and the name "
    "glue/stack-foreign-entry-sync (C18_known_signature_exact) stay as the record of the defect and re-appear only if "
    "the unconditional walk comes back",
    "chains: one awaited child per level (shared failing tasks awaited by two parents are out of the statement); no "
    "await inside a handler / finally, no `raise .. from`, no tuple / list awaits (probed by hand: glue correctly; not modelled)",
    "ErrorFuture(err) for an exception object that already has a history (audit 3, E11; reproduced): (a) `err` already "
    "crossed an asynq chain (it carries `_task` / `_traceback`): `yield ErrorFuture(err)` or `ErrorFuture(err).value()` in a "
    "NEW computation shows the new task levels followed by the glued frames of the FIRST journey (the levels of the "
    "finished computation, ending at the original raising frame) - the same rule as a new task awaiting the failed task "
    "itself, which is what the reference of later retrievals demands (`refRetrievals`: one frame per level crossed NOW, then "
    "the chain's frames); judged as such: generated as retrievals [via, .., errfut]; not a violation.  (b) `err` was only "
    "raised and caught in plain code (no `_task`): by yield the traceback restarts at the awaiting task (generator.throw "
    "without a traceback), by `.value()` inside a body Python's own `raise` keeps the earlier frames behind the task's "
    "frame; outside the model (the statement speaks of the levels the exception crosses and the raising frame, both are "
    "shown), probed by hand only",
    "exceptions whose class rejects attribute assignment (frozen dataclass; glue-reject) are judged against the SAME "
    "reference at full strength (the statement has no exception for them).  Since /repo b55deef they are delivered to every "
    "awaiter and the caller and the scheduler is clean; their traceback is INCOMPLETE (no `_task` -> every "
    "`throw(type(error), error)` restarts `__traceback__`; format_error finds no `_traceback`): open finding "
    "glue/exception-rejecting-attributes-traceback-incomplete, whose name is given only when nothing else deviates and the "
    "result is the one the model of the code predicts.  Later retrievals of such exceptions are not generated",
    "later retrievals: every later consumer asks the OUTERMOST task (the chain's top, or the last task put on top of it); "
    "asking a task again after another task has consumed its error is the shared-failing-task situation above "
    "(`_traceback` lives on the exception object, not on the task) and stays outside",
    "consecutive traceback entries of the same frame object count as one frame (`raise e` inside a handler)",
    "scoped values do not hold themselves; held values have a working repr of their own in every kind except `badHeld` "
    "(a held value whose repr raises is INSIDE the statement - `never raise in any state` - and recorded as the open "
    "finding repr/held-value-repr-raises; it is kept in a kind of its own so that its name cannot hide another failure)",
    "repr: the abstract state strings of the scenarios (which words a text must contain) are hand-written regression "
    "expectations of today's wording, compared as CORR; the property (SPEC) only says `did not raise` (and, for "
    "holders, `shows the held value`)",
    "single thread",
]

HERE = os.path.abspath(__file__)
if HERE.endswith(".pyc"):
    HERE = HERE[:-1]


# ---------------------------------------------------------------------------------------------------
# extraction from the current source
# ---------------------------------------------------------------------------------------------------

def _literal_table(node, env):
    """(list of str, str) from a Tuple node or a Name bound to one"""
    if isinstance(node, ast.Name) and node.id in env:
        node = env[node.id]
    if isinstance(node, ast.Tuple) and len(node.elts) == 2:
        pats, marker = node.elts
        if isinstance(pats, ast.Name) and pats.id in env:
            pats = env[pats.id]
        if isinstance(marker, ast.Name) and marker.id in env:
            marker = env[marker.id]
        try:
            p = ast.literal_eval(pats)
            m = ast.literal_eval(marker)
        except Exception:
            return None
        if isinstance(p, (list, tuple)) and all(isinstance(x, str) for x in p) and isinstance(m, str):
            return (list(p), m)
    return None


def extract_tables(path):
    """[(patterns, marker)] in REPLACEMENTS order, read from filter_traceback in `path` without importing it"""
    with open(path) as f:
        tree = ast.parse(f.read())
    fn = None
    for node in ast.walk(tree):
        if isinstance(node, ast.FunctionDef) and node.name == "filter_traceback":
            fn = node
    scope = fn if fn is not None else tree
    env = {}
    for node in ast.walk(scope):
        if isinstance(node, ast.Assign) and len(node.targets) == 1 and isinstance(node.targets[0], ast.Name):
            env[node.targets[0].id] = node.value
    tables = None
    rep = env.get("REPLACEMENTS")
    if isinstance(rep, (ast.List, ast.Tuple)):
        got = [_literal_table(e, env) for e in rep.elts]
        if got and all(g is not None for g in got):
            tables = got
    if tables is None:
        # refactored: every (list of str, str) literal of the function, in source order
        got = []
        for node in ast.walk(scope):
            if isinstance(node, ast.Tuple):
                t = _literal_table(node, env)
                if t is not None and t not in got:
                    got.append(t)
        tables = got
    return tables


def extract_gen_attrs(path):
    """(attributes assigned in _AsyncGenerator.__init__, attributes of self read in its __repr__)"""
    with open(path) as f:
        tree = ast.parse(f.read())
    init, reads = [], []
    for node in ast.walk(tree):
        if isinstance(node, ast.ClassDef) and node.name == "_AsyncGenerator":
            cls_names = [n.name for n in node.body if isinstance(n, (ast.FunctionDef, ast.AsyncFunctionDef))]
            for n in node.body:
                if isinstance(n, ast.Assign):
                    cls_names += [t.id for t in n.targets if isinstance(t, ast.Name)]
            for fn in node.body:
                if not isinstance(fn, ast.FunctionDef):
                    continue
                for a in ast.walk(fn):
                    if isinstance(a, ast.Attribute) and isinstance(a.value, ast.Name) and a.value.id == "self":
                        if isinstance(a.ctx, ast.Store) and a.attr not in init:
                            init.append(a.attr)
                        if isinstance(a.ctx, ast.Load) and fn.name in ("__repr__", "__str__") and a.attr not in reads:
                            reads.append(a.attr)
            init += [n for n in cls_names if n not in init]
    return init, reads


def extract_frame_rule(path):
    """which frame does `_continue_on_generator` store in `_frame` when an exception leaves a generator that was not
    thrown into?  "deepest": the function has exactly the unconditional walk `while tb.tb_next is not None:
    tb = tb.tb_next` (the deepest frame of the glued traceback, whatever task it belongs to); "own": anything else
    (the model then expects a frame of the task's own synchronous code)"""
    with open(path) as f:
        tree = ast.parse(f.read())
    for fn in ast.walk(tree):
        if isinstance(fn, ast.FunctionDef) and fn.name == "_continue_on_generator":
            whiles = [n for n in ast.walk(fn) if isinstance(n, ast.While)]
            if len(whiles) != 1:
                return "own"
            w = whiles[0]
            t = w.test
            plain_test = (isinstance(t, ast.Compare) and len(t.ops) == 1 and isinstance(t.ops[0], ast.IsNot)
                          and isinstance(t.left, ast.Attribute) and t.left.attr == "tb_next"
                          and isinstance(t.comparators[0], ast.Constant) and t.comparators[0].value is None)
            plain_body = (len(w.body) == 1 and isinstance(w.body[0], ast.Assign)
                          and isinstance(w.body[0].value, ast.Attribute) and w.body[0].value.attr == "tb_next")
            return "deepest" if plain_test and plain_body else "own"
    return "own"


def extract_const_init(build_dir):
    """does every futures.py constructor that completes the future itself (ConstFuture, ErrorFuture) make `_in_repr`
    exist before `set_value` / `set_error` runs `_computed` (which may describe the future: DUMP_COMPUTED)?
    In the compiled build the attribute is a C field declared in futures.pxd and always exists."""
    if os.environ.get("ASYNQ_VERIF_BUILD") == "cy":
        try:
            with open(os.path.join(build_dir, "asynq", "futures.pxd")) as f:
                if re.search(r"cdef\s+(?:public\s+)?\w+\s+_in_repr\b", f.read()):
                    return True
        except OSError:
            pass
    with open(os.path.join(build_dir, "asynq", "futures.py")) as f:
        tree = ast.parse(f.read())
    ok = True
    for cls in ast.walk(tree):
        if not isinstance(cls, ast.ClassDef):
            continue
        for fn in cls.body:
            if isinstance(fn, ast.FunctionDef) and fn.name == "__init__":
                seen_attr = False
                for stmt in fn.body:
                    for n in ast.walk(stmt):
                        if isinstance(n, ast.Attribute) and isinstance(n.ctx, ast.Store) and n.attr == "_in_repr":
                            seen_attr = True
                        if isinstance(n, ast.Call) and isinstance(n.func, ast.Attribute) and n.func.attr == "__init__":
                            seen_attr = True   # base constructor sets it
                        if isinstance(n, ast.Call) and isinstance(n.func, ast.Attribute) and \
                                n.func.attr in ("set_value", "set_error") and not seen_attr:
                            ok = False
    return ok


def _build_dir():
    d = os.environ.get("ASYNQ_VERIF_BUILD_DIR")
    if d:
        return d
    import framework
    return framework.REPO


# ---------------------------------------------------------------------------------------------------
# case generation
# ---------------------------------------------------------------------------------------------------

FOREIGN = [
    '  File "app/models.py", line 25, in load_user\n',
    "    user = yield User.get.asynq(uid)\n",
    '  File "app/views.py", line 7, in render\n',
    "    hello()\n",
    "KeyError: 'uid'\n",
    "Traceback (most recent call last):\n",
    '  File "lib/util.py", line 3, in run\n',
    "    return fn(*args)\n",
]
ODD = ["", "\n", "   \n", "no newline at the end", "  File \"üñî.py\", line 1, in 函数\n", "x" * 3000 + "\n",
       "  ___asynq_continue___ (quoted by the user)\n", "\t\n"]
TB_PER_CASE = 60


def _tables_for_plan():
    import framework
    try:
        return extract_tables(os.path.join(framework.REPO, "asynq", "debug.py"))
    except Exception:
        return []


def _distinct(tables):
    pats = []
    for ps, _ in tables:
        for p in ps:
            if p not in pats:
                pats.append(p)
    return pats


def gen_filter_tbs(tier, rng, tables):
    pats = _distinct(tables)
    n = max(1, len(pats))
    idx = {p: i for i, p in enumerate(pats)}
    runs = [[["p", idx[p]] for p in ps] for ps, _ in tables] or [[["p", 0]]]
    tbs = []
    # (a) exhaustive: every sequence of line types (each pattern, foreign) up to length 3 / 4
    alpha = [["p", k] for k in range(n)] + [["f", 0]]
    maxlen = 3 if tier == "quick" else 4
    for ln in range(0, maxlen + 1):
        for seq in itertools.product(alpha, repeat=ln):
            tbs.append([list(x) for x in seq])
    # (b) every pair of slices of the boilerplate runs (complete runs, prefixes, suffixes, infixes, empty), framed
    slices = [[]]
    for r in runs:
        for a in range(len(r)):
            for b in range(a + 1, len(r) + 1):
                slices.append(r[a:b])
    frames = [([], []), ([["f", 0], ["f", 1]], [["f", 2], ["f", 3], ["f", 4]])]
    if tier != "quick":
        frames += [([["f", 0]], []), ([], [["f", 4]])]
    for s1 in slices:
        for s2 in slices:
            for pre, post in frames:
                tbs.append([list(x) for x in pre + s1 + s2 + post])
    # (c) random long assemblies
    for _ in range(600 if tier == "quick" else 20000):
        tb = []
        for _ in range(rng.randint(1, 8)):
            w = rng.random()
            r = rng.choice(runs)
            if w < 0.3:
                tb += r
            elif w < 0.6:
                a = rng.randint(0, len(r) - 1)
                b = rng.randint(a + 1, len(r))
                tb += r[a:b]
            elif w < 0.7:
                tb.append(["pp", rng.randrange(n), rng.randrange(n)])
            elif w < 0.75:
                # a run whose lines contain a second pattern each
                tb += [["pp", x[1], rng.randrange(n)] for x in r]
            elif w < 0.8:
                tb.append(["raw", rng.randrange(len(ODD))])
            elif w < 0.85:
                tb.append(["p", rng.randrange(n)])
            else:
                tb.append(["f", rng.randrange(len(FOREIGN))])
        tbs.append([list(x) for x in tb])
    return tbs


HANDLERS = [["pass"], ["bare"], ["named"], ["new", 0], ["new", 2], ["swallow"]]


def _level(await_="yld", handler=("pass",), own=None, orphan=0, pre=1, post=0):
    return {"await": await_, "handler": list(handler), "own": own, "orphan": orphan, "pre": pre, "post": post}


def gen_glue_random(rng, depth=None):
    d = depth or rng.choice([1, 2, 3, 3, 4, 4, 5, 6, 7, 8])
    levels = []
    for i in range(d):
        last = i == d - 1
        h = rng.choices(HANDLERS, weights=[8, 2, 2, 1, 1, 2])[0]
        own = None
        if last and rng.random() < 0.8:
            own = rng.choice([0, 0, 1, 2, 3])
        elif rng.random() < 0.12:
            own = rng.choice([0, 1, 2])
        levels.append(_level(
            "sync" if rng.random() < 0.15 else "yld", h, own, 1 if rng.random() < 0.5 else 0,
            rng.choice([0, 1, 1, 2]), rng.choice([0, 0, 1])))
    bottom = 1 if (levels[-1]["own"] is None and rng.random() < 0.6) or rng.random() < 0.1 else 0
    if rng.random() < 0.15:
        # the raiser is a hook of a context entered by the innermost level
        bottom = ["hook", rng.choice(["pause", "resume"]), rng.choice([0, 0, 1, 2, 3])]
        levels[-1].update(handler=["pass"], own=None)
    case = {"sub": "glue", "bottom": bottom, "levels": levels}
    if rng.random() < 0.25:
        case["exc"] = "base"      # every exception of the chain derives from BaseException only
    return case


def gen_glue_cases(tier, rng):
    cases = []
    full = [_level(a, h, o, orp) for a in ("yld", "sync") for h in HANDLERS for o in (None, 0, 2) for orp in (0, 1)]
    red = [_level(a, h, o, 1) for a in ("yld", "sync") for h in HANDLERS for o in (None, 1)]
    tiny = [_level(a, h, o, 1) for a in ("yld", "sync") for h in (["pass"], ["named"], ["new", 1], ["swallow"])
            for o in (None, 0)]
    for b in (0, 1):
        for l0 in full:
            cases.append({"sub": "glue", "bottom": b, "levels": [dict(l0)]})
        for l0, l1 in itertools.product(red if tier == "quick" else full, red):
            cases.append({"sub": "glue", "bottom": b, "levels": [dict(l0), dict(l1)]})
        if tier != "quick":
            for ls in itertools.product(tiny, repeat=3):
                cases.append({"sub": "glue", "bottom": b, "levels": [dict(x) for x in ls]})
    # plain deep chains: every depth x raise position (which level raises) x helper depth
    for d in range(1, 9):
        for r in range(d):
            for h in (0, 2):
                levels = [_level(orphan=1, pre=i % 3) for i in range(r + 1)]
                levels[r]["own"] = h
                cases.append({"sub": "glue", "bottom": 0, "levels": levels})
                if h == 0 and d <= 5:
                    cases.append({"sub": "glue", "bottom": 0, "levels": [dict(x) for x in levels], "exc": "base"})
    # the raiser is a context hook (pause on suspension / resume on continuation of a task blocked on a batch item):
    # every depth 1-4 (thorough 1-8) x hook x helper depth, plain chains; depth 2 with every kind of level above the owner
    for d in range(1, 5 if tier == "quick" else 9):
        for mode in ("pause", "resume"):
            for h in (0, 2):
                for aw in ("yld", "sync"):
                    levels = [_level(aw, orphan=1, pre=i % 2) for i in range(d)]
                    cases.append({"sub": "glue", "bottom": ["hook", mode, h], "levels": levels})
    for mode in ("pause", "resume"):
        for l0 in red:
            cases.append({"sub": "glue", "bottom": ["hook", mode, 1], "levels": [dict(l0), _level(orphan=1)]})
    for _ in range(500 if tier == "quick" else 8000):
        cases.append(gen_glue_random(rng))
    return cases


def _reject_norm(case):
    """the same chain with exceptions of the class that rejects attribute assignment (driver kind glue-reject)"""
    return {"sub": "glue", "bottom": case["bottom"], "levels": [dict(L) for L in case["levels"]], "exc": "frozen"}


def gen_reject_cases(tier, rng):
    """chains whose exceptions reject attribute assignment (frozen dataclass; audit 3, A2 - repaired in /repo b55deef;
    ordinary cases: the exception must be delivered to every awaiter, the scheduler must be clean afterwards): every
    chain of depth 1 and 2 over await x handler x own raise x bottom (orphans everywhere), plain chains of depth 1-8 x
    raise position, hook raisers of depth 1-4, random chains"""
    cases = []
    alpha = [_level(a, h, o, 1) for a in ("yld", "sync") for h in HANDLERS for o in (None, 1)]
    ylds = [l for l in alpha if l["await"] == "yld"]
    for b in (0, 1):
        for l0 in alpha:
            cases.append({"sub": "glue", "bottom": b, "levels": [dict(l0)], "exc": "frozen"})
        for l0, l1 in itertools.product(alpha if tier != "quick" else ylds, alpha):
            cases.append({"sub": "glue", "bottom": b, "levels": [dict(l0), dict(l1)], "exc": "frozen"})
    for d in range(1, 9):
        for r in range(d):
            levels = [_level(orphan=i % 2, pre=i % 3, handler=HANDLERS[(i + r) % len(HANDLERS)],
                             await_="sync" if (i + d) % 4 == 3 else "yld") for i in range(r + 1)]
            levels[r]["own"] = r % 3
            cases.append({"sub": "glue", "bottom": 0, "levels": levels, "exc": "frozen"})
    for d in range(1, 5):
        for mode in ("pause", "resume"):
            for h in (0, 2):
                levels = [_level("sync" if i == 1 else "yld", orphan=1, pre=i % 2) for i in range(d)]
                cases.append({"sub": "glue", "bottom": ["hook", mode, h], "levels": levels, "exc": "frozen"})
    for _ in range(150 if tier == "quick" else 2000):
        cases.append(_reject_norm(gen_glue_random(rng)))
    return cases


DIRECT_STYLES = ["value", "call", "raise_if_error", "error_future", "peek", "thread"]
FIRST_STYLES = ["value", "call", "peek"]
VIA_HANDLERS = ["pass", "pass", "bare", "named"]


def gen_retrievals(rng, n=None):
    """later consumers of the chain's result: ["direct", how] = the same task asked again with value() / () /
    raise_if_error(); ["via", await style, handler of the new task, how the caller asks the new task] = a new task
    put on top of the finished one"""
    n = n if n is not None else rng.choice([1, 1, 2, 2, 3, 4, 6])
    res = []
    for _ in range(n):
        if rng.random() < 0.6:
            res.append(["direct", rng.choice(DIRECT_STYLES)])
        else:
            res.append(["via", rng.choice(["yld", "sync", "sync"]), rng.choice(VIA_HANDLERS), rng.choice(["value", "call"])])
    return res


def gen_again_cases(tier, rng):
    """chains whose result is asked for again after it reached the first caller (round 5)"""
    cases = []
    alpha = [["direct", "value"], ["via", "yld", "pass", "value"], ["via", "sync", "pass", "value"]]
    # every list of 1-3 later retrievals x depth 1-3 (raise at the innermost level) x ErrorFuture at the bottom or not
    for d in (1, 2, 3):
        for b in (0, 1):
            for n in (1, 2, 3):
                for rs in itertools.product(alpha, repeat=n):
                    if b == 1 and (d > 2 or n > 2):
                        continue
                    levels = [_level(pre=i % 2) for i in range(d)]
                    if b == 0:
                        levels[-1]["own"] = 0
                    cases.append({"sub": "again", "bottom": b, "levels": levels, "again": [list(r) for r in rs]})
    # how the consumers ask x handler of the task on top x first retrieval x exception class; many consumers (1-8)
    for first in FIRST_STYLES:
        for st in DIRECT_STYLES:
            for exc in (None, "base"):
                c = {"sub": "again", "bottom": 0, "levels": [_level(), _level(own=1)], "first": first,
                     "again": [["direct", st], ["direct", st]]}
                if exc:
                    c["exc"] = exc
                cases.append(c)
        for aw in ("yld", "sync"):
            for h in ("pass", "bare", "named"):
                cases.append({"sub": "again", "bottom": 0, "levels": [_level(), _level(own=0)], "first": first,
                              "again": [["direct", "value"], ["via", aw, h, "call" if first == "call" else "value"],
                                        ["direct", "call"]]})
    for n in range(1, 9):
        cases.append({"sub": "again", "bottom": 0, "levels": [_level(), _level("sync"), _level(own=2)],
                      "again": [["direct", DIRECT_STYLES[i % len(DIRECT_STYLES)]] for i in range(n)]})
        cases.append({"sub": "again", "bottom": 0, "levels": [_level(own=0)],
                      "again": [["via", "sync" if i % 2 else "yld", "pass", "value"] for i in range(n)]})
    # the result of the chain is a value: later consumers get the value
    cases.append({"sub": "again", "bottom": 0, "levels": [_level(), _level()],
                  "again": [["direct", "value"], ["via", "sync", "pass", "value"], ["direct", "raise_if_error"]]})
    # context hook failures asked again
    for mode in ("pause", "resume"):
        cases.append({"sub": "again", "bottom": ["hook", mode, 1], "levels": [_level(), _level()],
                      "again": [["direct", "value"], ["via", "sync", "pass", "value"]]})
    # audit 3, E11: the new task on top awaits ANOTHER library object holding the same exception object -
    # `yield ErrorFuture(task.error())` / `ErrorFuture(task.error()).value()` in a NEW computation (5th field "errfut")
    for aw in ("yld", "sync"):
        for h in ("pass", "bare", "named"):
            for d in (1, 2, 3):
                levels = [_level(pre=i % 2) for i in range(d)]
                levels[-1]["own"] = d - 1
                cases.append({"sub": "again", "bottom": 0, "levels": levels,
                              "again": [["via", aw, h, "value", "errfut"], ["direct", "value"],
                                        ["via", "yld", "pass", "call", "errfut"]]})
    for _ in range(250 if tier == "quick" else 2500):
        c = gen_glue_random(rng)
        c["sub"] = "again"
        c["again"] = gen_retrievals(rng)
        c["first"] = rng.choice(FIRST_STYLES)
        cases.append(c)
    return cases


REPR_KINDS = ["future", "constFuture", "errorFuture", "task", "userBatch", "userItem", "debugBatch", "debugItem",
              "scheduler", "scopedValue", "scopedOverride", "propOverride", "asyncGen", "genValue", "formatError",
              "dumpAll", "badHeld"]


def corpus():
    import glob
    res = []
    d = os.path.join(os.path.dirname(os.path.dirname(os.path.dirname(HERE))), "corpus", PID)
    for p in sorted(glob.glob(os.path.join(d, "*.json"))):
        with open(p) as f:
            res.append(json.load(f))
    return res


def plan(tier, seed):
    rng = random.Random(seed * 1000003 + 18)
    cases = corpus()
    cases += [{"sub": "repr", "kind": k} for k in REPR_KINDS]
    tbs = gen_filter_tbs(tier, rng, _tables_for_plan())
    for off in range(0, len(tbs), TB_PER_CASE):
        cases.append({"sub": "filter", "tbs": tbs[off:off + TB_PER_CASE]})
    cases += gen_glue_cases(tier, rng)
    cases += gen_again_cases(tier, random.Random(seed * 1000003 + 1805))   # own stream: the older cases stay as they were
    cases += gen_reject_cases(tier, random.Random(seed * 1000003 + 1803))
    return cases


def shrink(case):
    sub = case.get("sub")
    if sub == "filter":
        tbs = case["tbs"]
        if len(tbs) > 1:
            half = len(tbs) // 2
            yield {"sub": "filter", "tbs": tbs[:half]}
            yield {"sub": "filter", "tbs": tbs[half:]}
            for i in range(min(len(tbs), 24)):
                yield {"sub": "filter", "tbs": [tbs[i]]}
        else:
            tb = tbs[0]
            for i in range(len(tb)):
                yield {"sub": "filter", "tbs": [tb[:i] + tb[i + 1:]]}
    elif sub in ("glue", "again"):
        levels = case["levels"]

        def mk(bottom, ls, exc=case.get("exc"), again=case.get("again"), first=case.get("first")):
            c = {"sub": sub, "bottom": bottom, "levels": ls}
            if exc:
                c["exc"] = exc
            if sub == "again":
                c["again"] = again
                if first and first != "value":
                    c["first"] = first
            return c
        if sub == "again":
            ag = case["again"]
            for i in range(len(ag) - 1, -1, -1):
                if len(ag) > 1:
                    yield mk(case["bottom"], levels, again=ag[:i] + ag[i + 1:])
            for i, r in enumerate(ag):
                simple = ["direct", "value"] if r[0] == "direct" else ["via", r[1], "pass", "value"] + r[4:]
                if r != simple:
                    yield mk(case["bottom"], levels, again=ag[:i] + [simple] + ag[i + 1:])
                simple = simple[:4]
                if r != simple:
                    yield mk(case["bottom"], levels, again=ag[:i] + [simple] + ag[i + 1:])
            if case.get("first", "value") != "value":
                yield mk(case["bottom"], levels, first=None)
        for i in range(len(levels) - 1, -1, -1):
            if len(levels) > 1:
                yield mk(case["bottom"], levels[:i] + levels[i + 1:])
        if case["bottom"]:
            yield mk(0, levels)
        if case.get("exc"):
            yield mk(case["bottom"], levels, None)
        for i, L in enumerate(levels):
            for key, simple in (("orphan", 0), ("pre", 0), ("post", 0), ("handler", ["pass"]), ("own", None), ("await", "yld")):
                if L[key] != simple:
                    ls = [dict(x) for x in levels]
                    ls[i][key] = simple
                    yield mk(case["bottom"], ls)
            if L["own"]:
                ls = [dict(x) for x in levels]
                ls[i]["own"] = 0
                yield mk(case["bottom"], ls)
    elif sub == "repr":
        only = case.get("only")
        idxs = only if only is not None else list(range(256))   # scenario indices; beyond the table: no observation
        if len(idxs) > 8:
            q = (len(idxs) + 3) // 4
            for off in range(0, len(idxs), q):
                yield {"sub": "repr", "kind": case["kind"], "only": idxs[off:off + q]}
        elif len(idxs) > 1:
            for i in idxs:
                yield {"sub": "repr", "kind": case["kind"], "only": [i]}


def _may_hit_open_stack_finding(case):
    """syntactic over-approximation of `not stackSafe`: some level calls its child synchronously without catching, and
    an orphan is created at or below it (finding glue/stack-foreign-entry-sync, fixed; only reachable again if the
    unconditional traceback walk comes back)"""
    levels = case["levels"]
    for i, L in enumerate(levels):
        if L["await"] == "sync" and L["handler"][0] in ("pass", "bare", "named"):
            return any(M["orphan"] for M in levels[i:])
    return False


def neighbours(case, rng):
    """cases near a disagreeing one.  The framework stops the search at the first neighbour that fails the observer,
    also when that failure is a recorded finding - so neighbours that can only re-find a recorded finding are left
    out (they would mask the disagreement that started the search)"""
    sub = case.get("sub")
    if sub in ("glue", "again"):
        own = _may_hit_open_stack_finding(case)

        def like(c):
            if sub == "again":
                c["sub"] = "again"
                c["again"] = [list(r) for r in case["again"]] if rng.random() < 0.5 else gen_retrievals(rng)
                c["first"] = case.get("first", "value")
            return c
        for _ in range(32):
            levels = [dict(x) for x in case["levels"]]
            i = rng.randrange(len(levels))
            levels[i] = gen_glue_random(rng, 1)["levels"][0]
            c = {"sub": "glue", "bottom": case["bottom"], "levels": levels}
            if case.get("exc"):
                c["exc"] = case["exc"]
            if case.get("exc") == "frozen":
                c = _reject_norm(c)
            if own or not _may_hit_open_stack_finding(c):
                yield like(c)
        for _ in range(16):
            c = gen_glue_random(rng)
            if case.get("exc") == "frozen":
                c = _reject_norm(c)
            if own or not _may_hit_open_stack_finding(c):
                yield like(c)
    elif sub == "filter":
        tables = _tables_for_plan()
        tbs = gen_filter_tbs("quick", rng, tables)
        rng.shuffle(tbs)
        for off in range(0, min(len(tbs), 20 * TB_PER_CASE), TB_PER_CASE):
            yield {"sub": "filter", "tbs": tbs[off:off + TB_PER_CASE]}
    else:
        # the other scenarios of the same object kind (another kind's table says nothing about this disagreement)
        yield {"sub": "repr", "kind": case["kind"]}


def signature(case, v):
    spec = v.get("spec", "ok")
    if spec == "ok":
        spec = "corr"
    sub = case.get("sub")
    clause = spec.replace("fail:", "")
    if sub == "again" and not clause.startswith("retrieval-") and clause not in ("corr", "not-the-reference-events"):
        sub = "glue"    # the chain itself is wrong, before any later retrieval: the same finding as in a glue case
    return "%s/%s" % (sub, clause)


# ---------------------------------------------------------------------------------------------------
# implementation side: filter
# ---------------------------------------------------------------------------------------------------

def _sx(items):
    return "(" + " ".join(str(x) for x in items) + ")"


def _build_line(spec, i, pats, used):
    kind = spec[0]
    n = max(1, len(pats))
    if kind == "p":
        p = pats[spec[1] % n] if pats else "nothing"
        text = '  File "asynq/u%d.py", line %d, in %s\n' % (i, 100 + i, p)
    elif kind == "pp":
        p1 = pats[spec[1] % n] if pats else "nothing"
        p2 = pats[spec[2] % n] if pats else "nothing"
        text = '  File "asynq/u%d.py", line %d, in %s [%s]\n' % (i, 100 + i, p1, p2)
    elif kind == "f":
        base = FOREIGN[spec[1] % len(FOREIGN)]
        text = base[:-1] + "  # u%d\n" % i
    else:
        text = ODD[spec[1] % len(ODD)]
        if text in used:
            text = text.rstrip("\n") + " # u%d\n" % i
    while text in used:
        text = text.rstrip("\n") + "'\n"
    used.add(text)
    return text


def run_filter(case):
    from asynq import debug as adebug
    tables = extract_tables(os.path.join(_build_dir(), "asynq", "debug.py"))
    pats = _distinct(tables)
    markers = []
    for _, m in tables:
        if m not in markers:
            markers.append(m)
    pidx = {p: i for i, p in enumerate(pats)}
    hdr = " ".join(_sx([markers.index(m)] + [pidx[p] for p in ps]) for ps, m in tables)
    lines = ["(case debug %d filter (tables %s))" % (case["id"], hdr)]
    feats = collections.Counter()
    ncomplete = npartial = 0
    for tb in case["tbs"]:
        used = set()
        inp = [_build_line(spec, i, pats, used) for i, spec in enumerate(tb)]
        pos = {t: i for i, t in enumerate(inp)}
        has = [[k for k, p in enumerate(pats) if p in t] for t in inp]
        try:
            if any(not ps for ps, _ in tables) and inp:
                out = [None]   # `i = i + 0`: the real function would not terminate (observer: empty-pattern-list)
            else:
                out = adebug.filter_traceback(list(inp))
            if not isinstance(out, list):
                out = [None]
        except Exception:  # the outcome of the call, not a harness failure
            out = [None]
        toks = []
        nm = 0
        for o in out:
            if isinstance(o, str) and o in pos:
                toks.append("(c %d)" % pos[o])
            elif isinstance(o, str) and o.strip() in markers:
                toks.append("(m %d)" % markers.index(o.strip()))
                nm += 1
            else:
                toks.append("(x)")
        lines.append("(tb (lines %s) (out %s))" % (" ".join(_sx(h) for h in has), " ".join(toks)))
        ncomplete += 1 if nm else 0
        if any(isinstance(o, str) and o in pos and has[pos[o]] for o in out):
            npartial += 1   # a boilerplate-looking line that was (rightly or not) left alone
        feats["filter:len%s" % next(("<=%d" % b if b < 10 ** 9 else ">20") for b in (0, 1, 3, 8, 20, 10 ** 9) if len(inp) <= b)] += 1
        feats["filter:markers=%d" % min(nm, 3)] += 1
    lines.append("(end)")
    feats["filter:tables=%d/patterns=%d" % (len(tables), len(pats))] += 1
    nontrivial = None
    if ncomplete and npartial:
        nontrivial = hashlib.sha1(json.dumps(case["tbs"]).encode()).hexdigest()[:16]
    return {"lines": lines, "features": expand(feats), "nontrivial": nontrivial}


def expand(counter):
    # the framework counts one per list entry: one entry per traceback of the case
    return [k for k in sorted(counter) for _ in range(counter[k])]


# ---------------------------------------------------------------------------------------------------
# implementation side: glue
# ---------------------------------------------------------------------------------------------------

class GlueErr(Exception):
    def __init__(self, tok):
        Exception.__init__(self, "glue error %d" % tok)
        self.tok = tok


class GlueBaseErr(BaseException):
    """the same, outside the Exception hierarchy (case field "exc": "base"): the model has no exception class, so the
    observation must not depend on it.  NOT a GeneratorExit: asynq reads an exception deriving from GeneratorExit that
    leaves a generator as the END of the task (async_task.py `_continue`: `except GeneratorExit` -> `_queue_exit(None)`,
    the mechanism behind `result()` / AsyncTaskResult) - see ASSUMPTIONS."""

    def __init__(self, tok):
        BaseException.__init__(self, "glue base error %d" % tok)
        self.tok = tok


@dataclasses.dataclass(frozen=True)
class GlueFrozenErr(Exception):
    """an exception whose class REJECTS attribute assignment (case field "exc": "frozen"; audit 3, A2): a frozen
    dataclass - `error._task = self` in async_task.py `_accept_error` raises dataclasses.FrozenInstanceError"""
    tok: int = 0


REJECT_TOK = 997      # what the caller caught is the error of the rejected assignment (Lean: rejectTok)
GLUE_ERRS = (GlueErr, GlueBaseErr, GlueFrozenErr)


def _level_tmpl(ctx, lv):
    L = ctx.levels[lv]
    if L["orphan"]:
        ctx.stash.append(ctx.ofn(lv).asynq(ctx, lv))
    for _ in range(L["pre"]):
        yield None
    ctx.stack("start", lv)
    if lv + 1 == ctx.n and ctx.hook is not None:
        # innermost level of a "context hook raises" chain: block on a batch item inside `with ctx:`; the scheduler
        # calls pause() when it suspends this task and resume() when it continues it after the flush
        with ctx.make_hook_context(lv):
            yield ctx.item(lv)
        return lv
    if lv + 1 < ctx.n or ctx.bottom:
        if L["handler"][0] == "pass":
            if L["await"] == "yld":
                yield (ctx.fn(lv + 1).asynq(ctx, lv + 1) if lv + 1 < ctx.n else ctx.make_bottom())
            elif lv + 1 < ctx.n:
                ctx.fn(lv + 1)(ctx, lv + 1)
            else:
                ctx.make_bottom().value()
        else:
            try:
                if L["await"] == "yld":
                    yield (ctx.fn(lv + 1).asynq(ctx, lv + 1) if lv + 1 < ctx.n else ctx.make_bottom())
                elif lv + 1 < ctx.n:
                    ctx.fn(lv + 1)(ctx, lv + 1)
                else:
                    ctx.make_bottom().value()
            except GLUE_ERRS as e:
                ctx.stack("handler", lv)
                h = L["handler"]
                if h[0] == "bare":
                    raise
                elif h[0] == "named":
                    raise e
                elif h[0] == "new":
                    if h[1] == 0:
                        raise ctx.E(10 * lv + 2)
                    ctx.hfn(lv, 1)(ctx, lv, 1, h[1], ctx.E(10 * lv + 2))
    for _ in range(L["post"]):
        yield None
    if L["own"] is not None:
        if L["own"] == 0:
            raise ctx.E(10 * lv + 1)
        ctx.hfn(lv, 1)(ctx, lv, 1, L["own"], ctx.E(10 * lv + 1))
    return lv


def _helper_tmpl(ctx, lv, k, h, exc):
    if k >= h:
        raise exc
    ctx.hfn(lv, k + 1)(ctx, lv, k + 1, h, exc)


def _hook_helper_tmpl(ctx, lv, k, h, exc):
    if k >= h:
        raise exc
    ctx.jfn(lv, k + 1)(ctx, lv, k + 1, h, exc)


def _hook_pause_tmpl(self):
    self.npause += 1
    if self.mode == "pause" and self.npause == 1:      # the scheduler suspends the blocked task
        if self.h == 0:
            raise self.ctx.E(4)
        self.ctx.jfn(self.lv, 1)(self.ctx, self.lv, 1, self.h, self.ctx.E(4))


def _hook_resume_tmpl(self):
    self.nresume += 1
    if self.mode == "resume" and self.nresume == 2:    # 1st: __enter__; 2nd: the scheduler continues the task
        if self.h == 0:
            raise self.ctx.E(4)
        self.ctx.jfn(self.lv, 1)(self.ctx, self.lv, 1, self.h, self.ctx.E(4))


def _orphan_tmpl(ctx, lv):
    yield None
    ctx.stack("orphan", lv)


def _glue_caller(ctx):
    try:
        ctx.fn(0)(ctx, 0)
    except (Exception, GlueBaseErr) as e:  # what reaches the caller is the observation
        return e
    return None


def _glue_again(fut, style):
    """a synchronous consumer of the (possibly already failed) future `fut`: what it catches is the observation"""
    if style == "thread":
        # a consumer on another thread (only used on computed futures: nothing is scheduled there)
        import threading
        box = []
        t = threading.Thread(target=lambda: box.append(_glue_again(fut, "value")))
        t.start()
        t.join()
        return box[0] if box else None
    try:
        if style == "call":
            fut()
        elif style == "raise_if_error":
            # only used on computed futures (it does not compute); `cdef inline` in futures.pxd: not callable from
            # Python in the compiled build - value() there
            getattr(fut, "raise_if_error", fut.value)()
        elif style == "error_future":
            # ANOTHER library object holding the same exception object: ErrorFuture(task.error())
            err = fut.error()
            if err is None:
                fut.value()
            else:
                from asynq import futures
                futures.ErrorFuture(err).value()
        elif style == "peek":
            # a health check first: look at error() and print it, without raising; then ask
            from asynq import debug as adebug
            adebug.format_error(fut.error())
            fut.value()
        else:
            fut.value()
    except (Exception, GlueBaseErr) as e:
        return e
    return None


def _outer_tmpl(ctx, lv, fut, aw, hstyle):
    """body of a task put on top of the finished task `fut` by a later retrieval (`via`)"""
    yield None
    if hstyle == "pass":
        if aw == "yld":
            yield fut
        else:
            fut.value()
    else:
        try:
            if aw == "yld":
                yield fut
            else:
                fut.value()
        except GLUE_ERRS as e:
            if hstyle == "bare":
                raise
            raise e
    return lv


def _rename(fn, name):
    code = fn.__code__.replace(co_name=name, co_qualname=name)
    f = types.FunctionType(code, fn.__globals__, name)
    f.__qualname__ = name
    return f


_NAME_RE = re.compile(r"^([LHOKJ])(\d+)(?:_(\d+))?$")


def _frame_tok(filename, name):
    """token of a user frame, None for a frame outside this file (library boilerplate)"""
    if os.path.abspath(filename) != HERE:
        return None
    if name in ("_glue_caller", "_glue_again"):
        return "(c)"
    m = _NAME_RE.match(name)
    if m:
        if m.group(1) == "L":
            return "(t %s)" % m.group(2)
        if m.group(1) == "H":
            return "(h %s %s)" % (m.group(2), m.group(3) or 0)
        if m.group(1) == "K":
            return "(k %s)" % m.group(2)
        if m.group(1) == "J":
            return "(j %s %s)" % (m.group(2), m.group(3) or 0)
        return "(o %s)" % m.group(2)
    return "(x)"


class GlueCtx(object):
    def __init__(self, case, asynq_mod):
        self.asynq = asynq_mod
        self.levels = case["levels"]
        self.n = len(self.levels)
        b = case["bottom"]
        self.hook = (b[1], int(b[2])) if isinstance(b, list) else None    # ("pause" | "resume", helper depth)
        self.bottom = bool(b) and self.hook is None                        # ErrorFuture at the bottom
        self._batching = None
        self.stash = []
        self.events = []
        self._fns = {}
        # the class of every exception of the chain
        self.E = {"base": GlueBaseErr, "frozen": GlueFrozenErr}.get(case.get("exc"), GlueErr)

    def __repr__(self):
        return "ctx"

    def fn(self, lv):
        k = ("L", lv)
        if k not in self._fns:
            self._fns[k] = self.asynq.asynq()(_rename(_level_tmpl, "L%d" % lv))
        return self._fns[k]

    def afn(self, lv):
        k = ("A", lv)
        if k not in self._fns:
            self._fns[k] = self.asynq.asynq()(_rename(_outer_tmpl, "L%d" % lv))
        return self._fns[k]

    def ofn(self, lv):
        k = ("O", lv)
        if k not in self._fns:
            self._fns[k] = self.asynq.asynq()(_rename(_orphan_tmpl, "O%d" % lv))
        return self._fns[k]

    def hfn(self, lv, j):
        k = ("H", lv, j)
        if k not in self._fns:
            self._fns[k] = _rename(_helper_tmpl, "H%d_%d" % (lv, j))
        return self._fns[k]

    def jfn(self, lv, j):
        k = ("J", lv, j)
        if k not in self._fns:
            self._fns[k] = _rename(_hook_helper_tmpl, "J%d_%d" % (lv, j))
        return self._fns[k]

    def item(self, lv):
        if self._batching is None:
            self._batching = _mk_batching()
        return self._batching[1](lv)

    def make_hook_context(self, lv):
        cls = type("HookContext", (self.asynq.AsyncContext,), {
            "pause": _rename(_hook_pause_tmpl, "K%d" % lv), "resume": _rename(_hook_resume_tmpl, "K%d" % lv)})
        c = cls()
        c.ctx, c.lv, c.mode, c.h = self, lv, self.hook[0], self.hook[1]
        c.npause = c.nresume = 0
        return c

    def make_bottom(self):
        from asynq import futures
        return futures.ErrorFuture(self.E(3))

    def stack(self, kind, lv):
        from asynq import debug as adebug
        try:
            st = adebug.format_asynq_stack()
        except Exception:
            self.events.append("(stack %s %d (999))" % (kind, lv))
            return
        toks = []
        for entry in (st or []):
            toks.append(_entry_level(entry))
        self.events.append("(stack %s %d %s)" % (kind, lv, _sx(toks)))


def _entry_level(entry):
    if not isinstance(entry, str):
        return 999
    m = None
    if entry.startswith("File "):
        m = re.search(r", in ([LHO])(\d+)(?:_\d+)?\s*(?:\n|$)", entry)
    if m is None:
        m = re.search(r"@asynq (?:[\w<>]+\.)*([LHO])(\d+)(?:_\d+)?\(", entry)
    if m is None:   # another layout of the entry: any mention of one of the generated function names
        m = re.search(r"\b([LHO])(\d+)(?:_\d+)?\b", entry)
    if m is None:
        return 999
    n = int(m.group(2))
    return 1000 + n if m.group(1) == "O" else n


def _collapse(toks):
    out = []
    for t in toks:
        if not out or out[-1] != t:
            out.append(t)
    return out


def run_glue(case):
    import asynq
    from asynq import debug as adebug
    import traceback as tbmod
    ctx = GlueCtx(case, asynq)

    def lv_sx(L):
        h = L["handler"]
        hs = h[0] if h[0] != "new" else "(new %d)" % h[1]
        own = "none" if L["own"] is None else "(some %d)" % L["own"]
        return "(lvl %s %s %s %d)" % (L["await"], hs, own, 1 if L["orphan"] else 0)

    rule = extract_frame_rule(os.path.join(_build_dir(), "asynq", "async_task.py"))
    bsx = "(hook %s %d)" % ctx.hook if ctx.hook else ("1" if ctx.bottom else "0")
    again = case.get("again") if case.get("sub") == "again" else None
    if again is None:
        lines = ["(case debug %d %s %s %s (levels %s))" % (
            case["id"], "glue-reject" if ctx.E is GlueFrozenErr else "glue", bsx, rule, " ".join(lv_sx(L) for L in ctx.levels))]
    else:
        asx = " ".join("(direct)" if r[0] == "direct" else "(via %s)" % r[1] for r in again)
        lines = ["(case debug %d again %s %s (levels %s) (again %s))" % (
            case["id"], bsx, rule, " ".join(lv_sx(L) for L in ctx.levels), asx)]
    from asynq import scheduler as _sched
    _sched.reset()   # nothing left over from earlier cases of this worker (a failed suspension leaves its batch scheduled)

    def result_event(e):
        """the event for what a synchronous consumer caught (None: it got the value); number of task frames crossed"""
        if e is None:
            return "(result ok)", 0
        tok = getattr(e, "tok", 999) if isinstance(e, ctx.E) else 999
        if ctx.E is GlueFrozenErr and type(e) is dataclasses.FrozenInstanceError and isinstance(e.__context__, ctx.E):
            tok = REJECT_TOK     # the assignment `error._task = ..` was rejected and THAT error reached the caller
        # raw: walk the traceback, one token per frame object
        raw = []
        tb = e.__traceback__
        last = None
        while tb is not None:
            fr = tb.tb_frame
            if fr is not last:
                t = _frame_tok(fr.f_code.co_filename, fr.f_code.co_name)
                if t is not None:
                    raw.append(t)
            last = fr
            tb = tb.tb_next
        names = [f.name for f in tbmod.extract_tb(e.__traceback__) if os.path.abspath(f.filename) == HERE]
        by_name = _collapse([_frame_tok(HERE, n) for n in names])
        if by_name != raw:   # function names as traceback.extract_tb reports them must tell the same story
            raw.append("(x)")
        try:
            vis = _collapse([t for t in (_frame_tok(x[0], x[2]) for x in adebug.extract_tb(e.__traceback__)) if t is not None])
        except Exception:
            vis = ["(x)"]
        fmt = _format_error_frames(adebug, e)
        return ("(result err %d (raw %s) (vis %s) (fmt %s))" % (tok, " ".join(raw), " ".join(vis), " ".join(fmt)),
                sum(1 for t in raw if t.startswith("(t ")))

    cur = None
    if again is None:
        e = _glue_caller(ctx)
    else:
        # the outermost task as an object, so that later consumers can ask it again
        cur = ctx.fn(0).asynq(ctx, 0)
        e = _glue_again(cur, case.get("first", "value"))
    ev, crossed = result_event(e)
    ctx.events.append(ev)
    if ctx.E is GlueFrozenErr:
        # the scheduler must be clean when the outermost call has returned (before b55deef it kept the abandoned tasks)
        sch = _sched.get_scheduler()
        if len(sch._tasks) or sch.active_task is not None:
            ctx.events.append("(stack start 999 (999))")
    # orphans: run by the caller after the chain is finished, outermost first
    for o in ctx.stash:
        try:
            o.value()
        except Exception:
            ctx.events.append("(stack orphan 999 (999))")
    # later retrievals of the same result: the same task asked again, or a new task put on top of it
    for i, r in enumerate(again or []):
        if r[0] == "via":
            src = cur
            if r[4:] == ["errfut"] and cur.is_computed() and cur.error() is not None:
                from asynq import futures as _futures
                src = _futures.ErrorFuture(cur.error())
            cur = ctx.afn(100 + i).asynq(ctx, 100 + i, src, r[1], r[2])
            e2 = _glue_again(cur, r[3] if r[3] != "raise_if_error" else "value")
        else:
            e2 = _glue_again(cur, r[1])
        if e2 is not None and e is not None and e2 is not e and getattr(e2, "tok", None) == getattr(e, "tok", None):
            ctx.events.append("(result err 998 (raw) (vis) (fmt))")    # a copy, not THAT exception object
        else:
            ctx.events.append(result_event(e2)[0])
    _sched.reset()
    lines += ctx.events
    lines.append("(end)")
    lv = ctx.levels
    feats = ["glue:depth=%d" % len(lv), "glue:crossed=%d" % crossed,
             "glue:bottom=%s" % ("hook-" + ctx.hook[0] if ctx.hook else 1 if ctx.bottom else 0)]
    feats += sorted({"glue:handler=" + L["handler"][0] for L in lv} | {"glue:await=" + L["await"] for L in lv})
    if any(L["own"] for L in lv):
        feats.append("glue:helpers")
    feats.append("glue:class=%s" % ("BaseException" if ctx.E is GlueBaseErr else
                                    "rejects-attribute-assignment" if ctx.E is GlueFrozenErr else "Exception"))
    if again is not None:
        feats = [f.replace("glue:", "again:chain-") for f in feats]
        feats.append("again:retrievals=%d" % len(again))
        feats.append("again:new-tasks-on-top=%d" % sum(1 for r in again if r[0] == "via"))
        feats += sorted({"again:%s" % ("direct-" + r[1] if r[0] == "direct" else "via-%s-%s" % (r[1], r[2])) for r in again})
        feats.append("again:first=%s" % case.get("first", "value"))
        feats.append("again:outcome=%s" % ("error" if e is not None else "value"))
    failed_creator = e is not None or any(L["handler"][0] in ("swallow", "new") for L in lv)
    if any(L["orphan"] for L in lv):
        feats.append("glue:orphan-after-%s" % ("failure" if failed_creator else "success"))
    nontrivial = None
    if crossed >= 2 or (failed_creator and any(L["orphan"] for L in lv)) or (ctx.hook and e is not None):
        nontrivial = hashlib.sha1(json.dumps([case["bottom"], lv, case.get("exc")], sort_keys=True).encode()).hexdigest()[:16]
    if again is not None:
        # interesting: an error is asked for at least twice
        nontrivial = None if e is None or not again else hashlib.sha1(json.dumps(
            [case["bottom"], lv, case.get("exc"), again, case.get("first")], sort_keys=True).encode()).hexdigest()[:16]
    return {"lines": lines, "features": feats, "nontrivial": nontrivial}


_ANSI = re.compile(r"\x1b\[[0-9;]*m")


def _format_error_frames(adebug, e):
    """user frames named by format_error(e) (plain), (x) if any flavour of format_error raises or is not a str"""
    res = None
    try:
        for hl, flt in ((False, False), (True, True), (True, False), (False, True)):
            adebug.enable_traceback_syntax_highlight(hl)
            adebug.enable_filter_traceback(flt)
            text = adebug.format_error(e)
            if not isinstance(text, str):
                return ["(x)"]
            if not hl:
                toks = []
                # a chained exception (`__context__`) is printed first: the exception itself is the last block
                text = text[text.rfind("Traceback (most recent call last)"):] if "Traceback (most" in text else text
                for m in re.finditer(r'File "([^"]*)", line \d+, in (\S+)', text):
                    t = _frame_tok(m.group(1), m.group(2))
                    if t is not None:
                        toks.append(t)
                toks = _collapse(toks)
                if res is None:
                    res = toks
                elif res != toks:
                    return res + ["(x)"]
    except Exception:
        return ["(x)"]
    finally:
        adebug.enable_traceback_syntax_highlight(True)
        adebug.enable_filter_traceback(True)
    return res or []


# ---------------------------------------------------------------------------------------------------
# implementation side: repr (the state table)
# ---------------------------------------------------------------------------------------------------

def _classify_fut(s):
    if s == "<recursion>":
        return "(fut recursion)"
    if s.endswith("(isn't computed)"):
        return "(fut notComputed)"
    if "(computed, = self)" in s:
        return "(fut valueSelf)"
    if "(computed, error = " in s:
        return "(fut error)"
    if "(computed, = " in s:
        return "(fut valueRec)" if "<recursion>" in s else "(fut value)"
    return "(text)"


_TASK_RE = re.compile(r"\((computed, = .*|computed, error = .*|blocked x(\d+)|waiting|almost finished \(generator is closed\)), "
                      r"(before 1st yield|passed yield #(-?\d+))\)$", re.S)


def _classify_task(s):
    m = _TASK_RE.search(s)
    if not s.startswith("@asynq ") or m is None:
        return "(text)"
    st = m.group(1)
    n = 0
    if st.startswith("computed, = "):
        status = "computedValue"
    elif st.startswith("computed, error"):
        status = "computedError"
    elif st.startswith("blocked"):
        status, n = "blocked", int(m.group(2))
    elif st == "waiting":
        status = "waiting"
    else:
        status = "almostFinished"
    it = 1 if m.group(3).startswith("before") else int(m.group(4)) + 1
    if it < 0:
        return "(text)"
    return "(task %s %d %d)" % (status, n, it)


def _classify_batch(s):
    m = re.search(r"\((cancelled|flushed|pending), (\d+) items\)$", s)
    return "(batch %s %s)" % (m.group(1), m.group(2)) if m else "(text)"


def _classify_sched(s):
    m = re.search(r"\((\d+) tasks, (\d+) batches; active task: (.*)\)$", s, re.S)
    return "(sched %s %s %d)" % (m.group(1), m.group(2), 0 if m.group(3) == "None" else 1) if m else "(text)"


def _classify_dump(state, text):
    k = state.split()[0].lstrip("(").rstrip(")")
    if not text.strip():
        return "(text)"
    if k == "task":
        return "(dump deps)" if "Dependencies:" in text else "(dump noDeps)" if "No dependencies." in text else "(text)"
    if k == "batch":
        return "(dump items)" if "Items:" in text else "(dump noItems)" if "No items." in text else "(text)"
    if k == "sched":
        return "(dump tasks)" if "Task queue:" in text else "(dump noTasks)" if "No tasks in task queue." in text else "(text)"
    return "(dump line)"


def _classify_fe(res):
    if res is None:
        return "(fe none)"
    if not isinstance(res, str):
        return "(text)"
    t = _ANSI.sub("", res)
    if not t.strip():
        return "(fe empty)"
    if "Traceback (most recent call last)" in t:
        return "(fe tb)"
    return "(fe only)"


class Table(object):
    """collects (scenario, op) cells; `only` restricts to the scenarios with these indices (shrinking)"""

    def __init__(self, kind, only=None):
        self.kind = kind
        self.only = only
        self.obs = []
        self.names = []

    def want(self, scen):
        if scen not in self.names:
            self.names.append(scen)
        return self.only is None or self.names.index(scen) in self.only

    def cell(self, scen, op, state, thunk, classify):
        try:
            r = thunk()
            shown = classify(r)
            res = "(ok %s)" % shown
        except Exception as e:  # the observation
            res = "(raised %s)" % re.sub(r"\W", "", type(e).__name__)
        self.obs.append("(obs %s %s %s %s %s)" % (self.kind, scen, op, state, res))

    def diag(self, scen, obj, state, ops=("str", "repr", "dump"), shows=None):
        """str / repr / dump of `obj`, which the harness drove into abstract state `state`; `shows`: a value whose own
        str() must occur in str(obj) and whose repr() in repr(obj) (a text that describes another value is reported
        as `raised Misdescribed`)"""
        if not self.want(scen):
            return
        from asynq import debug as adebug
        k = state.split()[0].lstrip("(").rstrip(")")
        cls_str = {"fut": _classify_fut, "task": _classify_task, "batch": _classify_batch, "sched": _classify_sched}.get(
            k, lambda s: "(text)")
        if "str" in ops:
            self.cell(scen, "str", state, lambda: _must_show(str(obj), shows, str), cls_str)
        if "repr" in ops:
            cls_repr = _classify_fut if k in ("fut", "task", "batch") else cls_str
            self.cell(scen, "repr", state, lambda: _must_show(repr(obj), shows, repr), cls_repr)
        if "dump" in ops and hasattr(obj, "dump"):
            def do_dump():
                buf = io.StringIO()
                old = adebug.stdout
                adebug.stdout = buf
                try:
                    obj.dump()
                finally:
                    adebug.stdout = old
                return buf.getvalue()
            self.cell(scen, "dump", state, do_dump, lambda t: _classify_dump(state, t))


def _must_str(s):
    if not isinstance(s, str):
        raise TypeError("not a str")
    return s


class Misdescribed(Exception):
    pass


def _must_show(text, shows, fn):
    _must_str(text)
    if shows is not None and fn(shows[0]) not in text:
        raise Misdescribed("%r does not show %s" % (text, fn(shows[0])))
    return text


class _Err(Exception):
    pass


# values whose shape matters to `"...%s" % value`
_Pair = collections.namedtuple("_Pair", "left right")
SHAPES = [("emptyTuple", ()), ("tuple1", ("capybara",)), ("tuple2", ("user", 42)), ("tuple3", (1, 2, 3)),
          ("nestedTuple", ((1, 2),)), ("namedTuple", _Pair(1, "r")), ("dict", {"a": 1}), ("emptyDict", {}),
          ("percentString", "100%s and %d%% of %(x)s"), ("none", None), ("list", [1, 2]), ("int", 3)]


def _holder(kind, value):
    """abstract state of an object whose text is one format string over `value`: only the tuple-ness matters to `%`"""
    return "(holder %s %s)" % (kind, "(tuple %d)" % len(value) if isinstance(value, tuple) else "other")


def _mk_batching():
    """a user-defined batch kind with scriptable flush, local to one case"""
    from asynq import batching

    class UBatch(batching.BatchBase):
        current = None
        hook = None

        def __init__(self, mode="ok"):
            batching.BatchBase.__init__(self)
            self.mode = mode

        def _try_switch_active_batch(self):
            if type(self).current is self:
                type(self).current = None

        def _flush(self):
            if type(self).hook is not None:
                type(self).hook(self)
            if self.mode == "raise":
                raise _Err("flush failed")
            for it in list(self.items):
                if self.mode == "skip":
                    continue
                if self.mode == "self":
                    it.set_value(it)
                else:
                    it.set_value(it.payload)

    class UItem(batching.BatchItemBase):
        def __init__(self, payload, batch=None):
            if batch is None:
                if UBatch.current is None:
                    UBatch.current = UBatch()
                batch = UBatch.current
            batching.BatchItemBase.__init__(self, batch)
            self.payload = payload

    class UBatch2(UBatch):
        current = None
        hook = None

        def get_priority(self):
            return (-1, 0)

    class UItem2(batching.BatchItemBase):
        def __init__(self, payload):
            if UBatch2.current is None:
                UBatch2.current = UBatch2()
            batching.BatchItemBase.__init__(self, UBatch2.current)
            self.payload = payload

    return UBatch, UItem, UBatch2, UItem2


def sc_future(t):
    from asynq import futures
    f = futures.Future(lambda: 7)
    t.diag("fresh", f, "(fut 0 none)")
    f.value()
    t.diag("value", f, "(fut 0 plain)")
    f.reset_unsafe()
    t.diag("afterReset", f, "(fut 0 none)")
    f = futures.Future(lambda: None)
    f.value()
    t.diag("valueNone", f, "(fut 0 plain)")

    def bad():
        raise _Err("provider")
    f = futures.Future(bad)
    try:
        f.value()
    except _Err:
        pass
    t.diag("error", f, "(fut 0 err)")
    f = futures.Future(lambda: 1)
    f.set_error(_Err("never raised"))
    t.diag("errorSet", f, "(fut 0 err)")
    f = futures.Future(lambda: 1)
    f.set_value(f)
    t.diag("valueSelf", f, "(fut 0 self)")
    f = futures.Future(lambda: 1)
    f.set_value([f])
    t.diag("valueCycleList", f, "(fut 0 cycle)")
    f = futures.Future(lambda: 1)
    f.set_value({"k": (f,)})
    t.diag("valueCycleDict", f, "(fut 0 cycle)")
    g = futures.Future(lambda: 1)
    f = futures.Future(lambda: g)
    f.value()
    t.diag("valueIsUncomputedFuture", f, "(fut 0 plain)")
    g.value()
    t.diag("valueIsComputedFuture", f, "(fut 0 plain)")
    a = futures.Future(lambda: 1)
    b = futures.Future(lambda: 1)
    a.set_value(b)
    b.set_value(a)
    t.diag("valueMutualCycle", a, "(fut 0 cycle)")
    f = futures.Future(lambda: 1)
    f.set_value("x" * 5000)
    t.diag("valueHuge", f, "(fut 0 plain)")
    for name, shape in SHAPES:
        f = futures.Future(lambda shape=shape: shape)
        f.value()
        t.diag("value:" + name, f, "(fut 0 plain)", shows=(shape,))
    _probe_in_repr(t, lambda p: futures.Future(lambda: p), lambda f: f.value())


class _ReprProbe(object):
    """a value / error whose repr asks the future that holds it for its diagnostics: the state `_in_repr = True`"""

    def __init__(self, t, state):
        self.t, self.state, self.fut, self.done = t, state, None, False

    def __repr__(self):
        if self.fut is not None and not self.done:
            self.done = True
            self.t.diag("insideOwnRepr", self.fut, self.state)
        return "probe"


class _ProbeErr(Exception):
    def __init__(self, probe):
        Exception.__init__(self, "probe")
        self.probe = probe

    def __repr__(self):
        repr(self.probe)
        return "_ProbeErr()"


def _probe_in_repr(t, make, complete=None, err=False):
    p = _ReprProbe(t, "(fut 1 err)" if err else "(fut 1 plain)")
    f = make(_ProbeErr(p) if err else p)
    if complete is not None:
        complete(f)
    p.fut = f
    repr(f)


def sc_const(t):
    from asynq import futures
    t.diag("value", futures.ConstFuture(3), "(fut 0 plain)")
    t.diag("valueNone", futures.ConstFuture(None), "(fut 0 plain)")
    t.diag("noneFuture", futures.none_future, "(fut 0 plain)")
    lst = []
    c = futures.ConstFuture(lst)
    lst.append(c)
    t.diag("valueCycle", c, "(fut 0 cycle)")
    c = futures.ConstFuture(1)
    c.reset_unsafe()
    t.diag("afterReset", c, "(fut 0 none)")
    for name, shape in SHAPES:
        t.diag("value:" + name, futures.ConstFuture(shape), "(fut 0 plain)", shows=(shape,))
    _probe_in_repr(t, futures.ConstFuture)


def sc_errfut(t):
    from asynq import futures
    t.diag("error", futures.ErrorFuture(_Err("k")), "(fut 0 err)")
    try:
        raise _Err("raised")
    except _Err as e:
        err = e
    t.diag("errorRaised", futures.ErrorFuture(err), "(fut 0 err)")
    t.diag("errorBase", futures.ErrorFuture(KeyboardInterrupt()), "(fut 0 err)")
    for name, shape in SHAPES:
        t.diag("error:" + name, futures.ErrorFuture(_Err(shape)), "(fut 0 err)", shows=(shape,))
    _probe_in_repr(t, futures.ErrorFuture, err=True)


def sc_task(t):
    import asynq
    from asynq import scheduler, async_task, futures
    UBatch, UItem, UBatch2, UItem2 = _mk_batching()
    A = asynq.asynq

    @A()
    def body(n, fail=False):
        for _ in range(n):
            yield None
        if fail:
            raise _Err("body")
        return n

    tk = body.asynq(2)
    t.diag("fresh", tk, "(task none 0 0 1 0)")
    tk.value()
    t.diag("doneValue", tk, "(task plain 0 0 0 3)")
    tk = body.asynq(0)
    tk.value()
    t.diag("doneNoYield", tk, "(task plain 0 0 0 1)")
    tk = body.asynq(1, True)
    try:
        tk.value()
    except _Err:
        pass
    t.diag("doneError", tk, "(task err 0 0 0 2)")

    @A()
    def noneret():
        yield None

    tk = noneret.asynq()
    tk.value()
    t.diag("doneNone", tk, "(task plain 0 0 0 2)")

    @A()
    def selfret():
        yield None
        return scheduler.get_active_task()

    tk = selfret.asynq()
    tk.value()
    t.diag("doneSelf", tk, "(task self 0 0 0 2)")

    @A()
    def cyc():
        yield None
        return [scheduler.get_active_task()]

    tk = cyc.asynq()
    tk.value()
    t.diag("doneCycle", tk, "(task cycle 0 0 0 2)")

    @A()
    def running():
        t.diag("runningFirst", scheduler.get_active_task(), "(task none 0 0 1 1)")
        yield None
        t.diag("running", scheduler.get_active_task(), "(task none 0 0 1 2)")
        yield None
        yield None
        t.diag("runningLater", scheduler.get_active_task(), "(task none 0 0 1 4)")

    running()

    @A()
    def blocked1():
        yield None
        x = yield UItem(1)
        return x

    @A()
    def blocked3():
        x = yield UItem(1), [UItem(2)], futures.ConstFuture(0)
        return x

    @A()
    def parent():
        c1 = blocked1.asynq()
        c3 = blocked3.asynq()
        me = scheduler.get_active_task()

        def in_flush(batch):
            t.diag("blockedItem", c1, "(task none 1 1 1 2)")
            t.diag("blockedThree", c3, "(task none 2 3 1 1)")
            t.diag("blockedOnTasks", me, "(task none 2 2 1 1)")
        UBatch.hook = in_flush
        yield c1, c3
        UBatch.hook = None

    sched = scheduler.get_scheduler()
    parent()

    # deps all computed, not yet resumed: observed from on_after_batch_flush
    @A()
    def waiter():
        yield None
        x = yield UItem(5)
        return x

    w = waiter.asynq()

    def after(batch):
        t.diag("depsComputedNotResumed", w, "(task none 0 1 1 2)")
    sched.on_after_batch_flush.subscribe(after)
    try:
        w.value()
    finally:
        sched.on_after_batch_flush.unsubscribe(after)

    tk = body.asynq(1)
    tk.set_error(async_task.AsyncTaskCancelledError())
    t.diag("killedFresh", tk, "(task err 0 0 0 0)")
    tk = body.asynq(1)
    tk.set_value(5)
    t.diag("valueSetFresh", tk, "(task plain 0 0 0 0)")

    # killed while blocked (from inside the flush it waits for)
    @A()
    def victim():
        yield None
        yield UItem(9)

    @A()
    def killer():
        v = victim.asynq()

        def in_flush(batch):
            v.set_error(async_task.AsyncTaskCancelledError())
            t.diag("killedBlocked", v, "(task err 0 0 0 2)")
        UBatch.hook = in_flush
        try:
            yield v
        except async_task.AsyncTaskCancelledError:
            pass
        UBatch.hook = None
        return v

    v = killer()
    t.diag("killedBlockedLater", v, "(task err 0 0 0 2)")

    # value shapes as arguments (get_function_call_str) and as results
    @A()
    def echo(x, k=None):
        yield None
        return x

    for name, shape in SHAPES:
        tk = echo.asynq(shape, k=shape)
        t.diag("args:" + name, tk, "(task none 0 0 1 0)")
        tk.value()
        t.diag("result:" + name, tk, "(task plain 0 0 0 2)", shows=(shape,))

    # not computed, nothing to wait for, generator already closed: the state between the end of the body and
    # set_value(); visible to whatever `_queue_exit` prints under DUMP_QUEUED_RESULTS - here the repr of the result
    class ExitProbe(object):
        task = None
        done = False

        def __repr__(self):
            if self.task is not None and not self.done:
                self.done = True
                t.diag("almostFinished", self.task, "(task none 0 0 0 2)")
            return "exitprobe"

    @A()
    def finishing(p):
        yield None
        p.task = scheduler.get_active_task()
        return p

    from asynq import debug as adebug
    old_flag, old_out = adebug.options.DUMP_QUEUED_RESULTS, adebug.stdout
    adebug.options.DUMP_QUEUED_RESULTS = True
    adebug.stdout = io.StringIO()
    try:
        finishing(ExitProbe())
    finally:
        adebug.options.DUMP_QUEUED_RESULTS = old_flag
        adebug.stdout = old_out

    # a chain of 45 blocked tasks: dump recursion stops at MAX_DUMP_INDENT
    @A()
    def deep(n, tops):
        if not tops:
            tops.append(scheduler.get_active_task())
        if n == 0:
            def in_flush(batch):
                t.diag("deepChain", tops[0], "(task none 1 1 1 1)", ops=("str", "dump"))
            UBatch.hook = in_flush
            yield UItem(0)
            UBatch.hook = None
        else:
            yield deep.asynq(n - 1, tops)

    deep(45, [])


def sc_user_batch(t):
    import asynq
    UBatch, UItem, UBatch2, UItem2 = _mk_batching()
    b = UBatch()
    t.diag("pendingEmpty", b, "(batch 0 0 0)")
    UItem(1, b)
    UItem(2, b)
    t.diag("pendingItems", b, "(batch 0 0 2)")
    UBatch.hook = lambda batch: t.diag("inFlush", batch, "(batch 0 0 2)")
    b.flush()
    UBatch.hook = None
    t.diag("flushed", b, "(batch 1 0 0)")
    b = UBatch()
    b.flush()
    t.diag("flushedEmpty", b, "(batch 1 0 0)")
    b = UBatch("raise")
    UItem(1, b)
    b.flush()
    t.diag("flushRaised", b, "(batch 1 1 0)")
    b = UBatch("skip")
    UItem(1, b)
    b.flush()
    t.diag("flushedItemsUnset", b, "(batch 1 0 0)")
    b = UBatch()
    UItem(1, b)
    UItem(2, b)
    UItem(3, b)
    b.cancel()
    t.diag("cancelled", b, "(batch 1 1 3)")
    b = UBatch()
    b.cancel(_Err("why"))
    t.diag("cancelledEmpty", b, "(batch 1 1 0)")
    b = UBatch()
    UItem(1, b)
    try:
        b.value()
    except Exception:
        pass
    t.diag("computedByValue", b, "(batch 1 0 1)")


def sc_user_item(t):
    UBatch, UItem, UBatch2, UItem2 = _mk_batching()
    b = UBatch()
    i = UItem(1, b)
    t.diag("pending", i, "(fut 0 none)")
    b.flush()
    t.diag("value", i, "(fut 0 plain)")
    b = UBatch("raise")
    i = UItem(1, b)
    b.flush()
    t.diag("flushError", i, "(fut 0 err)")
    b = UBatch("skip")
    i = UItem(1, b)
    b.flush()
    t.diag("unset", i, "(fut 0 err)")
    b = UBatch()
    i = UItem(1, b)
    b.cancel()
    t.diag("cancelled", i, "(fut 0 err)")
    b = UBatch("self")
    i = UItem(1, b)
    b.flush()
    t.diag("valueSelf", i, "(fut 0 self)")
    b = UBatch()
    i = UItem(1, b)
    i.set_error(_Err("item"))
    t.diag("errorSet", i, "(fut 0 err)")
    b = UBatch()
    i = UItem(b, b)
    b.flush()
    t.diag("valueIsItsBatch", i, "(fut 0 plain)")
    for name, shape in SHAPES:
        b = UBatch()
        i = UItem(shape, b)
        b.flush()
        t.diag("value:" + name, i, "(fut 0 plain)", shows=(shape,))
    b = UBatch()
    _probe_in_repr(t, lambda p: UItem(p, b), lambda i: b.flush())


def sc_debug_batch(t):
    from asynq import batching
    b = batching.DebugBatch("c18")
    t.diag("pendingEmpty", b, "(batch 0 0 0)")
    i = batching.DebugBatchItem("c18-a", 3)
    b = i.batch
    batching.DebugBatchItem("c18-a", 4)
    t.diag("pendingItems", b, "(batch 0 0 2)")
    b.flush()
    t.diag("flushed", b, "(batch 1 0 0)")
    i = batching.DebugBatchItem("c18-a", 3)
    b = i.batch
    b.cancel()
    t.diag("cancelled", b, "(batch 1 1 1)")
    b = batching.sync("c18").batch
    t.diag("syncPending", b, "(batch 0 0 1)")
    b.flush()
    t.diag("syncFlushed", b, "(batch 1 0 0)")


def sc_debug_item(t):
    from asynq import batching
    i = batching.DebugBatchItem("c18-i", 3)
    t.diag("pending", i, "(fut 0 none)")
    i.value()
    t.diag("value", i, "(fut 0 plain)")
    i = batching.DebugBatchItem("c18-i")
    i.value()
    t.diag("valueNone", i, "(fut 0 plain)")
    i = batching.DebugBatchItem("c18-i", 3)
    i.batch.cancel()
    t.diag("cancelled", i, "(fut 0 err)")
    i = batching.sync("c18-i")
    t.diag("syncPending", i, "(fut 0 none)")
    i.value()
    t.diag("syncDone", i, "(fut 0 plain)")
    for name, shape in SHAPES:
        i = batching.DebugBatchItem("c18-s", shape)
        i.value()
        t.diag("value:" + name, i, "(fut 0 plain)", shows=(shape,))


def sc_scheduler(t):
    import asynq
    from asynq import scheduler
    UBatch, UItem, UBatch2, UItem2 = _mk_batching()
    A = asynq.asynq
    s = scheduler.get_scheduler()
    t.diag("idle", s, "(sched 0 0 0)")

    @A()
    def child():
        yield None
        t.diag("inChild", scheduler.get_scheduler(), "(sched 2 0 1)")

    @A()
    def root():
        yield None
        t.diag("inRoot", scheduler.get_scheduler(), "(sched 1 0 1)")
        yield child.asynq()
        child()
        return 1

    root()

    @A()
    def nested_inner():
        yield None
        t.diag("inNestedSyncCall", scheduler.get_scheduler(), "(sched 2 0 1)")

    @A()
    def nested():
        yield None
        nested_inner()

    nested()

    @A()
    def two_kinds():
        UBatch.hook = lambda b: t.diag("inFlushOtherPending", scheduler.get_scheduler(), "(sched 0 1 0)")
        UBatch2.hook = lambda b: t.diag("inLastFlush", scheduler.get_scheduler(), "(sched 0 0 0)")
        yield UItem(1), UItem2(2)
        UBatch.hook = None
        UBatch2.hook = None

    two_kinds()

    @A()
    def failing():
        yield None
        raise _Err("x")

    try:
        failing()
    except _Err:
        pass
    t.diag("afterError", s, "(sched 0 0 0)")
    scheduler.reset()   # module-level: a new scheduler for this thread
    t.diag("afterReset", scheduler.get_scheduler(), "(sched 0 0 0)")
    fresh = scheduler.TaskScheduler()
    t.diag("freshInstance", fresh, "(sched 0 0 0)")


def sc_scoped_value(t):
    import asynq
    from asynq import scoped_value, futures
    UBatch, UItem, UBatch2, UItem2 = _mk_batching()

    def H(v):
        return _holder("scopedValue", v)
    sv = scoped_value.AsyncScopedValue(1)
    t.diag("default", sv, H(1))
    sv.set("two")
    t.diag("afterSet", sv, H("two"))
    sv.set(None)
    t.diag("holdsNone", sv, H(None))
    sv.set(futures.Future(lambda: 1))
    t.diag("holdsFuture", sv, H(None))
    sv2 = scoped_value.AsyncScopedValue(sv)
    t.diag("holdsScopedValue", sv2, H(None))
    for name, shape in SHAPES:
        t.diag("default:" + name, scoped_value.AsyncScopedValue(shape), H(shape), shows=(shape,))
        v = scoped_value.AsyncScopedValue("x")
        v.set(shape)
        t.diag("set:" + name, v, H(shape), shows=(shape,))
    cur = scoped_value.AsyncScopedValue(None)

    @asynq.asynq()
    def shaped(name, shape):
        with cur.override(shape):
            t.diag("overridden:" + name, cur, H(shape), shows=(shape,))
            UBatch.hook = lambda b: t.diag("overridePaused:" + name, cur, H(None), shows=(None,))
            yield UItem(1)
            UBatch.hook = None
            t.diag("overrideResumed:" + name, cur, H(shape), shows=(shape,))
        t.diag("overrideExited:" + name, cur, H(None), shows=(None,))

    for name, shape in SHAPES:
        shaped(name, shape)

    @asynq.asynq()
    def body():
        with sv.override(5):
            t.diag("overridden", sv, H(5))
            UBatch.hook = lambda b: t.diag("overridePaused", sv, H(None))
            yield UItem(1)
            UBatch.hook = None
            t.diag("overrideResumed", sv, H(5))
        t.diag("overrideExited", sv, H(None))

    body()


def _sc_override(t, make, kind):
    import asynq
    UBatch, UItem, UBatch2, UItem2 = _mk_batching()
    st = _holder(kind, 2)
    ov = make()
    t.diag("fresh", ov, st)
    with ov:
        t.diag("enteredOutsideTask", ov, st)
    t.diag("exitedOutsideTask", ov, st)
    ov2 = make()

    @asynq.asynq()
    def body():
        with ov2:
            t.diag("active", ov2, st)
            UBatch.hook = lambda b: t.diag("paused", ov2, st)
            yield UItem(1)
            UBatch.hook = None
            t.diag("resumed", ov2, st)
        t.diag("exited", ov2, st)

    body()
    ov3 = make()

    @asynq.asynq()
    def failing():
        with ov3:
            yield None
            raise _Err("in block")

    try:
        failing()
    except _Err:
        pass
    t.diag("exitedByException", ov3, st)


def sc_scoped_override(t):
    from asynq import scoped_value
    sv = scoped_value.AsyncScopedValue(1)
    _sc_override(t, lambda: sv.override(2), "scopedOverride")
    for name, shape in SHAPES:
        held = scoped_value.AsyncScopedValue(shape)
        ov = held.override(shape)
        st = _holder("scopedOverride", shape)
        t.diag("fresh:" + name, ov, st, shows=(shape,))
        with ov:
            t.diag("entered:" + name, ov, st, shows=(shape,))
        t.diag("left:" + name, ov, st, shows=(shape,))


def sc_prop_override(t):
    from asynq import scoped_value

    class Target(object):
        x = 1

        def __repr__(self):
            return "Target"
    tg = Target()
    _sc_override(t, lambda: scoped_value.async_override(tg, "x", 2), "propOverride")
    for name, shape in SHAPES:
        ov = scoped_value.async_override(tg, "x", shape)
        st = _holder("propOverride", shape)
        t.diag("fresh:" + name, ov, st, shows=(shape,))
        with ov:
            t.diag("entered:" + name, ov, st, shows=(shape,))
        t.diag("left:" + name, ov, st, shows=(shape,))


def sc_async_gen(t):
    import asynq
    from asynq import generator
    UBatch, UItem, UBatch2, UItem2 = _mk_batching()

    @asynq.asynq()
    def one():
        yield None
        return 1

    @generator.async_generator()
    def gen():
        yield generator.Value(1)
        v = yield UItem(2)
        yield generator.Value(v)
        yield one.asynq()

    g = gen()
    t.diag("fresh", g, "(gen)", ops=("str", "repr"))
    first = next(g)
    t.diag("startedConstValue", g, "(gen)", ops=("str", "repr"))
    second = next(g)
    t.diag("lastTaskPending", g, "(gen)", ops=("str", "repr"))
    second.value()
    t.diag("lastTaskComputed", g, "(gen)", ops=("str", "repr"))
    g2 = gen()
    generator.list_of_generator(g2)
    t.diag("exhausted", g2, "(gen)", ops=("str", "repr"))

    @generator.async_generator()
    def empty():
        return
        yield

    g3 = empty()
    generator.list_of_generator(g3)
    t.diag("emptyExhausted", g3, "(gen)", ops=("str", "repr"))


def sc_gen_value(t):
    from asynq import generator, futures
    t.diag("plain", generator.Value(3), _holder("genValue", 3), shows=(3,))
    t.diag("none", generator.Value(None), _holder("genValue", None), shows=(None,))
    t.diag("future", generator.Value(futures.ConstFuture(1)), _holder("genValue", None))
    t.diag("endOfGenerator", generator.END_OF_GENERATOR, "(plain)")
    # what an async generator may yield is any value: `yield Value((key, row))`
    for name, shape in SHAPES:
        t.diag("holds:" + name, generator.Value(shape), _holder("genValue", shape), shows=(shape,))


class _BadReprError(RuntimeError):
    pass


class _BadRepr(object):
    """a value whose own __repr__ (and hence str()) raises (audit 3, A5)"""

    def __repr__(self):
        raise _BadReprError("this value cannot be printed")


class _BadErr(Exception):
    def __repr__(self):
        raise _BadReprError("this error cannot be printed")

    def __str__(self):
        raise _BadReprError("this error cannot be printed")


def sc_bad_held(t):
    """every object that holds a user value, holding one whose own repr raises: str / repr / dump (open finding
    repr/held-value-repr-raises: str and repr raise; dump() goes through debug.str = qcore.safe_str and returns).
    A kind of its own, so that the recorded name cannot hide another failure of the ordinary kinds."""
    import asynq
    from asynq import futures, generator, scoped_value

    def both(scen, obj, holder):
        t.diag(scen, obj, "(badheld %s 0)" % holder, ops=("str", "repr"))
        t.diag(scen, obj, "(badheld %s 1)" % holder, ops=("dump",))
    both("constFuture", futures.ConstFuture(_BadRepr()), "future")
    f = futures.Future(lambda: _BadRepr())
    f.value()
    both("future", f, "future")
    both("errorFuture", futures.ErrorFuture(_BadErr()), "errorFuture")
    f = futures.Future(lambda: 1)
    f.set_error(_BadErr())
    both("futureError", f, "errorFuture")

    @asynq.asynq()
    def returns_bad():
        yield None
        return _BadRepr()

    @asynq.asynq()
    def raises_bad():
        yield None
        raise _BadErr()
    task = returns_bad.asynq()
    task.value()
    both("taskValue", task, "task")
    task = raises_bad.asynq()
    try:
        task.value()
    except _BadErr:
        pass
    both("taskError", task, "task")
    UBatch, UItem, _, _ = _mk_batching()
    it = UItem(_BadRepr())
    it.batch.flush()
    both("userItem", it, "future")
    both("scopedValue", scoped_value.AsyncScopedValue(_BadRepr()), "scopedValue")
    both("scopedOverride", scoped_value.AsyncScopedValue(1).override(_BadRepr()), "scopedOverride")

    class Target(object):
        prop = 1
    both("propOverride", scoped_value.async_override(Target(), "prop", _BadRepr()), "propOverride")
    both("genValue", generator.Value(_BadRepr()), "genValue")


class _NotAnException(object):
    pass


def _with_tb_attr(tb):
    o = _NotAnException()
    o._traceback = tb
    return o


def sc_format_error(t):
    import asynq
    from asynq import debug as adebug

    def raised(exc):
        try:
            raise exc
        except BaseException as e:
            return e

    @asynq.asynq()
    def inner():
        yield None
        raise _Err("glued")

    @asynq.asynq()
    def outer():
        yield inner.asynq()

    try:
        outer()
    except _Err as e:
        glued = e
    no_tb = _Err("attr is None")
    no_tb._traceback = None
    # `_traceback` holding something that is neither None nor a traceback (outside the statement: compared, not judged)
    garbage_tb = _Err("attr is garbage")
    garbage_tb._traceback = "garbage"
    falsy_tb = _Err("attr is 0")
    falsy_tb._traceback = 0

    class BadStr(Exception):
        def __str__(self):
            raise RuntimeError("str fails")

    plain_raised = raised(_Err("raised"))
    cases = [
        ("none", None, None, "(fe 1 0 none 0)"),
        ("excNeverRaised", _Err("fresh"), None, "(fe 0 1 none 0)"),
        ("excRaisedNoAsynq", plain_raised, None, "(fe 0 1 none 0)"),
        ("excRaisedTbParam", plain_raised, plain_raised.__traceback__, "(fe 0 1 none 1)"),
        ("excGlued", glued, None, "(fe 0 1 1 0)"),
        ("excGluedTbParam", glued, glued.__traceback__, "(fe 0 1 1 1)"),
        ("excTracebackAttrNone", no_tb, None, "(fe 0 1 0 0)"),
        ("baseException", raised(KeyboardInterrupt()), None, "(fe 0 1 none 0)"),
        ("generatorExit", asynq.async_task.AsyncTaskResult(3), None, "(fe 0 1 none 0)"),
        ("excUnicode", _Err("ü中"), None, "(fe 0 1 none 0)"),
        ("excNoArgs", _Err(), None, "(fe 0 1 none 0)"),
        ("excStrFails", BadStr(), None, "(fe 0 1 none 0)"),
        ("notAnException", "just a string", None, "(fe 0 0 none 0)"),
        # outside the statement ("any exception"): modelled and compared, not judged
        ("exceptionClass", KeyError, None, "(fe 0 0 none 0)"),
        ("noneTbParam", None, plain_raised.__traceback__, "(fe 1 0 none 1)"),
        ("notAnExceptionTbParam", "just a string", plain_raised.__traceback__, "(fe 0 0 none 1)"),
        ("objectTracebackAttr", _with_tb_attr(plain_raised.__traceback__), None, "(fe 0 0 1 0)"),
        ("objectTracebackAttrNone", _with_tb_attr(None), None, "(fe 0 0 0 0)"),
        ("excTracebackAttrGarbage", garbage_tb, None, "(fe 0 1 2 0)"),
        ("excTracebackAttrFalsyGarbage", falsy_tb, None, "(fe 0 1 2 0)"),
        ("excTracebackAttrGarbageTbParam", garbage_tb, plain_raised.__traceback__, "(fe 0 1 2 1)"),
        ("objectTracebackAttrGarbage", _with_tb_attr("garbage"), None, "(fe 0 0 2 0)"),
    ]
    for name, err, tb, state in cases:
        for hl in (1, 0):
            for flt in (1, 0):
                scen = "%s.hl%d.filter%d" % (name, hl, flt)
                if not t.want(scen):
                    continue

                def thunk(err=err, tb=tb, hl=hl, flt=flt):
                    adebug.enable_traceback_syntax_highlight(bool(hl))
                    adebug.enable_filter_traceback(bool(flt))
                    try:
                        return adebug.format_error(err, tb=tb)
                    finally:
                        adebug.enable_traceback_syntax_highlight(True)
                        adebug.enable_filter_traceback(True)
                t.cell(scen, "str", state, thunk, _classify_fe)


def sc_dump_all(t):
    """run small programs with every DUMP_* option on: debug.str / debug.repr of tasks, batches and results in
    transient states; qcore.safe_str turns a raising __str__ into '<n/a: ...>' which is the observation here"""
    import asynq
    from asynq import debug as adebug, scheduler
    UBatch, UItem, UBatch2, UItem2 = _mk_batching()
    A = asynq.asynq

    @A()
    def leaf(k, fail):
        yield None
        x = yield UItem(k)
        if fail:
            raise _Err("leaf")
        return x

    @A()
    def mid(fail):
        a, b = yield leaf.asynq(1, False), leaf.asynq(2, fail)
        return [a, b]

    @A()
    def top(fail):
        try:
            r = yield mid.asynq(fail)
        except _Err:
            r = None
        yield asynq.ConstFuture(r)
        return r

    opts = adebug.options
    names = sorted(a for a in dir(opts) if a.startswith("DUMP_") and isinstance(getattr(opts, a), bool))
    for scen in names + ["ALL"]:
        if not t.want(scen):
            continue

        def thunk(scen=scen):
            # (options.DUMP_ALL(True) would overwrite the DUMP_ALL method itself; set the options one by one)
            buf = io.StringIO()
            old_out, old_err = adebug.stdout, adebug.stderr
            saved = {a: getattr(opts, a) for a in names}
            adebug.stdout = buf
            adebug.stderr = buf
            for a in names:
                setattr(opts, a, scen in (a, "ALL"))
            try:
                top(False)
                top(True)
            finally:
                for a, v in saved.items():
                    setattr(opts, a, v)
                adebug.stdout, adebug.stderr = old_out, old_err
            text = buf.getvalue()
            m = re.search(r"<n/a: (?:str|repr)\(\.\.\.\) raised", text)
            if m:
                raise AttributeError("a diagnostic raised inside debug.str/debug.repr: %s" % text[m.start():m.start() + 120])
            return text
        # with DUMP_COMPUTED the futures describe themselves from inside their own constructor
        state = "(constinit)" if scen in ("DUMP_COMPUTED", "ALL") else "(plain)"
        t.cell(scen, "dump", state, thunk, lambda s: "(text)")


SCENARIOS = {
    "future": sc_future, "constFuture": sc_const, "errorFuture": sc_errfut, "task": sc_task,
    "userBatch": sc_user_batch, "userItem": sc_user_item, "debugBatch": sc_debug_batch, "debugItem": sc_debug_item,
    "scheduler": sc_scheduler, "scopedValue": sc_scoped_value, "scopedOverride": sc_scoped_override,
    "propOverride": sc_prop_override, "asyncGen": sc_async_gen, "genValue": sc_gen_value,
    "formatError": sc_format_error, "dumpAll": sc_dump_all, "badHeld": sc_bad_held,
}


def run_repr(case):
    kind = case["kind"]
    init, reads = extract_gen_attrs(os.path.join(_build_dir(), "asynq", "generator.py"))
    names = []
    for a in init + reads:
        if a not in names:
            names.append(a)
    hdr = "(genattrs (init %s) (reads %s)) (constinit %d)" % (
        " ".join(str(names.index(a)) for a in init), " ".join(str(names.index(a)) for a in reads),
        1 if extract_const_init(_build_dir()) else 0)
    t = Table(kind, case.get("only"))
    SCENARIOS[kind](t)   # an exception escaping a scenario builder is a harness error (reported as such)
    lines = ["(case debug %d repr %s)" % (case["id"], hdr)] + t.obs + ["(end)"]
    scen = sorted({o.split()[2] for o in t.obs})
    feats = ["repr:kind=%s" % kind,
             "repr:states%s" % next(("<=%d" % b if b < 10 ** 9 else ">20") for b in (1, 3, 8, 20, 10 ** 9) if len(scen) <= b)]
    feats += sorted({"repr:op=" + o.split()[3] for o in t.obs})
    nontrivial = None
    if len(scen) >= 3:
        nontrivial = hashlib.sha1(("repr/" + kind + "/" + ",".join(scen)).encode()).hexdigest()[:16]
    return {"lines": lines, "features": feats, "nontrivial": nontrivial}


def run_case(case):
    sub = case.get("sub")
    if sub == "filter":
        return run_filter(case)
    if sub in ("glue", "again"):
        return run_glue(case)
    if sub == "repr":
        return run_repr(case)
    raise ValueError("unknown kind of case %r" % sub)
