"""C20, family `optprog`, round 5: programs whose VALUES (results and arguments of async functions) are objects the library
itself knows how to run - futures (ConstFuture, ErrorFuture, an un-awaited task, a pending batch item), generator objects,
containers of futures.  Returning such an object through `return` (or from a plain function under @asynq()) is legal: only
what is YIELDED is awaited; no debug / assertion / dump / profiling option may change that (the option-guarded branches
convert tasks, their arguments and their results to strings, walk dependencies, and make extra checks).

Same interface as checks/optprogs.py: prog_<name>(E), observations through E.log / E.outcome (values, class names,
identity bits - never reprs or addresses).  ENABLE_COMPLEX_ASSERTIONS is ON by default in the library: c20.optprog6_cases
runs every program of this file with it switched off alone, and off / on inside larger option sets."""
import inspect


def _let_timeouts_through(e):
    if type(e).__name__ == "CaseTimeout":
        raise e


class Boom6(Exception):
    pass


def prog_future_as_value(E):
    """prefetch handles: a task / a ConstFuture / an ErrorFuture handed back as the VALUE of a generator task (`return`), of
    a plain function, a pure one, a method, the async twin of a sync_fn pair, through async_call; awaited later by the caller"""
    a = E.asynq

    @a.asynq()
    def load(key):
        v = yield E.item("db", key)
        return v

    @a.asynq()
    def prefetch(key):
        yield E.item("warmup", key)
        return load.asynq(key)

    @a.asynq()
    def prefetch_plain(key):
        return load.asynq(key)

    @a.asynq()
    def constant_handle(key):
        return a.ConstFuture(key + 100)

    @a.asynq(pure=True)
    def pure_handle(key):
        yield None
        return load.asynq(key)

    @a.asynq()
    def failed_handle(key):
        yield E.item("warmup", key)
        return a.ErrorFuture(Boom6(key))

    @a.asynq()
    def handle_of_handle(key):
        h = yield prefetch.asynq(key)
        return h        # handed on un-awaited

    class Store(object):
        @a.asynq()
        def handle(self, key):
            return load.asynq(key)

        def pair_sync(self, key):
            return a.ConstFuture(key + 200)

        @a.asynq(sync_fn=pair_sync)
        def pair(self, key):
            yield None
            return a.ConstFuture(key + 200)

    store = Store()

    @a.asynq()
    def program():
        hs = yield (prefetch.asynq(1), prefetch_plain.asynq(2), constant_handle.asynq(3), pure_handle(4), handle_of_handle.asynq(5),
                    store.handle.asynq(6), store.pair.asynq(7), a.async_call.asynq(lambda: a.ConstFuture(8)))
        E.log("handles", [isinstance(h, a.FutureBase) for h in hs], [h.is_computed() for h in hs])
        rows = yield hs
        bad = yield failed_handle.asynq(9)
        try:
            yield bad
            got = "no-error"
        except Boom6 as e:
            got = ("boom", e.args[0])
        return rows, got

    E.outcome("program", program)
    E.outcome("sync-plain", lambda: constant_handle(3).value())
    E.outcome("sync-gen", lambda: prefetch(11).value())
    E.outcome("sync-pair", lambda: store.pair(12).value())
    E.outcome("value-of-value", lambda: handle_of_handle.asynq(13).value().value())


def prog_future_in_container_value(E):
    """the value of a function is a dict / list / tuple holding futures (not awaited by the function); the caller awaits the
    structure later"""
    a = E.asynq

    @a.asynq()
    def load(key):
        return (yield E.item("db", key))

    @a.asynq()
    def plan_gen(keys):
        yield E.item("meta", len(keys))
        return {"tasks": [load.asynq(k) for k in keys], "const": a.ConstFuture("c"), "item": (E.item("db", "direct"), None)}

    @a.asynq()
    def plan_plain(keys):
        return [load.asynq(k) for k in keys] + [a.ConstFuture("p")]

    @a.asynq()
    def program():
        p1, p2 = yield plan_gen.asynq([1, 2, 3]), plan_plain.asynq([4, 5])
        E.log("pending", [t.is_computed() for t in p1["tasks"]], p1["item"][0].is_computed(), [t.is_computed() for t in p2])
        r1 = yield p1
        r2 = yield p2
        return r1, r2

    E.outcome("program", program)
    E.outcome("sync", lambda: [f.value() for f in plan_plain([6])])


def prog_generator_as_value(E):
    """generator objects (data, None, lazily created tasks) as the value and as an argument of plain / generator / pure
    functions and methods: handed over un-started"""
    a = E.asynq
    started = []

    @a.asynq()
    def load(key):
        return (yield E.item("db", key))

    def numbers(n, tag):
        started.append(tag)
        for i in range(n):
            yield i
        return "end"

    def nones(n, tag):
        started.append(tag)
        for i in range(n):
            yield None

    @a.asynq()
    def squares(n):
        return (i * i for i in range(n))

    @a.asynq()
    def lazy_numbers(n):
        return numbers(n, "plain")

    @a.asynq()
    def lazy_numbers_gen(n):
        yield E.item("db", n)
        return numbers(n, "gen")

    @a.asynq(pure=True)
    def lazy_nones(n):
        return nones(n, "pure")

    @a.asynq()
    def pending_lookups(keys):
        return (load.asynq(k) for k in keys)

    @a.asynq()
    def passthrough(g):
        yield E.item("db", "p")
        return g

    class Obj(object):
        @a.asynq()
        def meth(self, n):
            return nones(n, "meth")

    def state(g):
        return inspect.getgeneratorstate(g)

    @a.asynq()
    def program():
        arg = numbers(2, "arg")
        gs = yield squares.asynq(4), lazy_numbers.asynq(3), lazy_numbers_gen.asynq(2), lazy_nones(2), Obj().meth.asynq(1), passthrough.asynq(arg)
        E.log("states", [state(g) for g in gs], gs[5] is arg, list(started))
        pend = yield pending_lookups.asynq([1, 2])
        E.log("pending-state", state(pend))
        vals = yield list(pend)
        return [list(g) for g in gs], vals, list(started)

    E.outcome("program", program)
    E.outcome("sync", lambda: (list(squares(3)), list(lazy_numbers(2)), list(lazy_nones(1).value())))
    E.log("started", list(started))


def prog_batch_item_as_value(E):
    """a pending batch item handed back as a value (the function enqueued a request and returns the handle un-awaited)
    next to siblings that await items of the same batch; the caller awaits it later, or never"""
    a = E.asynq

    @a.asynq()
    def enqueue(key):
        yield E.item("other", key)
        return E.item("db", key)

    @a.asynq()
    def enqueue_plain(key):
        return E.item("db", key)

    @a.asynq()
    def reader(key):
        return (yield E.item("db", key))

    @a.asynq()
    def failing(key):
        return E.item("db", key, "err")

    @a.asynq()
    def program():
        h1, h2, r, never = yield enqueue.asynq(1), enqueue_plain.asynq(2), reader.asynq(3), enqueue_plain.asynq(4)
        E.log("handles", h1.is_computed(), h2.is_computed(), never.is_computed(), r)
        v = yield h1, h2
        bad = yield failing.asynq(5)
        try:
            yield bad
            got = "no-error"
        except KeyError:
            got = "keyerror"
        return v, got, never.is_computed()

    E.outcome("program", program)
    E.outcome("sync", lambda: enqueue(6).value())
    E.outcome("sync-plain", lambda: enqueue_plain(7).is_computed())


def prog_futures_as_arguments(E):
    """futures, un-started tasks and generator objects passed as ARGUMENTS (positional and keyword) of tasks - options
    convert the arguments of tasks to strings - and handed back / awaited by the callee"""
    a = E.asynq
    ran = []

    @a.asynq()
    def load(key):
        ran.append(key)
        return (yield E.item("db", key))

    def gen(tag):
        ran.append(tag)
        yield 1

    @a.asynq()
    def identity(x, tag=None):
        yield E.item("db", "id")
        return x

    @a.asynq()
    def awaiter(fut, also=None):
        v = yield fut
        w = yield also
        return v, w

    @a.asynq()
    def plain_identity(x):
        return x

    @a.asynq()
    def program():
        t, c, it, g = load.asynq(1), a.ConstFuture(2), E.item("db", 3), gen("g")
        back = yield identity.asynq(t), identity.asynq(c, tag=it), plain_identity.asynq(it), identity.asynq(g), plain_identity.asynq(x=[t, c])
        E.log("same", back[0] is t, back[1] is c, back[2] is it, back[3] is g, back[4][0] is t, t.is_computed(), list(ran),
              inspect.getgeneratorstate(g))
        vals = yield awaiter.asynq(t, also=it), awaiter.asynq(c), awaiter.asynq(fut=load.asynq(4), also=[t, None])
        return vals, list(g), list(ran)

    E.outcome("program", program)
    E.outcome("sync", lambda: awaiter(load.asynq(5), also=a.ConstFuture(6)))


PROGRAMS = {n[len("prog_"):]: f for n, f in sorted(globals().items()) if n.startswith("prog_") and callable(f)}
