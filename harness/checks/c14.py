"""C14  Collection helpers equal their built-in counterparts, in one batching round.

One invocation of amap / afilter / afilterfalse / asorted / amax / amin / asift / aretry per case, run on the real
asynq.tools with an async key / predicate built on a batch the harness defines (so flushes can be counted).
Three-way comparison per case, done by the Lean driver:
  * CORR : the Lean model of tools.py (AsynqModel.Lib.Tools, line-by-line) gives exactly the observation the real
           helper gave (result or exception class, number of key calls, sizes of the flushes, sleeps), and the
           PYTHON BUILT-IN run by the harness on the same input gives what the Lean reference functions
           (List.map / filter / mergeSort / first extreme / partition) give;
  * SPEC : the Lean observer `Tools.spec` (= the statement of C14: equality with `Tools.expected`, which is written in
           terms of the built-ins' meaning only; proved of the model for every call inside the statement by
           C14_spec_holds, and shown to accept nothing but the model's observation by C14_spec_only_model) judges the
           implementation's observation on its own.  The driver prints `specClause`, which names the first clause
           that differs; C14_specClause_ok_iff: it says "ok" exactly when `spec` holds.
The model also carries WHAT KIND OF OBJECT the key / predicate is (FnObj: None, or a function object with the measured
bool(f) and f == None), what kind of async function aretry's body is (BodyKind: runs when scheduled / runs eagerly
inside fn.asynq(..)) and five kinds of iterable; the generator varies them (and, model-less: element __eq__/__hash__/
__repr__, result objects, argument styles, call forms, warm-ups on the same thread).
Round 4 (feature interactions): a SECOND LAYER of the model (AsynqModel.Lib.ToolsX; the driver judges every case in it,
C14x_plain: it is the first layer where nothing below applies) carries, per case, a table of elements for which the key /
predicate RAISES (exception class per element), the ENGINE (asynq scheduler / asyncio event loop: helper.asyncio(..)), the
finishing time of every per-element call under asyncio (the model's event loop completes the calls in that order, stores
each outcome on its task, releases the helper after the last one, and the outcomes are read in list order), whether the
function is EAGER (body runs inside function.asynq(elt): @async_proxy, the .asynq that asynq.mock.patch attaches) and
whether the function object answers every attribute name (MagicMock; measured).  Expected: the exception class of the
FIRST bad element in input order (what map / filter / sorted / max / min raise), for every engine, finishing order and
function kind (C14x_spec_holds, C14_first_bad_element_wins, C14_engine_irrelevant, C14_gather_ignores_time; contrast:
C14_race_depends_on_time).  Class domain: StopIteration / GeneratorExit (and subclasses) are outside the statement
(Ext.ordinary; the model says what the code does with them, INCLUDE_SPECIAL_CLS, corpus/C14-outside-statement).  Generator-only (no model dimension): key = asynq.mock.patch replacement of four kinds,
@deduplicate / @alru_cache function, make_async_decorator product, staticmethod / classmethod, explicit asyncio_fn=, bound
method of a copy.copy()'d instance / copied binder; call through asynq.async_call, tools.call_with_context (counting
AsyncContext), inside an AsyncScopedValue override the key reads, while another thread is stuck in the middle of its own
helper invocation; a debug option switched / gc.collect() in MID-FLIGHT (inside the k-th per-element call / attempt);
blocking on the library's DebugBatchItem; aretry: one decorator object applied to two functions, the documented defaults
(aretry(cls): 10 tries, sleep 0.05), a method reached through a copied instance."""
import hashlib
import itertools
import json
import random

PID = "C14"
LEVEL = "proof"
LEAN_MODULES = ["AsynqModel.Theorems.C14", "AsynqModel.Theorems.C14x"]
# Headline theorems: statements with content about the modelled behaviour, for all inputs.
HEADLINE = [
    "AsynqModel.Tools.C14_spec_holds",
    "AsynqModel.Tools.C14_spec_true",
    "AsynqModel.Tools.C14_spec_only_model",
    "AsynqModel.Tools.C14_specClause_ok_iff",
    "AsynqModel.Tools.C14_amap",
    "AsynqModel.Tools.C14_afilter",
    "AsynqModel.Tools.C14_afilterfalse",
    "AsynqModel.Tools.C14_asorted_stable",
    "AsynqModel.Tools.C14_asorted_in_words",
    "AsynqModel.Tools.C14_asorted_nokey",
    "AsynqModel.Tools.C14_firstExt_is_first",
    "AsynqModel.Tools.C14_firstExt_min_is_first",
    "AsynqModel.Tools.C14_amax_amin_first",
    "AsynqModel.Tools.C14_amax_first",
    "AsynqModel.Tools.C14_amin_first",
    "AsynqModel.Tools.C14_amax_varargs_first",
    "AsynqModel.Tools.C14_amax_errors",
    "AsynqModel.Tools.C14_asift",
    "AsynqModel.Tools.C14_aretry_count",
    "AsynqModel.Tools.C14_aretry_runs",
    "AsynqModel.Tools.C14_aretry_result",
    "AsynqModel.Tools.C14_aretry_unlisted_immediately",
    "AsynqModel.Tools.C14_aretry_returns",
    "AsynqModel.Tools.C14_aretry_exhausted",
    "AsynqModel.Tools.C14_aretry_body_kind",
    "AsynqModel.Tools.C14_aretry_flushes",
    "AsynqModel.Tools.C14_falsy_key_is_called",
    "AsynqModel.Tools.C14_one_round",
    "AsynqModel.Tools.C14_one_flush",
    "AsynqModel.Tools.C14_each_called_once",
    # necessity witness for the restriction `Call.inStatement` (amax / amin without default=)
    "AsynqModel.Tools.C14_default_kw_outside_statement",
    # second layer (Lib/ToolsX.lean, Theorems/C14x.lean): keys / predicates that raise, asyncio mode, eager functions
    "AsynqModel.Tools.C14x_spec_holds",
    "AsynqModel.Tools.C14x_spec_true",
    "AsynqModel.Tools.C14x_spec_only_model",
    "AsynqModel.Tools.C14x_spec_failing",
    "AsynqModel.Tools.C14x_specClause_ok_iff",
    "AsynqModel.Tools.C14x_plain",
    "AsynqModel.Tools.C14_first_bad_element_wins",
    "AsynqModel.Tools.C14_engine_irrelevant",
    "AsynqModel.Tools.C14_failing_key_calls",
    "AsynqModel.Tools.C14_yield_list_order",
    # the asyncio engine of the model completes the tasks in order of finishing time: irrelevance of the times is
    # PROVED (not by construction any more), and false for a reader that is woken by the first failure in time
    "AsynqModel.Tools.C14_gather_ignores_time",
    "AsynqModel.Tools.C14_race_depends_on_time",
    # necessity witnesses for the class domain `Ext.ordinary` (StopIteration / GeneratorExit outside the statement)
    "AsynqModel.Tools.C14_stopIteration_outside_statement",
    "AsynqModel.Tools.C14_generatorExit_outside_statement",
    "AsynqModel.Tools.C14_aretry_special_outside_statement",
]
# Hold by construction of the model (one unfolding); they describe HOW tools.py is modelled, their content is the
# correspondence run (which measures bool(f) / f == None / attribute-happiness of the function object, drives both call
# forms of amax / amin), not the proof.  Audited like the others, counted apart (tools/gen_status.py: "n (+k by
# construction)").
BY_CONSTRUCTION = [
    "AsynqModel.Tools.C14_fn_object_irrelevant",
    "AsynqModel.Tools.C14_amax_varargs",
    "AsynqModel.Tools.C14_default_kw_refused",
    "AsynqModel.Tools.C14_fn_attributes_irrelevant",
]
THEOREMS = HEADLINE + BY_CONSTRUCTION
# `default=` of max / min: accepted by the built-ins, refused by amax / amin ("unexpected keyword argument",
# tools.py:103, 129; `key` is the only keyword tools.pyi declares).  C14 quantifies over iterables, async keys /
# predicates, `reverse` and the two call forms, so such calls are OUTSIDE the statement (Lean: Call.inStatement,
# C14_default_kw_outside_statement) and the generator does not produce them.  Set to True to read "agree with the
# built-ins" as covering that keyword too: the model (which refuses it, like the code) then fails the observer and the
# check reports signature "amax-amin/default-kw/fail:result".
INCLUDE_DEFAULT_KW = False
BUILDS = {"quick": ["py"], "thorough": ["py", "cy"]}
EXHAUSTIVE = {"quick": False, "thorough": False}
RULE = ("one helper invocation per case. Exhaustive core: every key/predicate pattern over {0,1}^n (n<=4 quick, n<=6 "
        "thorough) x every helper variant (amap, afilter fn/None, afilterfalse, asorted key/no key x reverse, amax/amin "
        "key/no key x single-iterable/varargs, asift) x list/tuple/one-shot iterator x blocking/non-blocking key; the "
        "same over n<=2 (3 thorough) x every KIND OF FUNCTION OBJECT (plain @asynq function, callable object that is "
        "falsy through __bool__ or through __len__, object equal to everything incl. None, both, @async_proxy "
        "function, bound @asynq method of a falsy instance) x every KIND OF ITERABLE (list, tuple, their subclasses, "
        "iter(), generator, map object, iterator class, deque, class with __iter__, class with __getitem__ only, "
        "falsy non-empty containers); all (k, max_tries) pairs with k<=7, max_tries<=6 for aretry x ending "
        "(value/unlisted exception) x blocking, with listed/unlisted classes deriving from Exception, from a listed "
        "base class, or from BaseException only (alone, in a mixed tuple, aretry(BaseException)), x every KIND OF "
        "BODY (@asynq generator, @asynq plain function, @asynq method, @async_proxy function that raises while the "
        "request is issued and returns a batch item / ConstFuture, @async_proxy returning ErrorFuture, falsy object "
        "with a hand-written .asynq), a family max_tries in {11,17,33,65,100,129,257} with k around max_tries, and "
        "a previous invocation of the same decorated function. "
        "Generated: sizes 0-13 plus long inputs (257-1100 elements, for chunked issuing), elements = ints, int "
        "subclass instances, orderable objects with equal order but distinct identity, None, unorderable objects "
        "(with __eq__ = identity / always True + constant hash / unhashable / raising, raising __repr__), duplicates "
        "of the same object, equal keys (int, int subclass, float), predicate results of 22 truthy/falsy kinds, "
        "per-element blocking, call forms f(..) / f.asynq(..).value() / yielded from an outer task / from three "
        "nested tasks / on a fresh thread, argument styles (documented, all positional, all by keyword, explicit "
        "key=None), a warm-up on the same thread with the same function object (same call, a failing call, a "
        "computation whose per-element task raised), malformed calls (no argument, one non-iterable argument, "
        "a keyword nobody knows, non-iterable input, unorderable values without key, max_tries=0); amax / amin are "
        "never called with default= (outside the statement, see ASSUMPTIONS). "
        "Round 4, feature interactions - interaction core: every helper variant with a function x 24 kinds of function "
        "object (the 7 above, 4 kinds of asynq.mock.patch replacement, @deduplicate, @alru_cache, make_async_decorator, "
        "staticmethod, classmethod, explicit asyncio_fn=, method of a copy.copy()'d instance, copied binder) x 7 call "
        "forms (call, helper.asyncio() under asyncio.run, an outer @asynq function run through .asyncio(), "
        "asynq.async_call, tools.call_with_context with a counting AsyncContext, inside an AsyncScopedValue override "
        "read by the key, while another thread is stuck inside a helper invocation of its own) x 4 (5) patterns of "
        "blocking / FAILING keys (the first bad element in input order finishes later than a later bad element of "
        "another class) with per-element finishing times under asyncio, on the harness batch or the library's "
        "DebugBatchItem; every mid-flight action (15 debug options switched, gc.collect()) x helper x position x form; "
        "aretry: every call form x 7 body kinds x (k, max_tries), one decorator object applied to two functions, the "
        "documented defaults aretry(cls), a method of a copied instance, mid-flight actions between attempts. In the "
        "generated stream: 34 % of the cases in one of the new call forms (22 % asyncio), 30 % with one of the new "
        "function kinds, 30 % with 1-3 failing elements (classes 1-6, BaseException-only ones under the asynq "
        "scheduler only), 12 % with a mid-flight action, 12 % blocking on DebugBatchItem. Non-trivial = at "
        "least 2 elements and (two distinct elements with equal keys or a blocking key call), or an aretry case with "
        "at least one retry; distinct by hash of the case")
TRUSTED = [
    "hand-written Lean model AsynqModel.Lib.Tools tied to asynq/tools.py by this differential run only",
    "Lean counterparts of the CPython built-ins sorted/max/min/zip/enumerate/filter/itertools.compress "
    "(pySorted, pyExt, ..): validated on every case by comparing the real built-in's result with the Lean reference",
    "Python harness checks/c14.py (token <-> object identity mapping, harness batch that records flush sizes, "
    "time.sleep replaced by a counter; bool(f) and f == None of the function object are MEASURED and handed to the "
    "model as FnObj; the Python kinds of iterable are mapped to the model's list/tuple/iterator/reiter by "
    "isinstance(list, tuple) / one-shot / re-iterable)",
    "element __eq__/__hash__/__repr__, the kind of key / predicate result object, the argument style, the call form "
    "and the warm-up are dimensions of the GENERATOR only: the model has no such dimension (no state between "
    "invocations, elements are opaque tokens), so nothing is PROVED about them - that the real helpers ignore them "
    "is tested, by the correspondence staying exact when they vary",
    "scheduler contract that the blocking tasks of one yield share one flush (properties C04/C05)",
    "second layer (Lib/ToolsX.lean): written ON TOP of Tools.run - the helpers contain no try, so an exception at their "
    "one yield of per-element tasks (or while the task list is built) leaves them unchanged; what is modelled line by line "
    "is the delivery of a yielded list in the two engines (async_task.py unwrap in list order / asynq_to_async._gather: "
    "the event loop completes the tasks in order of finishing time - ties in creation order -, asyncio.wait(ALL_COMPLETED) "
    "releases the helper after the last one, results are read in list order), the list comprehension with an eager "
    "function and aretry's loop seen through CPython's generator protocol; tied to the code by this run (failing keys of "
    "several classes with chosen finishing times under asyncio.run). That the event loop's completion order is the order "
    "of the scripted delays is an assumption about asyncio the run cannot contradict: the theorem says it is irrelevant",
    "the kinds of function object beyond None / (bool, == None, eager, answers-any-attribute), the call forms other than "
    "the engine, mid-flight debug options / gc, DebugBatchItem, a shared aretry decorator object are dimensions of the "
    "GENERATOR only (tested, not modelled)",
]
ASSUMPTIONS = [
    "the async key / predicate is a function of the element (returns a value or raises an exception whose class "
    "depends on the element only) and blocks at most once on one batch (asyncio: finishes after 0-4 event-loop round trips); "
    "with a failing key the STATEMENT is about the exception type only (the first bad element's, as for map / sorted / "
    "max): specX compares nothing else, the number of calls / flushes of that case is compared with the model only",
    "keys are integers (a total order); values without key are ordered by an integer or not orderable at all",
    "afilterfalse(None, ..) is outside the statement (no async predicate: itertools.filterfalse(None, xs) keeps the falsy "
    "elements, afilterfalse(None, xs) raises AttributeError; the model's Call.afilterfalse has no function-object "
    "argument, so this restriction has NO Lean presence); under asyncio mode there is no batch, so "
    "the one-flush clause is empty there (flushes = []); under asyncio no BaseException-only error, no @async_proxy "
    "function returning a batch item / ErrorFuture is generated (C15's open findings and resolve_awaitables' limits)",
    "CLASS DOMAIN: the exceptions a key / predicate / retried body raises are of ORDINARY classes - any class derived "
    "from Exception or from BaseException only, except StopIteration, GeneratorExit and their subclasses. CPython gives "
    "these two a meaning inside generators and the library follows it: a StopIteration leaves the key's generator / "
    "coroutine frame as RuntimeError (PEP 479; sorted / max / min raise the StopIteration, list(map(..)) / filter silently "
    "stop at the element), a GeneratorExit raised by the function of an asynq task ENDS that task with the value None "
    "(async_task.py _continue: `except GeneratorExit: .. self._queue_exit(None)`): amap returns [.., None, ..], afilter "
    "drops the element, asorted / amax raise TypeError, aretry(GeneratorExit, max_tries=3) runs its body ONCE and returns "
    "None; under asyncio the GeneratorExit comes through (the engines differ). Lean: hypothesis Ext.ordinary of "
    "C14x_spec_holds / _spec_true / _spec_only_model / C14x_plain / C14_engine_irrelevant (ordinaryCls of the first bad "
    "element's class in C14_first_bad_element_wins), shown necessary by C14_stopIteration_outside_statement, "
    "C14_generatorExit_outside_statement, C14_aretry_special_outside_statement; the model says what the code does with "
    "these classes (tokens 7, 8; RuntimeError = 9) and the generator produces them only with INCLUDE_SPECIAL_CLS = True "
    "(then CORR stays ok - 5 298 such cases, seeds 3 and 11 - and SPEC / SPECM fail); three cases to replay in "
    "corpus/C14-outside-statement. The swallowed GeneratorExit is the scheduler's behaviour (C01/C02/C18 territory), not "
    "the helpers'",
    "amax / amin are called with no keyword but key= (or one that max / min reject as well): default=, which max / min "
    "accept and amax / amin refuse with TypeError (tools.py:103, 129; tools.pyi declares key only), is outside the "
    "statement - C14 quantifies over iterables, async keys / predicates, reverse and the call forms. Lean: hypothesis "
    "Call.inStatement of C14_spec_holds / _spec_true / _spec_only_model, shown necessary by "
    "C14_default_kw_outside_statement; the generator produces such calls only with INCLUDE_DEFAULT_KW = True",
    "aretry: the exception classes are tokens 1..6 with the one subclass relation 4 < 1 (7, 8: outside the statement, "
    "see CLASS DOMAIN; the first-layer theorems C14_aretry_* treat every class token alike - they describe the code for "
    "ordinary classes, C14x_plain); a script shorter than the number of attempts is continued by attempts that return 0",
]
CASE_TIMEOUT = 30
UNKNOWN = 999999
SRC_KINDS = ["list", "tuple", "iterator"]
# Python kind of iterable -> kind in the model (what isinstance(.., (list, tuple)) and a second iteration see)
SRC_MODEL = {"list": "list", "tuple": "tuple", "iterator": "iterator", "nonIter": "nonIter",
             "listsub": "list", "tuplesub": "tuple", "mapobj": "iterator", "iterobj": "iterator",
             "deque": "reiter", "reiter": "reiter", "getitem": "reiter"}
SRC_MORE = ["listsub", "tuplesub", "mapobj", "iterobj", "deque", "reiter", "getitem"]
SRC_FALSY_OK = ("listsub", "tuplesub", "iterobj", "reiter", "getitem")   # kinds that can be non-empty AND falsy
FN_KINDS = ["plain", "falsy", "empty", "eqall", "falsyeq", "proxy", "method"]
# round 4 (feature interactions): the key / predicate is a replacement installed by asynq.mock.patch (default MagicMock
# with a side_effect, autospec'd function, new=<plain function>, new=<callable object>), a @deduplicate / @alru_cache
# function, something made by make_async_decorator, the bound method of a copy.copy()'d instance, a copy.copy()'d binder
FN_MOCK = ["mock", "mockspec", "mockfn", "mockobj"]
FN_MORE = FN_MOCK + ["dedup", "alru", "wrapped", "methodcopy", "bindercopy", "static", "classm", "aiofn"]
FN_HASHED = ("dedup", "alru")          # the arguments are hashed / compared: distinct, ordinary elements only
BODY_KINDS = ["gen", "plain", "method", "proxy", "proxyerr", "duck"]
BODY_MORE = ["methodcopy"]              # round 4: the decorated method reached through a copy.copy() of its instance
BODY_MODEL = {"gen": "lazy", "plain": "lazy", "method": "lazy", "proxy": "eager", "proxyerr": "eager", "duck": "eager",
              "methodcopy": "lazy"}
ARG_STYLES = ["std", "pos", "kw"]
FORMS = ["call", "asynq", "nested"]
FORMS_MORE = ["nested3", "thread"]
# round 4: under an asyncio event loop (helper.asyncio(..) / an outer @asynq function run through .asyncio()), through
# asynq.async_call, through tools.call_with_context with a counting AsyncContext, inside an AsyncScopedValue override
# that the key reads, while ANOTHER thread is in the middle of a helper invocation of its own
FORMS_AIO = ["asyncio", "asyncio_nested"]
FORMS_X = FORMS_AIO + ["acall", "ctx", "scoped", "otherthread"]
KEY_CLS = [1, 2, 3, 4]                  # classes a key / predicate raises (Exception-derived); 5, 6 (BaseException only): asynq mode
MID_ACTS = ["gc", "DUMP_NEW_TASKS", "DUMP_COMPUTED", "DUMP_FLUSH_BATCH", "DUMP_DEPENDENCIES", "DUMP_YIELD_RESULTS",
            "DUMP_QUEUED_RESULTS", "DUMP_SCHEDULE_TASK", "DUMP_CONTINUE_TASK", "DUMP_SCHEDULE_BATCH", "DUMP_CONTEXTS",
            "DUMP_SYNC", "DUMP_STACK", "DUMP_EXCEPTIONS", "KEEP_DEPENDENCIES", "ENABLE_COMPLEX_ASSERTIONS"]
# COLLECT_PERF_STATS switched on while tasks are in flight IS generated (since /repo 9ee915e; before that fix every
# task created before the switch failed with AttributeError '_id' on the pure-Python build - known_findings.json,
# property C20 - and the action was excluded here).
MID_ACTS.append("COLLECT_PERF_STATS")
# Exception classes with a meaning of their own in CPython's generator protocol - StopIteration (class 7) and
# GeneratorExit (class 8) and their subclasses - are OUTSIDE the statement (ASSUMPTIONS; Lean: Ext.ordinary,
# C14_stopIteration_outside_statement, C14_generatorExit_outside_statement, C14_aretry_special_outside_statement).
# The model says what the code does with them (RuntimeError / a task that ends with the value None); set to True to
# have the generator produce them: CORR stays ok, SPEC and SPECM fail and the check reports signatures
# "<helper>/.../fail:result" (replay corpus/C14-outside-statement/*.json to see single cases).
INCLUDE_SPECIAL_CLS = False
HELPERS = ["amap", "afilter", "afilterfalse", "asorted", "amax", "amin", "asift"]


# ---------------------------------------------------------------------------------------------------
# generation
# ---------------------------------------------------------------------------------------------------

def elem(kind, key, pred, blocks, order=None, truthy=None, eq=0, rr=0):
    """one universe entry; the token is its index in the universe.
    eq (objects only): 0 identity, 1 equal to everything + constant hash, 2 unhashable, 3 __eq__ raises; rr: __repr__ raises"""
    if kind in ("int", "intsub"):
        truthy = 1 if order != 0 else 0
        eq = 0
    elif kind == "none":
        truthy, order, eq, rr = 0, None, 0, 0
    elif kind == "opaque":
        order = None
        truthy = 1 if truthy is None else truthy
    elif kind == "ord":
        truthy = 1 if truthy is None else truthy
    u = {"k": kind, "key": key, "pred": pred, "truthy": truthy, "ord": order, "blocks": blocks}
    if eq:
        u["eq"] = eq
    if rr and kind != "int":
        u["rr"] = 1
    return u


def base_case(helper, univ, items, src="list", **kw):
    c = {"helper": helper, "univ": univ, "items": items, "src": src, "gen": 0, "form": "call",
         "fn_none": 0, "key_none": 0, "rev": 0, "bad_kw": 0, "args": "one"}
    c.update(kw)
    return c


def variants():
    """every helper variant of the exhaustive core"""
    yield "amap", {}
    yield "afilter", {}
    yield "afilter", {"fn_none": 1}
    yield "afilterfalse", {}
    for rev in (0, 1):
        yield "asorted", {"rev": rev}
        yield "asorted", {"rev": rev, "key_none": 1}
    for h in ("amax", "amin"):
        for kn in (0, 1):
            yield h, {"key_none": kn, "args": "one"}
            yield h, {"key_none": kn, "args": "elems"}
    yield "asift", {}


def core_cases(maxn):
    res = []
    for n in range(maxn + 1):
        for keys in itertools.product((0, 1), repeat=n):
            for blocking in (0, 1):
                # orderable objects whose own order is the key: ties between distinct objects also without key
                univ = [elem("ord", k, k, blocking, order=k, truthy=k) for k in keys]
                for helper, flags in variants():
                    for src in SRC_KINDS:
                        if flags.get("args") == "elems" and src != "tuple":
                            continue
                        res.append(base_case(helper, univ, list(range(n)), src, **flags))
    return res


def object_core(maxn):
    """every KIND of function object x every KIND of iterable object, for every helper that takes a function, over
    every 0/1 key pattern of at most maxn elements (key descending for amax so that the natural order of the values
    is NOT the key order)"""
    res = []
    for n in range(maxn + 1):
        for keys in itertools.product((0, 1), repeat=n):
            for blocking in (0, 1):
                # the values' own order is the REVERSE of the key order: a helper that drops the key is seen
                univ = [elem("ord", k, k, blocking, order=1 - k, truthy=k) for k in keys]
                for helper, flags in variants():
                    if flags.get("fn_none") or flags.get("key_none"):
                        continue
                    for fnk in FN_KINDS:
                        srcs = (["tuple"] if flags.get("args") == "elems" else SRC_KINDS + SRC_MORE)
                        for src in srcs:
                            if fnk == "plain" and src in SRC_KINDS:
                                continue              # core_cases has it
                            c = base_case(helper, univ, list(range(n)), src, fnk=fnk, **flags)
                            if src in SRC_FALSY_OK and (n + blocking) % 2:
                                c["src_falsy"] = 1
                            res.append(c)
    return res


PATTERNS = [
    # (key, pred, blocks, fails, delay) per element
    [(1, 1, 1, 0, 0), (0, 0, 1, 0, 1), (1, 1, 1, 0, 0)],
    # the FIRST bad element (in input order) finishes later than a later bad one of another class
    [(1, 1, 1, 1, 1), (0, 0, 0, 2, 0), (1, 0, 1, 0, 0)],
    [(0, 1, 0, 0, 0), (1, 0, 1, 0, 2), (0, 1, 1, 3, 2), (1, 1, 0, 1, 0)],
    [(1, 0, 0, 0, 0), (1, 1, 1, 0, 1)],
    [(0, 1, 1, 0, 1), (1, 0, 1, 4, 3), (1, 1, 1, 2, 1), (0, 0, 0, 0, 0), (0, 1, 1, 1, 0)],
]


def pattern_univ(pat):
    univ = []
    for k, pr, b, f, d in pat:
        u = elem("ord", k, pr, b, order=1 - k, truthy=pr)
        if f:
            u["fails"] = f
        if d:
            u["delay"] = d
        univ.append(u)
    return univ


def interaction_core(tier):
    """every kind of function object x every call form (incl. asyncio mode, async_call, call_with_context, a scoped
    value override, another thread in mid-flight) x every helper variant that takes a function, over patterns with
    and without failing keys; and every mid-flight action x helper x position"""
    res = []
    i = 0
    for helper, flags in variants():
        if flags.get("fn_none") or flags.get("key_none"):
            continue
        for fnk in FN_KINDS + FN_MORE:
            for form in ["call"] + FORMS_X:
                for pi, pat in enumerate(PATTERNS if tier != "quick" else PATTERNS[:4]):
                    i += 1
                    src = "tuple" if flags.get("args") == "elems" else (SRC_KINDS + SRC_MORE)[i % 10]
                    c = base_case(helper, pattern_univ(pat), list(range(len(pat))), src, fnk=fnk, **flags)
                    c["form"] = form
                    if i % 7 == 0:
                        c["warm"] = 1
                    if i % 3 == 0:
                        c["dbi"] = 1
                    if i % 5 == 0:
                        c["argstyle"] = ARG_STYLES[i % 3]
                    res.append(normalize(c))
    for act in MID_ACTS:
        for helper in HELPERS:
            for at in (0, 1, 2):
                for form in ("call", "nested", "asyncio"):
                    i += 1
                    pat = PATTERNS[i % 3]
                    c = base_case(helper, pattern_univ(pat), list(range(len(pat))), SRC_KINDS[i % 3],
                                  fnk=(FN_KINDS + FN_MORE)[i % 16], mid=[at, act])
                    c["form"] = form
                    res.append(normalize(c))
    return res


def retry_case(max_tries, listed, script, blocking, single_cls=0, form="call", base_all=0, **kw):
    c = {"helper": "aretry", "max": max_tries, "listed": listed, "script": script, "blocking": blocking,
         "single_cls": single_cls, "form": form, "base_all": base_all}
    c.update(kw)
    return c


def retry_core():
    res = []
    for m in range(0, 7):
        for k in range(0, 8):
            for ending in (["ret", 7], ["raise", 3]):
                for blocking in (0, 1):
                    script = [["raise", 1 if i % 2 == 0 else 2] for i in range(k)] + [ending]
                    res.append(retry_case(m, [1, 2], script, blocking))
                    # every kind of retried body: where the attempt raises (while the request is issued / when the
                    # task is scheduled) must not matter
                    for body in BODY_KINDS[1:]:
                        res.append(retry_case(m, [1, 2], script, blocking, body=body,
                                              argstyle=ARG_STYLES[(m + k) % 3]))
    # listed classes that derive from BaseException only: custom class alone, a tuple mixing both, BaseException itself;
    # and such a class raised while NOT listed (propagates at once)
    for m in range(1, 7):
        for k in range(0, 8):
            for ending in (["ret", 7], ["raise", 3], ["raise", 6]):
                script = [["raise", 5 if i % 2 == 0 else 1] for i in range(k)] + [ending]
                res.append(retry_case(m, [1, 5], script, k % 2))
                res.append(retry_case(m, [1, 5], script, k % 2, body=BODY_KINDS[1 + (m + k) % 5]))
                res.append(retry_case(m, [5], [["raise", 5]] * k + [ending], 0, single_cls=k % 2))
                res.append(retry_case(m, list(ALL_CLS), [["raise", 1 + (i % 6)] for i in range(k)] + [["ret", 2]],
                                      0, single_cls=k % 2, base_all=1))
    # a threshold on max_tries / on the number of attempts: k around max_tries, for large max_tries
    for m in (11, 17, 33, 65, 100, 129, 257):
        for k in (m - 2, m - 1, m, m + 1):
            for body in ("gen", "proxy"):
                for ending in (["ret", 4], ["raise", 3]):
                    script = [["raise", 1 if i % 3 else 4] for i in range(k)] + [ending]
                    res.append(retry_case(m, [1], script, (m + k) % 2, single_cls=k % 2, body=body))
    # second use of the same decorated function: a previous invocation that succeeded after retries, one that used up
    # all its tries, one that failed with an unlisted exception - the next invocation starts from scratch
    for m in range(1, 5):
        for k in range(0, 6):
            for wi, warm in enumerate(([["raise", 1], ["ret", 1]], [["raise", 1]] * m, [["raise", 3]])):
                for body in ("gen", "proxy", "duck"):
                    script = [["raise", 1 if i % 2 == 0 else 2] for i in range(k)] + [["ret", 7]]
                    res.append(retry_case(m, [1, 2], script, (k + wi) % 2, body=body, warm=warm))
    # feature interactions (round 4): every call form (asyncio mode, async_call, call_with_context, scoped value,
    # another thread in mid-flight) x body kind x (k, max_tries); one decorator object applied to two functions; a
    # debug option switched on / a garbage collection between two attempts
    i = 0
    for m in range(1, 5):
        for k in range(0, 6):
            for ending in (["ret", 7], ["raise", 3]):
                script = [["raise", 1 if j % 2 == 0 else 4] for j in range(k)] + [ending]
                for form in FORMS_X:
                    for body in BODY_KINDS + BODY_MORE:
                        i += 1
                        res.append(normalize(retry_case(m, [1], script, i % 2, body=body, form=form,
                                                        shared=(i % 3 if i % 4 == 0 else 0))))
                for shared in (1, 2):
                    for body in ("gen", "proxy", "methodcopy"):
                        i += 1
                        res.append(retry_case(m, [1], script, i % 2, body=body, shared=shared,
                                              warm=([["raise", 1], ["ret", 2]] if i % 2 else None)))
    # the documented defaults: aretry(exception_cls) retries up to 10 times, sleeping 0.05
    for k in (0, 1, 8, 9, 10, 11):
        for ending in (["ret", 7], ["raise", 3]):
            for body in ("gen", "proxy", "duck"):
                for form in ("call", "asyncio"):
                    script = [["raise", 1 if j % 3 else 4] for j in range(k)] + [ending]
                    res.append(normalize(retry_case(10, [1], script, k % 2, body=body, form=form, argstyle="dflt",
                                                    single_cls=k % 2)))
    for act in MID_ACTS:
        for at in (0, 1):
            for body in ("gen", "proxy"):
                for form in ("call", "asyncio"):
                    res.append(normalize(retry_case(3, [1], [["raise", 1], ["raise", 4], ["ret", 5]], 1, body=body,
                                                    form=form, mid=[at, act])))
    return res


def gen_retry(rng):
    m = rng.choice([0, 1, 1, 2, 3, 4, 5, 6, 10])
    base_all = 1 if rng.random() < 0.08 else 0     # aretry(BaseException): every class is listed
    if base_all:
        listed = list(ALL_CLS)
    else:
        listed = sorted(rng.sample(ALL_CLS, rng.choice([0, 1, 1, 2, 3, 4])))
        if INCLUDE_SPECIAL_CLS and rng.random() < 0.4:
            listed = sorted(listed + [rng.choice([7, 8])])
    n = rng.randint(0, 8)

    def steps(n):
        script = []
        for _ in range(n):
            if rng.random() < 0.75:
                script.append(["raise", rng.choice(listed) if listed and rng.random() < 0.7 else rng.randint(1, 6)])
                if INCLUDE_SPECIAL_CLS and not base_all and rng.random() < 0.3:
                    script[-1] = ["raise", rng.choice([7, 8])]   # outside the statement
            else:
                script.append(["ret", rng.randint(-3, 9)])
        return script
    kw = {}
    if rng.random() < 0.5:
        kw["body"] = rng.choice(BODY_KINDS)
    if rng.random() < 0.3:
        kw["argstyle"] = rng.choice(ARG_STYLES + ["dflt"])
    if rng.random() < 0.2:
        kw["warm"] = steps(rng.randint(1, 4)) + ([["ret", 5]] if rng.random() < 0.5 else [])
    form = rng.choice(FORMS + FORMS_MORE) if rng.random() < 0.3 else rng.choice(FORMS)
    r = rng.random()
    if r < 0.2:
        form = rng.choice(FORMS_AIO)
    elif r < 0.32:
        form = rng.choice(FORMS_X)
    if rng.random() < 0.1:
        kw["body"] = "methodcopy"
    if rng.random() < 0.15:
        kw["shared"] = rng.choice([1, 2])
    if rng.random() < 0.1:
        kw["mid"] = [rng.randint(0, 3), rng.choice(MID_ACTS)]
    return normalize(retry_case(m, listed, steps(n), rng.randint(0, 1), single_cls=rng.randint(0, 1), form=form,
                                base_all=base_all, **kw))


def gen_collection(rng, helper=None, size=None):
    helper = helper or rng.choice(HELPERS)
    if size is None:
        size = rng.choice([0, 1, 2, 2, 3, 3, 4, 5, 6, 8, 13])
    flags = {"form": rng.choice(FORMS), "gen": rng.randint(0, 1)}
    if rng.random() < 0.2:
        flags["form"] = rng.choice(FORMS_MORE)
    src = rng.choice(SRC_KINDS + SRC_KINDS + SRC_KINDS + ["nonIter"]) if rng.random() < 0.5 else rng.choice(SRC_KINDS)
    if rng.random() < 0.3:
        src = rng.choice(SRC_MORE)
        if src in SRC_FALSY_OK and rng.random() < 0.4:
            flags["src_falsy"] = 1
    if helper == "afilter":
        flags["fn_none"] = 1 if rng.random() < 0.3 else 0
    if helper in ("asorted", "amax", "amin"):
        flags["key_none"] = rng.choice([1, 2]) if rng.random() < 0.3 else 0   # 1 = no key argument, 2 = key=None
    if helper == "asorted":
        flags["rev"] = rng.randint(0, 1)
    if helper in ("amax", "amin"):
        flags["args"] = "elems" if rng.random() < 0.4 else "one"
        flags["bad_kw"] = 1 if rng.random() < 0.06 else 0
        if INCLUDE_DEFAULT_KW and rng.random() < 0.15:
            flags["bad_kw"] = 2                      # default=<object>: see INCLUDE_DEFAULT_KW
        if flags["args"] == "elems":
            src = "tuple"
            flags.pop("src_falsy", None)
            if rng.random() < 0.25:
                size = rng.choice([0, 1])
    # the function object, the argument style, what happened before on this thread
    if rng.random() < 0.4:
        flags["fnk"] = rng.choice(FN_KINDS)
    if rng.random() < 0.25:
        flags["argstyle"] = rng.choice(ARG_STYLES)
    if rng.random() < 0.2:
        flags["warm"] = rng.choice([1, 2, 3])
    if rng.random() < 0.2:
        flags["keyk"] = rng.choice([1, 2])           # key results: int subclass / float instead of int
    # elements
    nkeys = rng.choice([1, 2, 2, 3, 5, 50])
    blockmode = rng.choice(["all", "none", "mixed"])
    orderable_only = flags.get("key_none") and rng.random() < 0.8
    kinds = ["int", "ord", "ord", "opaque", "none", "intsub"] if not orderable_only else ["int", "ord", "ord", "intsub"]
    odd = rng.random() < 0.3                           # objects with unusual __eq__ / __hash__ / __repr__
    univ = []
    used_ints = set()
    have_none = False
    nuniv = max(1, size if rng.random() < 0.7 else (size + 1) // 2)
    for _ in range(nuniv):
        kind = rng.choice(kinds)
        key = rng.randint(-2, nkeys - 3)
        pred = rng.randint(0, 1)
        blocks = {"all": 1, "none": 0, "mixed": rng.randint(0, 1)}[blockmode]
        eq = rng.choice([0, 1, 2, 3]) if odd else 0
        rr = rng.randint(0, 1) if odd else 0
        if kind == "none" and have_none:
            kind = "opaque"
        if kind in ("int", "intsub"):
            v = rng.randint(-3, 6)
            while v in used_ints:
                v += 7
            used_ints.add(v)
            univ.append(elem(kind, key, pred, blocks, order=v, rr=rr))
        elif kind == "ord":
            univ.append(elem("ord", key, pred, blocks, order=rng.randint(-2, nkeys - 3), truthy=rng.randint(0, 1),
                             eq=eq, rr=rr))
        elif kind == "none":
            have_none = True
            univ.append(elem("none", key, pred, blocks))
        else:
            univ.append(elem("opaque", key, pred, blocks, truthy=rng.randint(0, 1), eq=eq, rr=rr))
    if nuniv >= size and rng.random() < 0.6:
        items = list(range(size))
        rng.shuffle(items)
    else:
        items = [rng.randrange(nuniv) for _ in range(size)]   # the same object several times
    # ---- feature interactions (round 4) ----
    r = rng.random()
    if r < 0.22:
        flags["form"] = rng.choice(FORMS_AIO)
    elif r < 0.34:
        flags["form"] = rng.choice(FORMS_X)
    if rng.random() < 0.3:
        flags["fnk"] = rng.choice(FN_MORE)
    if rng.random() < 0.3:
        # the key / predicate raises for some elements: classes differ, some of them finish later than others
        nbad = rng.choice([1, 1, 2, 2, 3])
        for u in rng.sample(univ, min(nbad, len(univ))):
            u["fails"] = rng.choice(KEY_CLS + KEY_CLS + [5, 6])
            if INCLUDE_SPECIAL_CLS and rng.random() < 0.4:
                u["fails"] = rng.choice([7, 8])           # StopIteration / GeneratorExit subclass: outside the statement
    if flags["form"] in FORMS_AIO:
        for u in univ:
            if rng.random() < 0.5:
                u["delay"] = rng.choice([1, 1, 2, 3])
    if rng.random() < 0.12:
        flags["mid"] = [rng.randint(0, max(0, size - 1)), rng.choice(MID_ACTS)]
    if rng.random() < 0.12:
        flags["dbi"] = 1                       # the calls block on the library's DebugBatchItem, not on the harness batch
    return normalize(base_case(helper, univ, items, src, **flags))


def normalize(c):
    """make a collection case consistent: combinations of dimensions that are not meaningful are mapped to the
    nearest meaningful one (applied by the generator, the families and the shrinker)"""
    if c["helper"] == "aretry":
        if c.get("form") in FORMS_AIO:
            if c.get("body") in ("proxyerr",):
                c["body"] = "proxy"               # resolve_awaitables does not know ErrorFuture
            # BaseException-only errors are not delivered to `except` under asyncio (C15's open finding): Exception classes
            m = lambda k: k - 4 if k in (5, 6) else k
            c["listed"] = sorted(set(m(k) for k in c["listed"]))
            c["base_all"] = 0
            c["script"] = [[a, m(v)] if a == "raise" else [a, v] for a, v in c["script"]]
            if c.get("warm"):
                c["warm"] = [[a, m(v)] if a == "raise" else [a, v] for a, v in c["warm"]]
        if c["max"] == 0:
            c["shared"] = 0
        if c.get("argstyle") == "dflt":
            c["max"] = 10
        return c
    aio = c["form"] in FORMS_AIO
    univ = [dict(u) for u in c["univ"]]
    if c.get("fnk") in FN_HASHED:
        # the arguments are hashed and compared by the decorator: ordinary, distinct elements
        seen, items = set(), []
        for t in c["items"]:
            if t not in seen:
                seen.add(t)
                items.append(t)
        c["items"] = items
        for u in univ:
            u.pop("eq", None)
        if c["fnk"] == "alru" and c.get("warm"):
            c["warm"] = 0                         # a second use would be answered from the cache
    if aio:
        if c.get("warm") in (2, 3):
            c["warm"] = 0                         # those warm-ups block on the batch
        for u in univ:
            if u.get("fails") in (5, 6):
                u["fails"] -= 4                   # BaseException-only errors under asyncio: C15's open finding
    else:
        for u in univ:
            u.pop("delay", None)
    if c.get("mid") and c["mid"][1] != "gc":
        for u in univ:
            u.pop("rr", None)                     # the DUMP_* options print the arguments of the tasks
    c["univ"] = univ
    return c


def gen_long(rng, helper, n):
    """long inputs: helpers that issue their per-element calls in chunks need more than one flush"""
    c = gen_collection(rng, helper, size=n)
    if c.get("args") == "elems":
        c["src"] = "tuple"
    elif c["src"] == "nonIter":
        c["src"] = rng.choice(SRC_KINDS)
    c["key_none"] = 0
    c["fn_none"] = 0
    c["bad_kw"] = 0
    for u in c["univ"]:
        u["blocks"] = 1
    return c


def corpus():
    import glob
    import os
    res = []
    d = os.path.join(os.path.dirname(os.path.dirname(os.path.dirname(os.path.abspath(__file__)))), "corpus", PID)
    for p in sorted(glob.glob(os.path.join(d, "*.json"))):
        with open(p) as f:
            res.append(json.load(f))
    return res


def plan(tier, seed):
    rng = random.Random(seed * 1000003 + 14)
    cases = corpus()
    cases += core_cases(4 if tier == "quick" else 6)
    cases += object_core(2 if tier == "quick" else 3)
    cases += interaction_core(tier)
    cases += retry_core()
    longs = [257, 300, 513, 1100] if tier == "quick" else [129, 257, 258, 300, 513, 700, 1025, 1100, 2100]
    for h in HELPERS:
        for n in longs:
            cases.append(gen_long(rng, h, n))
    n = 12000 if tier == "quick" else 100000
    for i in range(n):
        cases.append(gen_retry(rng) if i % 8 == 7 else gen_collection(rng))
    return cases


def shrink(case):
    for c in shrink0(case):
        yield normalize(c)


def shrink0(case):
    if case["helper"] == "aretry":
        sc = case["script"]
        for i in range(min(len(sc), 40)):
            yield dict(case, script=sc[:i] + sc[i + 1:])
        if len(sc) > 8:
            yield dict(case, script=sc[len(sc) // 2:])
        if case["max"] > 1:
            yield dict(case, max=case["max"] - 1)
            yield dict(case, max=(case["max"] + 1) // 2)
        if case["blocking"]:
            yield dict(case, blocking=0)
        for k, dflt in (("warm", None), ("argstyle", "std"), ("body", "gen"), ("form", "call"), ("shared", 0)):
            if case.get(k, dflt) != dflt:
                yield dict(case, **{k: dflt})
        return
    items = case["items"]
    if len(items) > 8:
        yield dict(case, items=items[:len(items) // 2])
        yield dict(case, items=items[len(items) // 2:])
    for i in range(min(len(items), 40)):
        yield dict(case, items=items[:i] + items[i + 1:])
    if case["form"] != "call":
        yield dict(case, form="call")
    if case.get("gen"):
        yield dict(case, gen=0)
    for k, dflt in (("warm", 0), ("argstyle", "std"), ("fnk", "plain"), ("keyk", 0), ("src_falsy", 0), ("mid", None),
                    ("dbi", 0)):
        if case.get(k, dflt) != dflt:
            yield dict(case, **{k: dflt})
    if case["src"] in SRC_MORE:
        yield dict(case, src=SRC_MODEL[case["src"]] if SRC_MODEL[case["src"]] != "reiter" else "list", src_falsy=0)
    if any(u.get("eq") or u.get("rr") for u in case["univ"]):
        yield dict(case, univ=[{k: v for k, v in u.items() if k not in ("eq", "rr")} for u in case["univ"]])
    if any(u.get("fails") for u in case["univ"]):
        yield dict(case, univ=[{k: v for k, v in u.items() if k != "fails"} for u in case["univ"]])
        for i, u in enumerate(case["univ"]):
            if u.get("fails"):
                yield dict(case, univ=[{k: v for k, v in w.items() if k != "fails" or j != i}
                                       for j, w in enumerate(case["univ"])])
    if any(u.get("delay") for u in case["univ"]):
        yield dict(case, univ=[{k: v for k, v in u.items() if k != "delay"} for u in case["univ"]])
    if any(u["blocks"] for u in case["univ"]):
        yield dict(case, univ=[dict(u, blocks=0) for u in case["univ"]])
    if any(u["key"] not in (0, 1) for u in case["univ"]):
        yield dict(case, univ=[dict(u, key=u["key"] % 2) for u in case["univ"]])


def neighbours(case, rng):
    if case["helper"] == "aretry":
        for _ in range(32):
            c = gen_retry(rng)
            c["listed"] = case["listed"]
            c["base_all"] = case.get("base_all", 0)
            yield c
        return
    for src in SRC_KINDS:
        for form in FORMS + FORMS_AIO:
            yield normalize(dict(case, src=src if case.get("args") != "elems" else "tuple", form=form))
    for rev in (0, 1):
        for kn in (0, 1):
            yield dict(case, rev=rev, key_none=kn)
    for fnk in FN_KINDS + FN_MORE:
        yield normalize(dict(case, fnk=fnk))
    for _ in range(24):
        c = gen_collection(rng, case["helper"])
        yield c
    for n in (257, 600):
        yield gen_long(rng, case["helper"], n)


def signature(case, v):
    if case["helper"] == "aretry":
        return "aretry/%s%s" % ("asyncio/" if case.get("form") in FORMS_AIO else "", v["spec"])
    if case.get("bad_kw") == 2:
        return "amax-amin/default-kw/%s" % v["spec"]      # one signature for the keyword, whatever the input
    # (computed on the UNSHRUNK case: only dimensions that change what the code does are named - the engine, an eager
    # attribute-happy replacement installed by asynq.mock.patch, a key that raises when the verdict is about an exception)
    parts = [case["helper"]]
    if case["form"] in FORMS_AIO:
        parts.append("asyncio")
    if case.get("fnk") in FN_MOCK:
        parts.append("fn=mock")
    if any(case["univ"][t].get("fails") for t in case["items"]) and "Exc.user" in str(v.get("detail", "")):
        parts.append("key-raises")
    if case.get("mid") and case["mid"][1] == "COLLECT_PERF_STATS":
        parts.append("mid-flight=COLLECT_PERF_STATS")
    parts += [SRC_MODEL.get(case["src"], case["src"]), v["spec"]]
    return "/".join(parts)


# ---------------------------------------------------------------------------------------------------
# implementation side
# ---------------------------------------------------------------------------------------------------

class Ord(object):
    """orderable like the integer v (also against plain ints), compared by identity for equality"""

    def __init__(self, v, truthy):
        self.v = v
        self.truthy = truthy

    @staticmethod
    def _v(o):
        if isinstance(o, Ord):
            return o.v
        if isinstance(o, int) and not isinstance(o, bool):
            return int(o)
        return None

    def __lt__(self, o):
        w = Ord._v(o)
        return NotImplemented if w is None else self.v < w

    def __gt__(self, o):
        w = Ord._v(o)
        return NotImplemented if w is None else self.v > w

    def __le__(self, o):
        w = Ord._v(o)
        return NotImplemented if w is None else self.v <= w

    def __ge__(self, o):
        w = Ord._v(o)
        return NotImplemented if w is None else self.v >= w

    def __bool__(self):
        return bool(self.truthy)

    __hash__ = object.__hash__


class Opaque(object):
    """not orderable at all"""

    def __init__(self, truthy):
        self.truthy = truthy

    def __bool__(self):
        return bool(self.truthy)


class IntSub(int):
    """a subclass of a built-in: ordered, truthy and hashed like the int it is"""


class HarnessObjectError(Exception):
    """raised by __eq__ / __repr__ of elements that must never be compared / printed"""


_ELEM_CLS = {}


def elem_cls(base, eq, rr):
    """variant of an element class with an unusual __eq__ / __hash__ / __repr__ (a helper must only ever order the
    KEYS and test truth values - never compare, hash or print the elements)"""
    k = (base.__name__, eq, rr)
    if k in _ELEM_CLS:
        return _ELEM_CLS[k]
    ns = {}
    if eq == 1:
        ns["__eq__"] = lambda self, o: True
        ns["__ne__"] = lambda self, o: False
        ns["__hash__"] = lambda self: 7
    elif eq == 2:
        ns["__eq__"] = lambda self, o: self is o
        ns["__hash__"] = None
    elif eq == 3:
        def _raise(self, o):
            raise HarnessObjectError("element compared with ==")
        ns["__eq__"] = _raise
        ns["__ne__"] = _raise
        ns["__hash__"] = lambda self: id(self) >> 4
    if rr:
        def _repr(self):
            raise HarnessObjectError("element printed")
        ns["__repr__"] = _repr
        ns["__str__"] = _repr
    cls = type("%s_%d%d" % (base.__name__, eq, rr), (base,), ns) if ns else base
    _ELEM_CLS[k] = cls
    return cls


class NotIterable(object):
    pass


class DefaultObj(object):
    """the object passed as default= to max / min / amax / amin"""


DFLT = DefaultObj()


# ---- kinds of iterable ---------------------------------------------------------------------------------

class ListSub(list):
    falsy = False

    def __bool__(self):
        return not self.falsy


class TupleSub(tuple):
    falsy = False

    def __bool__(self):
        return not self.falsy


class ReIter(object):
    """a container that is neither list nor tuple: can be iterated again and again"""

    def __init__(self, xs, falsy):
        self.xs = list(xs)
        self.falsy = falsy

    def __iter__(self):
        return iter(list(self.xs))

    def __bool__(self):
        return not self.falsy


class GetItemOnly(object):
    """iterable through the old __getitem__ protocol only"""

    def __init__(self, xs, falsy):
        self.xs = list(xs)
        self.falsy = falsy

    def __getitem__(self, i):
        return self.xs[i]

    def __bool__(self):
        return not self.falsy


class IterObj(object):
    """a one-shot iterator class"""

    def __init__(self, xs, falsy):
        self.it = iter(list(xs))
        self.falsy = falsy

    def __iter__(self):
        return self

    def __next__(self):
        return next(self.it)

    def __bool__(self):
        return not self.falsy


def build_src(kind, elems, gen=0, falsy=0):
    if kind == "list":
        return list(elems)
    if kind == "tuple":
        return tuple(elems)
    if kind == "iterator":
        return (x for x in list(elems)) if gen else iter(list(elems))
    if kind == "nonIter":
        return NotIterable()
    if kind == "listsub":
        r = ListSub(elems)
        r.falsy = bool(falsy)
        return r
    if kind == "tuplesub":
        r = TupleSub(elems)
        r.falsy = bool(falsy)
        return r
    if kind == "mapobj":
        return map(lambda x: x, list(elems))
    if kind == "iterobj":
        return IterObj(elems, falsy)
    if kind == "deque":
        import collections
        return collections.deque(elems)
    if kind == "reiter":
        return ReIter(elems, falsy)
    if kind == "getitem":
        return GetItemOnly(elems, falsy)
    raise ValueError(kind)


# ---- kinds of function object --------------------------------------------------------------------------

class FnBool(object):
    """a callable async function object whose truth value / equality is its own business"""

    def __init__(self, afn, truthy, eqall):
        self.afn = afn
        self.truthy = truthy
        self.eqall = eqall

    def asynq(self, *a, **k):
        return self.afn.asynq(*a, **k)

    def __call__(self, *a, **k):
        return self.afn(*a, **k)

    def __bool__(self):
        return bool(self.truthy)

    def __eq__(self, o):
        return True if self.eqall else self is o

    def __ne__(self, o):
        return False if self.eqall else self is not o

    def __hash__(self):
        return 11


class FnLen(object):
    """a callable memo table: falsy because it is (still) empty"""

    def __init__(self, afn):
        self.afn = afn

    def asynq(self, *a, **k):
        return self.afn.asynq(*a, **k)

    def __call__(self, *a, **k):
        return self.afn(*a, **k)

    def __len__(self):
        return 0


def fn_auto(f):
    """does the function object answer ANY attribute name with a truthy callable (a MagicMock does)?  measured"""
    if f is None:
        return 0
    try:
        a = getattr(f, "harness_probe_no_such_attribute")
        return 1 if (a and callable(a) and a()) else 0
    except Exception:
        return 0


def fn_token(f):
    """the function object as the model sees it: None, or (bool(f), f == None) as MEASURED"""
    if f is None:
        return "none"
    try:
        e = 1 if f == None else 0   # noqa: E711 - the point is what == answers
    except Exception:
        e = 0
    return "(fn %d %d)" % (1 if f else 0, e)


class E1(Exception):
    pass


class E2(Exception):
    pass


class E3(Exception):
    pass


class E4(E1):
    pass


class B5(BaseException):
    """listed or not, never an Exception: `except Exception` must not be what decides about a retry"""


class B6(BaseException):
    pass


class S7(StopIteration):
    """generator-protocol class, OUTSIDE the statement (INCLUDE_SPECIAL_CLS): leaves a generator / coroutine as RuntimeError"""


class G8(GeneratorExit):
    """generator-protocol class, OUTSIDE the statement (INCLUDE_SPECIAL_CLS): ends an asynq task with the value None"""


EXC = {1: E1, 2: E2, 3: E3, 4: E4, 5: B5, 6: B6, 7: S7, 8: G8}
ALL_CLS = [1, 2, 3, 4, 5, 6]


class TruthyObj(object):
    pass


class FalsyBool(object):
    def __bool__(self):
        return False


class FalsyLen(object):
    def __len__(self):
        return 0


class TruthyLen(object):
    def __len__(self):
        return 3


TRUTHY = [True, 1, "x", (0,), TruthyObj(), [0], -1, 2, 0.5, TruthyLen(), {0: 0}]
FALSY = [False, 0, None, "", (), FalsyBool(), FalsyLen(), 0.0, [], {}, b""]


def exc_res(e, raised=None, inst=0):
    if raised is not None and id(e) in raised:
        return "(raised user %d %d)" % raised[id(e)]
    t = type(e)
    if t is RuntimeError and str(e).endswith("raised StopIteration") and isinstance(e.__cause__, S7):
        # PEP 479: a scripted StopIteration (class 7) that left a generator / coroutine frame; the model's class token
        # of RuntimeError is 9, its "instance" the attempt that raised (aretry) / 0 (collection helpers)
        return "(raised user 9 %d)" % inst
    if t is TypeError:
        return "(raised typeError)"
    if t is ValueError:
        return "(raised valueError)"
    if t is AssertionError:
        return "(raised assertionError)"
    return "(raised other %s)" % t.__name__


def case_hash(case):
    return hashlib.sha1(json.dumps({k: v for k, v in case.items() if k != "id"},
                                   sort_keys=True).encode()).hexdigest()[:16]


def run_case(case):
    import asyncio
    import threading
    import time

    import asynq
    from asynq import batching, tools
    from asynq.futures import ConstFuture, ErrorFuture

    class State(object):
        cur = None
        flushes = []
        calls = 0

    st = State()
    st.flushes = []

    class HBatch(batching.BatchBase):
        def _try_switch_active_batch(self):
            if st.cur is self:
                st.cur = None

        def _flush(self):
            st.flushes.append(len(self.items))
            for it in self.items:
                it.set_value(it.val)

        def _cancel(self):
            pass

    class HItem(batching.BatchItemBase):
        def __init__(self, val=None):
            if st.cur is None:
                st.cur = HBatch()
            super(HItem, self).__init__(st.cur)
            self.val = val

    sv = asynq.AsyncScopedValue(0)
    st.sv = sv
    st.ctx_log = []

    class CountingContext(asynq.AsyncContext):
        def resume(self):
            st.ctx_log.append(1)

        def pause(self):
            st.ctx_log.append(-1)

    def call(fn, args, kwargs):
        """the ways of invoking an async function"""
        form = case["form"]
        if form == "call":
            return fn(*args, **kwargs)
        if form == "asynq":
            return fn.asynq(*args, **kwargs).value()
        if form == "asyncio":
            # under an asyncio event loop: no asynq scheduler, no batch
            return asyncio.run(fn.asyncio(*args, **kwargs))
        if form == "asyncio_nested":
            @asynq.asynq()
            def aio_outer():
                r = yield fn.asynq(*args, **kwargs)
                return r
            return asyncio.run(aio_outer.asyncio())
        if form == "acall":
            # asynq.async_call: "use this if you are not sure if fn is async or not"
            @asynq.asynq()
            def acall_outer():
                r = yield asynq.async_call.asynq(fn, *args, **kwargs)
                return r
            return acall_outer()
        if form == "ctx":
            # tools.call_with_context: the helper runs inside an AsyncContext that is paused / resumed around its yields
            r = tools.call_with_context(CountingContext(), fn, *args, **kwargs)
            if sum(st.ctx_log) != 0 or not st.ctx_log:
                raise HarnessObjectError("context left %r" % (st.ctx_log,))
            return r
        if form == "scoped":
            # inside an AsyncScopedValue override: every per-element call must see the overridden value
            @asynq.asynq()
            def scoped_outer():
                with sv.override(7):
                    r = yield fn.asynq(*args, **kwargs)
                return r
            return scoped_outer()
        if form == "otherthread":
            # another thread is in the middle of a helper invocation of its own (stuck inside its first key call)
            started, release, other = threading.Event(), threading.Event(), []

            @asynq.asynq()
            def slow(x):
                if x == 0:
                    started.set()
                    release.wait(20)
                return x + 1

            def other_target():
                try:
                    other.append(tools.asorted([2, 0, 1], key=tools.deduplicate()(slow)))
                except BaseException as e:
                    other.append(e)
            th = threading.Thread(target=other_target)
            th.start()
            started.wait(20)
            try:
                return fn(*args, **kwargs)
            finally:
                release.set()
                th.join()
                if other != [[0, 1, 2]]:
                    raise HarnessObjectError("the other thread got %r" % (other,))
        if form == "thread":
            # a fresh thread: its own scheduler state
            box = []

            def target():
                try:
                    box.append((True, fn(*args, **kwargs)))
                except BaseException as e:
                    box.append((False, e))
            th = threading.Thread(target=target)
            th.start()
            th.join()
            if box[0][0]:
                return box[0][1]
            raise box[0][1]

        @asynq.asynq()
        def outer():
            r = yield fn.asynq(*args, **kwargs)
            return r
        if form == "nested":
            return outer()

        @asynq.asynq()
        def outer2():
            r = yield outer.asynq()
            return r

        @asynq.asynq()
        def outer3():
            r = yield outer2.asynq()
            return r
        if form == "nested3":
            return outer3()
        raise ValueError(form)

    helper = case["helper"]
    if helper == "aretry":
        return run_retry(case, st, HItem, call, asynq, tools, time, ConstFuture, ErrorFuture)

    # ---- universe: token -> object ------------------------------------------------------------
    objs = []
    for u in case["univ"]:
        k = u["k"]
        eq, rr = u.get("eq", 0), u.get("rr", 0)
        if k == "int":
            o = u["ord"]
        elif k == "intsub":
            o = elem_cls(IntSub, 0, rr)(u["ord"])
        elif k == "ord":
            o = elem_cls(Ord, eq, rr)(u["ord"], u["truthy"])
        elif k == "none":
            o = None
        elif k == "opaque":
            o = elem_cls(Opaque, eq, rr)(u["truthy"])
        else:
            raise ValueError(k)
        if bool(o) != bool(u["truthy"]):
            raise ValueError("inconsistent universe entry %r" % (u,))
        objs.append(o)
    tok = {}
    for t, o in enumerate(objs):
        if id(o) in tok:
            raise ValueError("two tokens for one object")
        tok[id(o)] = t
    attr = {id(o): u for o, u in zip(objs, case["univ"])}

    def pred_obj(x):
        u = attr[id(x)]
        t = tok[id(x)]
        return TRUTHY[t % len(TRUTHY)] if u["pred"] else FALSY[t % len(FALSY)]

    # the key results: ints, or (keyk) instances of an int subclass / floats of the same value - one object per element
    keyk = case.get("keyk", 0)
    keyobjs = {}
    keyval = {}
    for o, u in zip(objs, case["univ"]):
        kv = u["key"]
        ko = kv if keyk == 0 else IntSub(kv) if keyk == 1 else float(kv)
        keyobjs[id(o)] = ko
        keyval[id(ko)] = kv

    fnk = case.get("fnk", "plain")
    aio = case["form"] in FORMS_AIO
    is_mock = fnk in FN_MOCK
    # an EAGER function runs its body inside function.asynq(elt); @async_proxy is one under the asynq scheduler only
    # (a replacement given as a plain function is wrapped by asynq.mock into an @asynq(sync_fn=..) function and, being
    # reached through the class, is re-bound on every access: its .asynq is the ordinary lazy one)
    eager = (is_mock and fnk != "mockfn") or (fnk == "proxy" and not aio)
    raised = {}
    keep = []

    def eff_blocks(u):
        """does the per-element call suspend?  a mock replacement cannot; a proxy under asyncio returns a ConstFuture"""
        if is_mock or (fnk == "proxy" and aio):
            return 0
        return u["blocks"]

    def maybe_fail(x):
        """the key / predicate raises for this element (also the synchronous equivalent does)"""
        c = attr[id(x)].get("fails")
        if c:
            e = EXC[c]("bad element")
            raised[id(e)] = (c, 0)
            keep.append(e)
            raise e

    def sync_key(x):
        maybe_fail(x)
        return keyobjs[id(x)]

    def sync_pred(x):
        maybe_fail(x)
        return pred_obj(x)

    mid = case.get("mid")
    dbg_saved = {}

    def pre(x):
        """start of every per-element body"""
        st.calls += 1
        if mid and st.calls == mid[0] + 1:
            # something switched on / collected in MID-FLIGHT: after some per-element calls were issued or ran
            if mid[1] == "gc":
                import gc
                gc.collect()
            else:
                o = asynq.debug.options
                if mid[1] not in dbg_saved:
                    dbg_saved[mid[1]] = getattr(o, mid[1])
                setattr(o, mid[1], not dbg_saved[mid[1]])
        if case["form"] == "scoped" and sv.get() != 7:
            raise HarnessObjectError("scoped value lost")

    @asynq.asynq()
    def tick():
        return None

    def waits(x):
        """what a lazy body yields before it ends"""
        u = attr[id(x)]
        if not eff_blocks(u):
            return []
        if aio:
            # an event-loop round trip: a gathered child (batch items are refused under asyncio)
            return [lambda: [tick.asynq()]] * (1 + u.get("delay", 0))
        return [blocker]

    dbi = case.get("dbi", 0) and not aio
    dbi_name = "c14-%d-%x" % (case.get("id", 0), id(st))
    dbi_items = []

    def blocker(val=None):
        """what a per-element call blocks on: an item of the harness batch, or (dbi) the library's own DebugBatchItem"""
        if not dbi:
            return HItem(val)
        it = batching.DebugBatchItem(dbi_name, val)
        dbi_items.append(it)
        return it

    def dbi_flushes():
        """sizes of the flushed debug batches the per-element calls blocked on, in batch order"""
        by = {}
        for it in dbi_items:
            if it.batch.is_flushed():
                by.setdefault(it.batch.index, []).append(it)
        return [len(by[k]) for k in sorted(by)]

    def make_fn(result_of):
        """the async key / predicate as an object of the kind the case asks for"""
        @asynq.asynq()
        def lazy_fn(x):
            pre(x)
            for w in waits(x):
                yield w()
            maybe_fail(x)
            return result_of(x)

        def direct(x):
            """the body of an eager function"""
            pre(x)
            maybe_fail(x)
            return result_of(x)

        if fnk == "plain":
            return lazy_fn
        if fnk == "falsy":
            return FnBool(lazy_fn, 0, 0)
        if fnk == "eqall":
            return FnBool(lazy_fn, 1, 1)
        if fnk == "falsyeq":
            return FnBool(lazy_fn, 0, 1)
        if fnk == "empty":
            return FnLen(lazy_fn)
        if fnk == "proxy":
            # an eager async function: the body runs while the request is issued and hands back a future
            @asynq.async_proxy()
            def eager_fn(x):
                r = direct(x)
                if eff_blocks(attr[id(x)]):
                    return blocker(r)
                return ConstFuture(r)
            return eager_fn
        if fnk in ("method", "methodcopy", "bindercopy"):
            class Table(object):
                def __len__(self):
                    return 0

                @asynq.asynq()
                def look(self, x):
                    pre(x)
                    for w in waits(x):
                        yield w()
                    maybe_fail(x)
                    return result_of(x)
            if fnk == "methodcopy":
                import copy
                return copy.copy(Table()).look       # the wrapper bound to a COPY of the instance
            if fnk == "bindercopy":
                import copy
                return copy.copy(Table().look)       # a copy of the bound wrapper itself
            return Table().look
        if fnk in ("static", "classm"):
            class Holder(object):
                @asynq.asynq()
                @staticmethod
                def slook(x):
                    pre(x)
                    for w in waits(x):
                        yield w()
                    maybe_fail(x)
                    return result_of(x)

                @asynq.asynq()
                @classmethod
                def clook(cls, x):
                    pre(x)
                    for w in waits(x):
                        yield w()
                    maybe_fail(x)
                    return result_of(x)
            return Holder.slook if fnk == "static" else Holder().clook
        if fnk == "aiofn":
            # an explicit asyncio version (asyncio_fn=): used under an event loop instead of the generator
            async def coro(x):
                pre(x)
                u = attr[id(x)]
                if eff_blocks(u):
                    for _ in range(1 + u.get("delay", 0)):
                        await asyncio.sleep(0)
                maybe_fail(x)
                return result_of(x)

            @asynq.asynq(asyncio_fn=coro)
            def with_aio(x):
                pre(x)
                for w in waits(x):
                    yield w()
                maybe_fail(x)
                return result_of(x)
            return with_aio
        if fnk == "dedup":
            return tools.deduplicate()(lazy_fn)
        if fnk == "alru":
            return tools.alru_cache(maxsize=100000)(lazy_fn)
        if fnk == "wrapped":
            # asynq.make_async_decorator: "for implementing decorators that wrap async functions"
            return asynq.make_async_decorator(lazy_fn, lambda *a, **k: lazy_fn.asynq(*a, **k), "harness_wrapper")
        if is_mock:
            # the library's own way to stub an async function: asynq.mock.patch attaches .asynq / .asyncio
            class Service(object):
                @asynq.asynq()
                @staticmethod
                def score(x):
                    raise HarnessObjectError("the real backend was reached")

            class CallableObj(object):
                def __call__(self, x):
                    return direct(x)
            if fnk == "mock":
                cm = asynq.mock.patch.object(Service, "score")
            elif fnk == "mockspec":
                cm = asynq.mock.patch.object(Service, "score", autospec=True)
            elif fnk == "mockfn":
                cm = asynq.mock.patch.object(Service, "score", lambda x: direct(x))
            else:
                cm = asynq.mock.patch.object(Service, "score", CallableObj())
            m = cm.__enter__()
            cleanup.append(lambda: cm.__exit__(None, None, None))
            if fnk in ("mock", "mockspec"):
                m.side_effect = direct
            return Service.score
        raise ValueError(fnk)

    cleanup = []
    akey = make_fn(lambda x: keyobjs[id(x)])
    apred = make_fn(pred_obj)

    elems = [objs[t] for t in case["items"]]

    def make_src():
        return build_src(case["src"], elems, case.get("gen", 0), case.get("src_falsy", 0))

    def tl(xs):
        return "(%s)" % " ".join(str(tok.get(id(x), UNKNOWN)) for x in xs)

    def enc(value):
        """canonical form of a helper's / built-in's return value"""
        if helper == "amap":
            if type(value) is list and all(id(v) in keyval or type(v) is int for v in value):
                return "(ok vals (%s))" % " ".join(str(keyval.get(id(v), v)) for v in value)
            if type(value) is list and all(v is None or id(v) in keyval or type(v) is int for v in value):
                # None where a per-element task was ended by GeneratorExit (INCLUDE_SPECIAL_CLS only)
                return "(ok ovals (%s))" % " ".join("none" if v is None else str(keyval.get(id(v), v)) for v in value)
        if value is None and helper != "amax" and helper != "amin":
            return "(ok none)"                 # an eager key raised GeneratorExit inside the helper's own frame
        elif helper in ("afilter", "afilterfalse", "asorted"):
            if type(value) is list:
                return "(ok elems %s)" % tl(value)
        elif helper in ("amax", "amin"):
            if value is DFLT:
                return "(ok dflt)"
            return "(ok elem %d)" % tok.get(id(value), UNKNOWN)
        elif helper == "asift":
            if type(value) is tuple and len(value) == 2 and type(value[0]) is list and type(value[1]) is list:
                return "(ok pair %s %s)" % (tl(value[0]), tl(value[1]))
        return "(raised other BadResult-%s)" % type(value).__name__

    key_none = case.get("key_none", 0)
    fn_none = case.get("fn_none", 0)
    rev = bool(case.get("rev", 0))
    style = case.get("argstyle", "std")

    def invoke(sync):
        """sync=False: the asynq helper;  sync=True: the Python built-in with the synchronous equivalent"""
        if helper == "amap":
            if sync:
                return list(map(sync_key, make_src()))
            if style == "kw":
                return call(tools.amap, (), {"function": akey, "sequence": make_src()})
            return call(tools.amap, (akey, make_src()), {})
        if helper == "afilter":
            if sync:
                return list(filter(None if fn_none else sync_pred, make_src()))
            f = None if fn_none else apred
            if style == "kw":
                return call(tools.afilter, (), {"function": f, "sequence": make_src()})
            return call(tools.afilter, (f, make_src()), {})
        if helper == "afilterfalse":
            if sync:
                return list(itertools.filterfalse(sync_pred, make_src()))
            if style == "kw":
                return call(tools.afilterfalse, (), {"function": apred, "sequence": make_src()})
            return call(tools.afilterfalse, (apred, make_src()), {})
        if helper == "asorted":
            if sync:
                return sorted(make_src(), key=None if key_none else sync_key, reverse=rev)
            f = None if key_none else akey
            if style == "pos":
                return call(tools.asorted, (make_src(), f, rev), {})
            kw = {"reverse": rev}
            if key_none != 1:
                kw["key"] = f                  # key_none == 2: an explicit key=None
            if style == "kw":
                kw["iterable"] = make_src()
                return call(tools.asorted, (), kw)
            return call(tools.asorted, (make_src(),), kw)
        if helper in ("amax", "amin"):
            args = tuple(elems) if case["args"] == "elems" else (make_src(),)
            kw = {}
            if not key_none:
                kw["key"] = sync_key if sync else akey
            elif key_none == 2:
                kw["key"] = None
            if case.get("bad_kw") == 1:
                kw["bogus"] = 1                # a keyword neither max / min nor amax / amin know
            elif case.get("bad_kw") == 2:
                kw["default"] = DFLT           # max / min accept it, amax / amin do not (outside the statement)
            if sync:
                return (max if helper == "amax" else min)(*args, **kw)
            return call(tools.amax if helper == "amax" else tools.amin, args, kw)
        if helper == "asift":
            if sync:
                seq = list(make_src())
                return ([x for x in seq if sync_pred(x)], [x for x in seq if not sync_pred(x)])
            if style == "kw":
                return call(tools.asift, (), {"pred": apred, "items": make_src()})
            return call(tools.asift, (apred, make_src()), {})
        raise ValueError(helper)

    def outcome(thunk):
        """result or exception of an invocation as an observation (the scripted exceptions of a key may derive from
        BaseException only; anything else that is not an Exception - the worker's timeout - is not an observation)"""
        try:
            return enc(thunk())
        except BaseException as e:
            if not isinstance(e, Exception) and id(e) not in raised:
                raise
            return exc_res(e, raised)

    import io
    sink = (asynq.debug.stdout, asynq.debug.stderr)
    asynq.debug.stdout = io.StringIO()       # the DUMP_* options write there; keep it out of the worker's pipe
    asynq.debug.stderr = io.StringIO()
    try:
        builtin = outcome(lambda: invoke(True))

        # ---- what happened before on this thread, with the same function objects -----------------------
        warm = case.get("warm", 0)
        if warm == 1:
            outcome(lambda: invoke(False))
        elif warm == 2:
            try:
                call(tools.amax, ((),), {"key": akey})          # ValueError after the (empty) round of key calls
            except ValueError:
                pass
            try:
                call(tools.asift, (apred, NotIterable()), {})    # TypeError before anything is called
            except TypeError:
                pass
        elif warm == 3:
            @asynq.asynq()
            def bad(x):
                yield HItem()
                if x == 1:
                    raise E1("warm-up")
                return x
            try:
                call(tools.amap, (bad, [0, 1, 2]), {})
            except E1:
                pass

        # the function object as Python sees it NOW (a memo table may have become non-empty)
        fobj = None if (fn_none if helper == "afilter" else key_none) else (apred if helper in ("afilter", "afilterfalse", "asift") else akey)
        ftok = fn_token(fobj)
        fauto = fn_auto(fobj)

        st.cur, st.flushes, st.calls, st.ctx_log = None, [], 0, []
        del dbi_items[:]
        res = outcome(lambda: invoke(False))   # the outcome of the invocation, not a harness failure
        flushes, calls = (dbi_flushes() if dbi else list(st.flushes)), st.calls
    finally:
        asynq.debug.stdout, asynq.debug.stderr = sink
        for o, v in dbg_saved.items():
            setattr(asynq.debug.options, o, v)
        for f in reversed(cleanup):
            f()

    # ---- protocol lines --------------------------------------------------------------------------
    lines = ["(case tools %d %s)" % (case["id"], helper)]
    lines.append("(univ %s)" % " ".join(
        "(%d %d %d %s %d %s %d)" % (u["key"], u["pred"], u["truthy"], "none" if u["ord"] is None else u["ord"],
                                   eff_blocks(u), u.get("fails") or "none", u.get("delay", 0))
        for u in case["univ"]))
    lines.append("(ext %s %d %d)" % ("asyncio" if aio else "asynq", 1 if eager else 0, fauto))
    items = "(%s)" % " ".join(str(t) for t in case["items"])
    srcx = "(src %s %s)" % (SRC_MODEL[case["src"]], items)
    if helper == "amap":
        lines.append("(call amap %s)" % srcx)
    elif helper == "afilter":
        lines.append("(call afilter %s %s)" % (ftok, srcx))
    elif helper == "afilterfalse":
        lines.append("(call afilterfalse %s)" % srcx)
    elif helper == "asorted":
        lines.append("(call asorted %s %d %s)" % (ftok, 1 if rev else 0, srcx))
    elif helper in ("amax", "amin"):
        a = "(elems %s)" % items if case["args"] == "elems" else "(one %s)" % srcx
        lines.append("(call amaxmin %d %d %s %s)" % (1 if helper == "amin" else 0, case.get("bad_kw", 0), ftok, a))
    elif helper == "asift":
        lines.append("(call asift %s)" % srcx)
    lines.append("(obs %s (flushes%s) %d 0)" % (res, "".join(" %d" % f for f in flushes), calls))
    lines.append("(builtin %s)" % builtin)
    lines.append("(end)")

    # ---- features -------------------------------------------------------------------------------
    n = len(case["items"])
    nblock = sum(1 for t in case["items"] if case["univ"][t]["blocks"])
    toks = set(case["items"])
    keyof = (lambda t: case["univ"][t]["ord"]) if key_none else (lambda t: case["univ"][t]["key"])
    ks = [keyof(t) for t in toks]
    ties = len(set(ks)) < len(ks)
    feats = ["helper=" + helper, "src=" + case["src"], "form=" + case["form"],
             "size<=%d" % next(b for b in (0, 1, 3, 8, 16, 256, 10 ** 9) if n <= b),
             "blocking=" + ("none" if nblock == 0 else "all" if nblock == n else "mixed"),
             "outcome=" + (res.split()[1].rstrip(")") if res.startswith("(raised") else "ok"),
             "flushes=%d" % min(len(flushes), 3),
             "fn-object=" + (fnk if fobj is not None else "None"), "fn-token=" + ftok.replace(" ", "_"),
             "argstyle=" + style, "warm=%d" % warm, "keyk=%d" % keyk]
    feats.append("engine=" + ("asyncio" if aio else "asynq"))
    feats.append("fn-eager=%d" % (1 if eager else 0))
    if fauto:
        feats.append("fn-answers-any-attribute")
    nf = sum(1 for t in case["items"] if case["univ"][t].get("fails"))
    feats.append("failing-keys=%d" % min(nf, 3))
    if nf >= 2 and len(set(case["univ"][t]["fails"] for t in case["items"] if case["univ"][t].get("fails"))) >= 2:
        feats.append("failing-keys-of-two-classes")
    if mid:
        feats.append("mid-flight=" + mid[1])
    if dbi:
        feats.append("blocks-on-DebugBatchItem")
    if ties:
        feats.append("ties")
    if len(toks) < n:
        feats.append("same-object-twice")
    if any(case["univ"][t]["k"] in ("none", "opaque") for t in toks):
        feats.append("unorderable-values")
    if any(case["univ"][t]["k"] == "none" for t in toks):
        feats.append("None-element")
    if any(case["univ"][t]["k"] == "intsub" for t in toks):
        feats.append("int-subclass-element")
    for t in toks:
        if case["univ"][t].get("eq"):
            feats.append("elem-eq=%d" % case["univ"][t]["eq"])
        if case["univ"][t].get("rr"):
            feats.append("elem-repr-raises")
    for f in ("fn_none", "rev", "gen", "src_falsy"):
        if case.get(f):
            feats.append(f)
    if case.get("bad_kw"):
        feats.append("bad_kw" if case["bad_kw"] == 1 else "default_kw")
    if key_none:
        feats.append("key_none=%d" % key_none)
    if helper in ("amax", "amin"):
        feats.append("args=" + case["args"])
    feats = sorted(set(feats))
    nontrivial = None
    if n >= 2 and (ties or nblock >= 1) and not res.startswith("(raised"):
        nontrivial = case_hash(case)
    return {"lines": lines, "features": feats, "nontrivial": nontrivial}


def run_retry(case, st, HItem, call, asynq, tools, time, ConstFuture, ErrorFuture):
    phase = {"script": case["script"]}
    raised = {}
    keep = []
    A, B = object(), object()
    ok_args = [True]
    import asyncio  # noqa: F401  (the call forms use it)
    body_kind = case.get("body", "gen")
    aio = case["form"] in FORMS_AIO
    blocking = 1 if (case["blocking"] and body_kind != "plain") else 0   # a plain function cannot block
    if aio and BODY_MODEL[body_kind] == "eager":
        blocking = 0                           # batch items are refused under asyncio: an eager body hands back a ConstFuture
    # under asyncio the call of an @async_proxy function becomes a coroutine of its own: the body no longer runs inside
    # aretry's frame (with blocking = 0 the two kinds differ for generator-protocol classes only, INCLUDE_SPECIAL_CLS)
    model_kind = "lazy" if (aio and body_kind in ("proxy", "proxyerr")) else BODY_MODEL[body_kind]
    mid = case.get("mid")
    dbg_saved = {}

    @asynq.asynq()
    def tick():
        return None

    def wait():
        """what a lazy blocking body yields: the harness batch, or (asyncio) an event-loop round trip"""
        return [tick.asynq()] if aio else HItem()

    def attempt(a, b):
        """one run of the body up to the point where it knows what to do: ('ret', v) or ('raise', exception)"""
        i = st.calls
        st.calls += 1
        if a is not A or b is not B:
            ok_args[0] = False
        if mid and i == mid[0]:
            # something switched on / collected in MID-FLIGHT, between two attempts
            if mid[1] == "gc":
                import gc
                gc.collect()
            else:
                o = asynq.debug.options
                if mid[1] not in dbg_saved:
                    dbg_saved[mid[1]] = getattr(o, mid[1])
                setattr(o, mid[1], not dbg_saved[mid[1]])
        script = phase["script"]
        step = script[i] if i < len(script) else ["ret", 0]
        if step[0] == "ret":
            return ("ret", step[1])
        e = EXC[step[1]]("attempt %d" % i)
        raised[id(e)] = (step[1], i)
        keep.append(e)
        return ("raise", e)

    def eager(a, b=None):
        what, x = attempt(a, b)
        if what == "raise":
            if body_kind == "proxyerr":
                return ErrorFuture(x)          # raised when the future is yielded
            raise x                            # raised while the request is being issued
        return HItem(x) if blocking else ConstFuture(x)

    if body_kind == "gen":
        @asynq.asynq()
        def body(a, b=None):
            what, x = attempt(a, b)
            if blocking:
                yield wait()
            if what == "raise":
                raise x
            return x
    elif body_kind == "plain":
        @asynq.asynq()
        def body(a, b=None):
            what, x = attempt(a, b)
            if what == "raise":
                raise x
            return x
    elif body_kind in ("method", "methodcopy"):
        @asynq.asynq()
        def body(self, a, b=None):
            what, x = attempt(a, b)
            if blocking:
                yield wait()
            if what == "raise":
                raise x
            return x
    elif body_kind in ("proxy", "proxyerr"):
        body = asynq.async_proxy()(eager)
    elif body_kind == "duck":
        class Duck(object):
            """a falsy object with a hand-written .asynq"""

            def __len__(self):
                return 0

            def asynq(self, a, b=None):
                return eager(a, b)

            def __call__(self, a, b=None):
                return eager(a, b).value()
        body = Duck()
    else:
        raise ValueError(body_kind)

    listed = tuple(EXC[c] for c in case["listed"])
    if case.get("base_all"):
        if sorted(case["listed"]) != ALL_CLS:
            raise ValueError("base_all needs every class listed")
        listed = BaseException if case.get("single_cls") else (BaseException,)
    elif len(listed) == 1 and case.get("single_cls"):
        listed = listed[0]
    # argstyle "dflt": aretry(exception_cls) alone - max_tries and sleep are the documented defaults (10, 0.05)
    sleep_arg = 0.05 if case.get("argstyle") == "dflt" else 0.0125
    sleeps = [0]

    def fake_sleep(x):
        sleeps[0] += 1 if x == sleep_arg else 1000

    style = case.get("argstyle", "std")

    shared = case.get("shared", 0)
    decoy_runs = [0]

    decoy_cls = next((c for c in case["listed"] if c <= 6), None)   # (7, 8: outside the statement, INCLUDE_SPECIAL_CLS)

    @asynq.asynq()
    def decoy_body(a, b=None):
        decoy_runs[0] += 1
        raise EXC[decoy_cls or 3]("decoy")

    def run_decoy(decoy):
        """ANOTHER function decorated by the same decorator object, run until it gives up"""
        try:
            decoy(A, b=B)
        except BaseException as e:
            if not isinstance(e, (E1, E2, E3, B5, B6)):
                raise
        st.cur, st.flushes, sleeps[0] = None, [], 0

    def decorate():
        if style == "pos":
            deco = tools.aretry(listed, case["max"], sleep_arg)
        elif style == "dflt":
            deco = tools.aretry(listed)
        elif style == "kw":
            deco = tools.aretry(exception_cls=listed, max_tries=case["max"], sleep=sleep_arg)
        else:
            deco = tools.aretry(listed, max_tries=case["max"], sleep=sleep_arg)
        decoy = deco(decoy_body) if shared == 1 else None     # one decorator OBJECT applied to several functions
        if shared == 1:
            run_decoy(decoy)
        if body_kind in ("method", "methodcopy"):
            svc = type("Svc", (object,), {"__len__": lambda self: 0, "fetch": deco(body)})()
            if body_kind == "methodcopy":
                import copy
                svc = copy.copy(svc)
            w = svc.fetch
        else:
            w = deco(body)
        if shared == 2:
            decoy = deco(decoy_body)
        return w, decoy

    import io
    real_sleep = time.sleep
    time.sleep = fake_sleep   # scripted clock: aretry must not really sleep, and its sleeps are counted
    sink = (asynq.debug.stdout, asynq.debug.stderr)
    asynq.debug.stdout = io.StringIO()
    asynq.debug.stderr = io.StringIO()
    try:
        try:
            wrapped, decoy = decorate()
            if case.get("warm"):
                # a previous invocation of the SAME decorated function on this thread
                phase["script"] = case["warm"]
                try:
                    call(wrapped, (A,), {"b": B})
                except BaseException as e:
                    if id(e) not in raised and not (type(e) is RuntimeError and isinstance(e.__cause__, S7)):
                        raise
                phase["script"] = case["script"]
                st.cur, st.flushes, st.calls, sleeps[0] = None, [], 0, 0
                raised.clear()
            if shared == 2:
                run_decoy(decoy)
            st.ctx_log = []
            v = call(wrapped, (A,), {"b": B})
            if v is None:
                res = "(ok none)"
            elif type(v) is int:
                res = "(ok val %d)" % v
            else:
                res = "(raised other BadResult-%s)" % type(v).__name__
        except BaseException as e:
            # the body's scripted exceptions may derive from BaseException only; anything else that is not an
            # Exception (the worker's per-case timeout, KeyboardInterrupt) is not an observation
            if not isinstance(e, Exception) and id(e) not in raised:
                raise
            res = exc_res(e, raised, max(st.calls - 1, 0))
    finally:
        time.sleep = real_sleep
        asynq.debug.stdout, asynq.debug.stderr = sink
        for o, val in dbg_saved.items():
            setattr(asynq.debug.options, o, val)
    if not ok_args[0]:
        res = "(raised other ArgumentsNotForwarded)"
    if shared and decoy_runs[0] != max(case["max"], 1) and case["max"] > 0 and decoy_cls:
        res = "(raised other DecoyRan-%d)" % decoy_runs[0]
    lines = ["(case tools %d aretry)" % case["id"], "(univ)", "(ext %s 0 0)" % ("asyncio" if aio else "asynq")]
    lines.append("(call aretry %d (%s) (script %s) %d %s)" % (
        case["max"], " ".join(str(c) for c in case["listed"]),
        " ".join("(%s %d)" % (s[0], s[1]) for s in case["script"]), blocking, model_kind))
    lines.append("(obs %s (flushes%s) %d %d)" % (res, "".join(" %d" % f for f in st.flushes), st.calls, sleeps[0]))
    lines.append("(end)")
    feats = ["helper=aretry", "form=" + case["form"], "max_tries=%d" % min(case["max"], 7), "runs=%d" % min(st.calls, 7),
             "blocking=" + ("all" if blocking else "none"), "body=" + body_kind, "argstyle=" + style,
             "engine=" + ("asyncio" if aio else "asynq"), "shared-decorator=%d" % shared,
             "outcome=" + (res.split()[1].rstrip(")") if res.startswith("(raised") else "ok")]
    if case["max"] > 10:
        feats.append("max_tries>10")
    if case.get("warm"):
        feats.append("second-use")
    if mid:
        feats.append("mid-flight=" + mid[1])
    nontrivial = None
    if st.calls >= 2:
        nontrivial = case_hash(case)
    return {"lines": lines, "features": feats, "nontrivial": nontrivial}
