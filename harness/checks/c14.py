"""C14  Collection helpers equal their built-in counterparts, in one batching round.

One invocation of amap / afilter / afilterfalse / asorted / amax / amin / asift / aretry per case, run on the real
asynq.tools with an async key / predicate built on a batch the harness defines (so flushes can be counted).
Three-way comparison per case, done by the Lean driver:
  * CORR : the Lean model of tools.py (AsynqModel.Lib.Tools, line-by-line) gives exactly the observation the real
           helper gave (result or exception class, number of key calls, sizes of the flushes, sleeps), and the
           PYTHON BUILT-IN run by the harness on the same input gives what the Lean reference functions
           (List.map / filter / mergeSort / first extreme / partition) give;
  * SPEC : the Lean observer `Tools.spec` (= the statement of C14, proved of the model for all inputs by
           C14_spec_holds) judges the implementation's observation on its own."""
import hashlib
import itertools
import json
import random

PID = "C14"
LEVEL = "proof"
LEAN_MODULES = ["AsynqModel.Theorems.C14"]
THEOREMS = [
    "AsynqModel.Tools.C14_spec_holds",
    "AsynqModel.Tools.C14_spec_true",
    "AsynqModel.Tools.C14_amap",
    "AsynqModel.Tools.C14_afilter",
    "AsynqModel.Tools.C14_afilterfalse",
    "AsynqModel.Tools.C14_asorted_stable",
    "AsynqModel.Tools.C14_asorted_nokey",
    "AsynqModel.Tools.C14_firstExt_is_first",
    "AsynqModel.Tools.C14_amax_amin_first",
    "AsynqModel.Tools.C14_amax_first",
    "AsynqModel.Tools.C14_amin_first",
    "AsynqModel.Tools.C14_amax_varargs",
    "AsynqModel.Tools.C14_amax_errors",
    "AsynqModel.Tools.C14_asift",
    "AsynqModel.Tools.C14_aretry_count",
    "AsynqModel.Tools.C14_aretry_result",
    "AsynqModel.Tools.C14_aretry_unlisted_immediately",
    "AsynqModel.Tools.C14_one_round",
    "AsynqModel.Tools.C14_one_flush",
]
BUILDS = {"quick": ["py"], "thorough": ["py", "cy"]}
EXHAUSTIVE = {"quick": False, "thorough": False}
RULE = ("one helper invocation per case. Exhaustive core: every key/predicate pattern over {0,1}^n (n<=4 quick, n<=6 "
        "thorough) x every helper variant (amap, afilter fn/None, afilterfalse, asorted key/no key x reverse, amax/amin "
        "key/no key x single-iterable/varargs, asift) x list/tuple/one-shot iterator x blocking/non-blocking key; all "
        "(k, max_tries) pairs with k<=7, max_tries<=6 for aretry x ending (value/unlisted exception) x blocking, with "
        "listed/unlisted classes deriving from Exception, from a listed base class, or from BaseException only (alone, "
        "in a mixed tuple, aretry(BaseException)). "
        "Generated: sizes 0-13 plus long inputs (257-1100 elements, for chunked issuing), elements = ints, orderable "
        "objects with equal order but distinct identity, None, unorderable objects, duplicates of the same object, "
        "equal keys, per-element blocking, call forms f(..) / f.asynq(..).value() / yielded from an outer task, "
        "malformed calls (no argument, one non-iterable argument, unexpected keyword, non-iterable input, unorderable "
        "values without key, max_tries=0). Non-trivial = at least 2 elements and (two distinct elements with equal "
        "keys or a blocking key call), or an aretry case with at least one retry; distinct by hash of the case")
TRUSTED = [
    "hand-written Lean model AsynqModel.Lib.Tools tied to asynq/tools.py by this differential run only",
    "Lean counterparts of the CPython built-ins sorted/max/min/zip/enumerate/filter/itertools.compress "
    "(pySorted, pyExt, ..): validated on every case by comparing the real built-in's result with the Lean reference",
    "Python harness checks/c14.py (token <-> object identity mapping, harness batch that records flush sizes, "
    "time.sleep replaced by a counter)",
    "scheduler contract that the blocking tasks of one yield share one flush (properties C04/C05)",
]
ASSUMPTIONS = [
    "the async key / predicate is a function of the element, blocks at most once on one batch and does not raise",
    "keys are integers (a total order); values without key are ordered by an integer or not orderable at all",
    "single thread, asynq (not asyncio) mode; afilterfalse(None, ..) is outside the statement (no async predicate)",
]
CASE_TIMEOUT = 30
UNKNOWN = 999999
SRC_KINDS = ["list", "tuple", "iterator"]
FORMS = ["call", "asynq", "nested"]
HELPERS = ["amap", "afilter", "afilterfalse", "asorted", "amax", "amin", "asift"]


# ---------------------------------------------------------------------------------------------------
# generation
# ---------------------------------------------------------------------------------------------------

def elem(kind, key, pred, blocks, order=None, truthy=None):
    """one universe entry; the token is its index in the universe"""
    if kind == "int":
        truthy = 1 if order != 0 else 0
    elif kind == "none":
        truthy, order = 0, None
    elif kind == "opaque":
        order = None
        truthy = 1 if truthy is None else truthy
    elif kind == "ord":
        truthy = 1 if truthy is None else truthy
    return {"k": kind, "key": key, "pred": pred, "truthy": truthy, "ord": order, "blocks": blocks}


def base_case(helper, univ, items, src="list", **kw):
    c = {"helper": helper, "univ": univ, "items": items, "src": src, "gen": 0, "form": "call",
         "fn_none": 0, "key_none": 0, "rev": 0, "bad_kw": 0, "args": "one"}
    c.update(kw)
    return c


def variants():
    """every helper variant of the exhaustive core"""
    yield "amap", {}
    yield "afilter", {}
    yield "afilter", {"fn_none": 1}
    yield "afilterfalse", {}
    for rev in (0, 1):
        yield "asorted", {"rev": rev}
        yield "asorted", {"rev": rev, "key_none": 1}
    for h in ("amax", "amin"):
        for kn in (0, 1):
            yield h, {"key_none": kn, "args": "one"}
            yield h, {"key_none": kn, "args": "elems"}
    yield "asift", {}


def core_cases(maxn):
    res = []
    for n in range(maxn + 1):
        for keys in itertools.product((0, 1), repeat=n):
            for blocking in (0, 1):
                # orderable objects whose own order is the key: ties between distinct objects also without key
                univ = [elem("ord", k, k, blocking, order=k, truthy=k) for k in keys]
                for helper, flags in variants():
                    for src in SRC_KINDS:
                        if flags.get("args") == "elems" and src != "tuple":
                            continue
                        res.append(base_case(helper, univ, list(range(n)), src, **flags))
    return res


def retry_case(max_tries, listed, script, blocking, single_cls=0, form="call", base_all=0):
    return {"helper": "aretry", "max": max_tries, "listed": listed, "script": script, "blocking": blocking,
            "single_cls": single_cls, "form": form, "base_all": base_all}


def retry_core():
    res = []
    for m in range(0, 7):
        for k in range(0, 8):
            for ending in (["ret", 7], ["raise", 3]):
                for blocking in (0, 1):
                    script = [["raise", 1 if i % 2 == 0 else 2] for i in range(k)] + [ending]
                    res.append(retry_case(m, [1, 2], script, blocking))
    # listed classes that derive from BaseException only: custom class alone, a tuple mixing both, BaseException itself;
    # and such a class raised while NOT listed (propagates at once)
    for m in range(1, 7):
        for k in range(0, 8):
            for ending in (["ret", 7], ["raise", 3], ["raise", 6]):
                script = [["raise", 5 if i % 2 == 0 else 1] for i in range(k)] + [ending]
                res.append(retry_case(m, [1, 5], script, k % 2))
                res.append(retry_case(m, [5], [["raise", 5]] * k + [ending], 0, single_cls=k % 2))
                res.append(retry_case(m, list(ALL_CLS), [["raise", 1 + (i % 6)] for i in range(k)] + [["ret", 2]],
                                      0, single_cls=k % 2, base_all=1))
    return res


def gen_retry(rng):
    m = rng.choice([0, 1, 1, 2, 3, 4, 5, 6, 10])
    base_all = 1 if rng.random() < 0.08 else 0     # aretry(BaseException): every class is listed
    if base_all:
        listed = list(ALL_CLS)
    else:
        listed = sorted(rng.sample(ALL_CLS, rng.choice([0, 1, 1, 2, 3, 4])))
    n = rng.randint(0, 8)
    script = []
    for _ in range(n):
        if rng.random() < 0.75:
            script.append(["raise", rng.choice(listed) if listed and rng.random() < 0.7 else rng.randint(1, 6)])
        else:
            script.append(["ret", rng.randint(-3, 9)])
    return retry_case(m, listed, script, rng.randint(0, 1), single_cls=rng.randint(0, 1), form=rng.choice(FORMS),
                      base_all=base_all)


def gen_collection(rng, helper=None, size=None):
    helper = helper or rng.choice(HELPERS)
    if size is None:
        size = rng.choice([0, 1, 2, 2, 3, 3, 4, 5, 6, 8, 13])
    flags = {"form": rng.choice(FORMS), "gen": rng.randint(0, 1)}
    src = rng.choice(SRC_KINDS + SRC_KINDS + SRC_KINDS + ["nonIter"]) if rng.random() < 0.5 else rng.choice(SRC_KINDS)
    if helper == "afilter":
        flags["fn_none"] = 1 if rng.random() < 0.3 else 0
    if helper in ("asorted", "amax", "amin"):
        flags["key_none"] = 1 if rng.random() < 0.3 else 0
    if helper == "asorted":
        flags["rev"] = rng.randint(0, 1)
    if helper in ("amax", "amin"):
        flags["args"] = "elems" if rng.random() < 0.4 else "one"
        flags["bad_kw"] = 1 if rng.random() < 0.06 else 0
        if flags["args"] == "elems":
            src = "tuple"
            if rng.random() < 0.25:
                size = rng.choice([0, 1])
    # elements
    nkeys = rng.choice([1, 2, 2, 3, 5, 50])
    blockmode = rng.choice(["all", "none", "mixed"])
    orderable_only = flags.get("key_none") and rng.random() < 0.8
    kinds = ["int", "ord", "ord", "opaque", "none"] if not orderable_only else ["int", "ord", "ord"]
    univ = []
    used_ints = set()
    have_none = False
    nuniv = max(1, size if rng.random() < 0.7 else (size + 1) // 2)
    for _ in range(nuniv):
        kind = rng.choice(kinds)
        key = rng.randint(-2, nkeys - 3)
        pred = rng.randint(0, 1)
        blocks = {"all": 1, "none": 0, "mixed": rng.randint(0, 1)}[blockmode]
        if kind == "none" and have_none:
            kind = "opaque"
        if kind == "int":
            v = rng.randint(-3, 6)
            while v in used_ints:
                v += 7
            used_ints.add(v)
            univ.append(elem("int", key, pred, blocks, order=v))
        elif kind == "ord":
            univ.append(elem("ord", key, pred, blocks, order=rng.randint(-2, nkeys - 3), truthy=rng.randint(0, 1)))
        elif kind == "none":
            have_none = True
            univ.append(elem("none", key, pred, blocks))
        else:
            univ.append(elem("opaque", key, pred, blocks, truthy=rng.randint(0, 1)))
    if nuniv >= size and rng.random() < 0.6:
        items = list(range(size))
        rng.shuffle(items)
    else:
        items = [rng.randrange(nuniv) for _ in range(size)]   # the same object several times
    return base_case(helper, univ, items, src, **flags)


def gen_long(rng, helper, n):
    """long inputs: helpers that issue their per-element calls in chunks need more than one flush"""
    c = gen_collection(rng, helper, size=n)
    c["src"] = rng.choice(SRC_KINDS) if c.get("args") != "elems" else "tuple"
    c["key_none"] = 0
    c["fn_none"] = 0
    c["bad_kw"] = 0
    for u in c["univ"]:
        u["blocks"] = 1
    return c


def corpus():
    import glob
    import os
    res = []
    d = os.path.join(os.path.dirname(os.path.dirname(os.path.dirname(os.path.abspath(__file__)))), "corpus", PID)
    for p in sorted(glob.glob(os.path.join(d, "*.json"))):
        with open(p) as f:
            res.append(json.load(f))
    return res


def plan(tier, seed):
    rng = random.Random(seed * 1000003 + 14)
    cases = corpus()
    cases += core_cases(4 if tier == "quick" else 6)
    cases += retry_core()
    longs = [257, 300, 513, 1100] if tier == "quick" else [129, 257, 258, 300, 513, 700, 1025, 1100, 2100]
    for h in HELPERS:
        for n in longs:
            cases.append(gen_long(rng, h, n))
    n = 12000 if tier == "quick" else 100000
    for i in range(n):
        cases.append(gen_retry(rng) if i % 8 == 7 else gen_collection(rng))
    return cases


def shrink(case):
    if case["helper"] == "aretry":
        sc = case["script"]
        for i in range(len(sc)):
            yield dict(case, script=sc[:i] + sc[i + 1:])
        if case["max"] > 1:
            yield dict(case, max=case["max"] - 1)
        if case["blocking"]:
            yield dict(case, blocking=0)
        return
    items = case["items"]
    if len(items) > 8:
        yield dict(case, items=items[:len(items) // 2])
        yield dict(case, items=items[len(items) // 2:])
    for i in range(min(len(items), 40)):
        yield dict(case, items=items[:i] + items[i + 1:])
    if case["form"] != "call":
        yield dict(case, form="call")
    if case.get("gen"):
        yield dict(case, gen=0)
    if any(u["blocks"] for u in case["univ"]):
        yield dict(case, univ=[dict(u, blocks=0) for u in case["univ"]])
    if any(u["key"] not in (0, 1) for u in case["univ"]):
        yield dict(case, univ=[dict(u, key=u["key"] % 2) for u in case["univ"]])


def neighbours(case, rng):
    if case["helper"] == "aretry":
        for _ in range(32):
            c = gen_retry(rng)
            c["listed"] = case["listed"]
            c["base_all"] = case.get("base_all", 0)
            yield c
        return
    for src in SRC_KINDS:
        for form in FORMS:
            yield dict(case, src=src if case.get("args") != "elems" else "tuple", form=form)
    for rev in (0, 1):
        for kn in (0, 1):
            yield dict(case, rev=rev, key_none=kn)
    for _ in range(24):
        c = gen_collection(rng, case["helper"])
        yield c
    for n in (257, 600):
        yield gen_long(rng, case["helper"], n)


def signature(case, v):
    if case["helper"] == "aretry":
        return "aretry/%s" % v["spec"]
    return "%s/%s/%s" % (case["helper"], case["src"], v["spec"])


# ---------------------------------------------------------------------------------------------------
# implementation side
# ---------------------------------------------------------------------------------------------------

class Ord(object):
    """orderable like the integer v (also against plain ints), compared by identity for equality"""

    def __init__(self, v, truthy):
        self.v = v
        self.truthy = truthy

    @staticmethod
    def _v(o):
        if isinstance(o, Ord):
            return o.v
        if type(o) is int:
            return o
        return None

    def __lt__(self, o):
        w = Ord._v(o)
        return NotImplemented if w is None else self.v < w

    def __gt__(self, o):
        w = Ord._v(o)
        return NotImplemented if w is None else self.v > w

    def __le__(self, o):
        w = Ord._v(o)
        return NotImplemented if w is None else self.v <= w

    def __ge__(self, o):
        w = Ord._v(o)
        return NotImplemented if w is None else self.v >= w

    def __bool__(self):
        return bool(self.truthy)

    __hash__ = object.__hash__


class Opaque(object):
    """not orderable at all"""

    def __init__(self, truthy):
        self.truthy = truthy

    def __bool__(self):
        return bool(self.truthy)


class NotIterable(object):
    pass


class E1(Exception):
    pass


class E2(Exception):
    pass


class E3(Exception):
    pass


class E4(E1):
    pass


class B5(BaseException):
    """listed or not, never an Exception: `except Exception` must not be what decides about a retry"""


class B6(BaseException):
    pass


EXC = {1: E1, 2: E2, 3: E3, 4: E4, 5: B5, 6: B6}
ALL_CLS = [1, 2, 3, 4, 5, 6]
TRUTHY = [True, 1, "x", (0,)]
FALSY = [False, 0, None, "", ()]


def exc_res(e, raised=None):
    if raised is not None and id(e) in raised:
        return "(raised user %d %d)" % raised[id(e)]
    t = type(e)
    if t is TypeError:
        return "(raised typeError)"
    if t is ValueError:
        return "(raised valueError)"
    if t is AssertionError:
        return "(raised assertionError)"
    return "(raised other %s)" % t.__name__


def run_case(case):
    import time

    import asynq
    from asynq import batching, tools

    class State(object):
        cur = None
        flushes = []
        calls = 0

    st = State()
    st.flushes = []

    class HBatch(batching.BatchBase):
        def _try_switch_active_batch(self):
            if st.cur is self:
                st.cur = None

        def _flush(self):
            st.flushes.append(len(self.items))
            for it in self.items:
                it.set_value(None)

        def _cancel(self):
            pass

    class HItem(batching.BatchItemBase):
        def __init__(self):
            if st.cur is None:
                st.cur = HBatch()
            super(HItem, self).__init__(st.cur)

    def call(fn, args, kwargs):
        """the three ways of invoking an async function"""
        form = case["form"]
        if form == "call":
            return fn(*args, **kwargs)
        if form == "asynq":
            return fn.asynq(*args, **kwargs).value()

        @asynq.asynq()
        def outer():
            r = yield fn.asynq(*args, **kwargs)
            return r
        return outer()

    helper = case["helper"]
    if helper == "aretry":
        return run_retry(case, st, HItem, call, asynq, tools, time)

    # ---- universe: token -> object ------------------------------------------------------------
    objs = []
    for u in case["univ"]:
        k = u["k"]
        if k == "int":
            o = u["ord"]
        elif k == "ord":
            o = Ord(u["ord"], u["truthy"])
        elif k == "none":
            o = None
        elif k == "opaque":
            o = Opaque(u["truthy"])
        else:
            raise ValueError(k)
        if bool(o) != bool(u["truthy"]):
            raise ValueError("inconsistent universe entry %r" % (u,))
        objs.append(o)
    tok = {}
    for t, o in enumerate(objs):
        if id(o) in tok:
            raise ValueError("two tokens for one object")
        tok[id(o)] = t
    attr = {id(o): u for o, u in zip(objs, case["univ"])}

    def pred_obj(x):
        u = attr[id(x)]
        t = tok[id(x)]
        return TRUTHY[t % len(TRUTHY)] if u["pred"] else FALSY[t % len(FALSY)]

    def sync_key(x):
        return attr[id(x)]["key"]

    @asynq.asynq()
    def akey(x):
        st.calls += 1
        if attr[id(x)]["blocks"]:
            yield HItem()
        return attr[id(x)]["key"]

    @asynq.asynq()
    def apred(x):
        st.calls += 1
        if attr[id(x)]["blocks"]:
            yield HItem()
        return pred_obj(x)

    elems = [objs[t] for t in case["items"]]

    def make_src():
        kind = case["src"]
        if kind == "list":
            return list(elems)
        if kind == "tuple":
            return tuple(elems)
        if kind == "iterator":
            return (x for x in list(elems)) if case.get("gen") else iter(list(elems))
        if kind == "nonIter":
            return NotIterable()
        raise ValueError(kind)

    def tl(xs):
        return "(%s)" % " ".join(str(tok.get(id(x), UNKNOWN)) for x in xs)

    def enc(value):
        """canonical form of a helper's / built-in's return value"""
        if helper == "amap":
            if type(value) is list and all(type(v) is int for v in value):
                return "(ok vals (%s))" % " ".join(str(v) for v in value)
        elif helper in ("afilter", "afilterfalse", "asorted"):
            if type(value) is list:
                return "(ok elems %s)" % tl(value)
        elif helper in ("amax", "amin"):
            return "(ok elem %d)" % tok.get(id(value), UNKNOWN)
        elif helper == "asift":
            if type(value) is tuple and len(value) == 2 and type(value[0]) is list and type(value[1]) is list:
                return "(ok pair %s %s)" % (tl(value[0]), tl(value[1]))
        return "(raised other BadResult-%s)" % type(value).__name__

    key_none = case.get("key_none", 0)
    fn_none = case.get("fn_none", 0)
    rev = bool(case.get("rev", 0))

    def invoke(sync):
        """sync=False: the asynq helper;  sync=True: the Python built-in with the synchronous equivalent"""
        if helper == "amap":
            return list(map(sync_key, make_src())) if sync else call(tools.amap, (akey, make_src()), {})
        if helper == "afilter":
            if sync:
                return list(filter(None if fn_none else pred_obj, make_src()))
            return call(tools.afilter, (None if fn_none else apred, make_src()), {})
        if helper == "afilterfalse":
            if sync:
                return list(itertools.filterfalse(pred_obj, make_src()))
            return call(tools.afilterfalse, (apred, make_src()), {})
        if helper == "asorted":
            if sync:
                return sorted(make_src(), key=None if key_none else sync_key, reverse=rev)
            kw = {"reverse": rev}
            if not key_none:
                kw["key"] = akey
            return call(tools.asorted, (make_src(),), kw)
        if helper in ("amax", "amin"):
            args = tuple(elems) if case["args"] == "elems" else (make_src(),)
            kw = {}
            if not key_none:
                kw["key"] = sync_key if sync else akey
            if case.get("bad_kw"):
                kw["bogus"] = 1
            if sync:
                return (max if helper == "amax" else min)(*args, **kw)
            return call(tools.amax if helper == "amax" else tools.amin, args, kw)
        if helper == "asift":
            if sync:
                seq = list(make_src())
                return ([x for x in seq if pred_obj(x)], [x for x in seq if not pred_obj(x)])
            return call(tools.asift, (apred, make_src()), {})
        raise ValueError(helper)

    try:
        builtin = enc(invoke(True))
    except Exception as e:
        builtin = exc_res(e)
    st.cur, st.flushes, st.calls = None, [], 0
    try:
        res = enc(invoke(False))
    except Exception as e:  # the outcome of the invocation, not a harness failure
        res = exc_res(e)
    flushes, calls = list(st.flushes), st.calls

    # ---- protocol lines --------------------------------------------------------------------------
    lines = ["(case tools %d %s)" % (case["id"], helper)]
    lines.append("(univ %s)" % " ".join(
        "(%d %d %d %s %d)" % (u["key"], u["pred"], u["truthy"], "none" if u["ord"] is None else u["ord"], u["blocks"])
        for u in case["univ"]))
    items = "(%s)" % " ".join(str(t) for t in case["items"])
    srcx = "(src %s %s)" % (case["src"], items)
    if helper == "amap":
        lines.append("(call amap %s)" % srcx)
    elif helper == "afilter":
        lines.append("(call afilter %d %s)" % (fn_none, srcx))
    elif helper == "afilterfalse":
        lines.append("(call afilterfalse %s)" % srcx)
    elif helper == "asorted":
        lines.append("(call asorted %d %d %s)" % (key_none, 1 if rev else 0, srcx))
    elif helper in ("amax", "amin"):
        a = "(elems %s)" % items if case["args"] == "elems" else "(one %s)" % srcx
        lines.append("(call amaxmin %d %d %d %s)" % (1 if helper == "amin" else 0, case.get("bad_kw", 0), key_none, a))
    elif helper == "asift":
        lines.append("(call asift %s)" % srcx)
    lines.append("(obs %s (flushes%s) %d 0)" % (res, "".join(" %d" % f for f in flushes), calls))
    lines.append("(builtin %s)" % builtin)
    lines.append("(end)")

    # ---- features -------------------------------------------------------------------------------
    n = len(case["items"])
    nblock = sum(1 for t in case["items"] if case["univ"][t]["blocks"])
    toks = set(case["items"])
    keyof = (lambda t: case["univ"][t]["ord"]) if key_none else (lambda t: case["univ"][t]["key"])
    ks = [keyof(t) for t in toks]
    ties = len(set(ks)) < len(ks)
    feats = ["helper=" + helper, "src=" + case["src"], "form=" + case["form"],
             "size<=%d" % next(b for b in (0, 1, 3, 8, 16, 256, 10 ** 9) if n <= b),
             "blocking=" + ("none" if nblock == 0 else "all" if nblock == n else "mixed"),
             "outcome=" + (res.split()[1].rstrip(")") if res.startswith("(raised") else "ok"),
             "flushes=%d" % min(len(flushes), 3)]
    if ties:
        feats.append("ties")
    if len(toks) < n:
        feats.append("same-object-twice")
    if any(case["univ"][t]["k"] in ("none", "opaque") for t in toks):
        feats.append("unorderable-values")
    if any(case["univ"][t]["k"] == "none" for t in toks):
        feats.append("None-element")
    for f in ("fn_none", "key_none", "rev", "bad_kw", "gen"):
        if case.get(f):
            feats.append(f)
    if helper in ("amax", "amin"):
        feats.append("args=" + case["args"])
    nontrivial = None
    if n >= 2 and (ties or nblock >= 1) and not res.startswith("(raised"):
        nontrivial = hashlib.sha1(json.dumps({k: v for k, v in case.items() if k != "id"},
                                             sort_keys=True).encode()).hexdigest()[:16]
    return {"lines": lines, "features": feats, "nontrivial": nontrivial}


def run_retry(case, st, HItem, call, asynq, tools, time):
    script = case["script"]
    raised = {}
    keep = []
    A, B = object(), object()
    ok_args = [True]
    blocking = case["blocking"]

    @asynq.asynq()
    def body(a, b=None):
        i = st.calls
        st.calls += 1
        if a is not A or b is not B:
            ok_args[0] = False
        if blocking:
            yield HItem()
        step = script[i] if i < len(script) else ["ret", 0]
        if step[0] == "ret":
            return step[1]
        e = EXC[step[1]]("attempt %d" % i)
        raised[id(e)] = (step[1], i)
        keep.append(e)
        raise e

    listed = tuple(EXC[c] for c in case["listed"])
    if case.get("base_all"):
        if sorted(case["listed"]) != ALL_CLS:
            raise ValueError("base_all needs every class listed")
        listed = BaseException if case.get("single_cls") else (BaseException,)
    elif len(listed) == 1 and case.get("single_cls"):
        listed = listed[0]
    sleep_arg = 0.0125
    sleeps = [0]

    def fake_sleep(x):
        sleeps[0] += 1 if x == sleep_arg else 1000

    real_sleep = time.sleep
    time.sleep = fake_sleep   # scripted clock: aretry must not really sleep, and its sleeps are counted
    try:
        try:
            wrapped = tools.aretry(listed, max_tries=case["max"], sleep=sleep_arg)(body)
            v = call(wrapped, (A,), {"b": B})
            if v is None:
                res = "(ok none)"
            elif type(v) is int:
                res = "(ok val %d)" % v
            else:
                res = "(raised other BadResult-%s)" % type(v).__name__
        except BaseException as e:
            # the body's scripted exceptions may derive from BaseException only; anything else that is not an
            # Exception (the worker's per-case timeout, KeyboardInterrupt) is not an observation
            if not isinstance(e, Exception) and id(e) not in raised:
                raise
            res = exc_res(e, raised)
    finally:
        time.sleep = real_sleep
    if not ok_args[0]:
        res = "(raised other ArgumentsNotForwarded)"
    lines = ["(case tools %d aretry)" % case["id"], "(univ)"]
    lines.append("(call aretry %d (%s) (script %s) %d)" % (
        case["max"], " ".join(str(c) for c in case["listed"]),
        " ".join("(%s %d)" % (s[0], s[1]) for s in script), 1 if blocking else 0))
    lines.append("(obs %s (flushes%s) %d %d)" % (res, "".join(" %d" % f for f in st.flushes), st.calls, sleeps[0]))
    lines.append("(end)")
    feats = ["helper=aretry", "form=" + case["form"], "max_tries=%d" % min(case["max"], 7), "runs=%d" % min(st.calls, 7),
             "blocking=" + ("all" if blocking else "none"),
             "outcome=" + (res.split()[1].rstrip(")") if res.startswith("(raised") else "ok")]
    nontrivial = None
    if st.calls >= 2:
        nontrivial = hashlib.sha1(json.dumps({k: v for k, v in case.items() if k != "id"},
                                             sort_keys=True).encode()).hexdigest()[:16]
    return {"lines": lines, "features": feats, "nontrivial": nontrivial}
