"""Grammar-directed generator of task programs (the language of corerun.py / AsynqModel.Core.Syntax)."""
import random


class G(object):
    """generation parameters"""

    def __init__(self, rng, **kw):
        self.rng = rng
        self.budget = kw.get("budget", 30)          # remaining future creations / statements
        self.kinds = kw.get("kinds", 2)
        self.sync = kw.get("sync", 0.0)             # probability weight of synchronous re-entry
        self.ctx = kw.get("ctx", 0.0)
        self.err = kw.get("err", 0.0)               # raising tasks, failing items, error futures, junk
        self.handlers = kw.get("handlers", 0.3)     # probability that a yield / sync call has a try/except
        self.lazy = kw.get("lazy", 0.1)
        self.lazy_err = kw.get("lazy_err", True)
        self.share = kw.get("share", 0.4)           # probability of handing futures to a child (DAGs)
        self.depth = kw.get("depth", 5)
        self.obs = kw.get("obs", 0.1)               # active / read observations
        self.shapes = kw.get("shapes", True)
        self.nonasync = kw.get("nonasync", 0.0)


def gen_ref(g, nown, ninh):
    n = nown + ninh
    if n == 0:
        return None
    i = g.rng.randrange(n)
    return ["own", i] if i < nown else ["inh", i - nown]


def gen_y(g, nown, ninh, fresh):
    """a yielded structure; `fresh` = own indices created since the last yield (preferred leaves)"""
    rng = g.rng
    leaves = []
    for i in fresh:
        if rng.random() < 0.9:
            leaves.append(["f", ["own", i]])
    extra = rng.choice([0, 0, 0, 1, 2])
    for _ in range(extra):
        r = gen_ref(g, nown, ninh)
        if r is not None:
            leaves.append(["f", r])
    if g.err and rng.random() < 0.04 * g.err:
        leaves.append("junk")
    if rng.random() < 0.08:
        leaves.append("none")
    rng.shuffle(leaves)
    if not g.shapes:
        return ["lst"] + leaves if len(leaves) != 1 else leaves[0]
    if not leaves:
        return rng.choice(["none", ["tup"], ["lst"], ["dict"]])
    if len(leaves) == 1 and rng.random() < 0.6:
        return leaves[0]

    def shape(ls, d):
        if len(ls) == 1 and rng.random() < 0.5:
            return ls[0]
        kind = rng.choice(["tup", "tup", "lst", "lst", "dict"])
        if d < 2 and len(ls) >= 2 and rng.random() < 0.4:
            cut = rng.randint(1, len(ls) - 1)
            parts = [shape(ls[:cut], d + 1), shape(ls[cut:], d + 1)]
            if rng.random() < 0.5:
                parts = [parts[0]] + ls[cut:] if rng.random() < 0.5 else ls[:cut] + [parts[1]]
        else:
            parts = ls
        if kind == "dict":
            return ["dict"] + [[i, p] for i, p in enumerate(parts)]
        return [kind] + parts

    return shape(leaves, 0)


def gen_task(g, depth, ninh):
    """a complete task body"""
    return gen_seq(g, depth, 0, ninh, [], 0, False)


def finish(g, in_with):
    rng = g.rng
    if in_with and rng.random() < 0.8:
        return ["endwith"]
    r = rng.random()
    tag = rng.randint(0, 9)
    if g.err and r < 0.08 * g.err:
        return ["raise", rng.randint(1, 3)]
    if r < 0.3:
        return ["res", tag]
    return ["ret", tag]


def gen_seq(g, depth, nown, ninh, fresh, steps, in_with, handler=False):
    rng = g.rng
    g.budget -= 1
    if g.budget <= 0 or steps > 8 or (handler and steps > 1):
        if fresh and not handler and g.budget > -50:
            y = gen_y(g, nown, ninh, fresh)
            return ["yld", y, finish(g, in_with), gen_handler(g, depth, nown, ninh, in_with)]
        return finish(g, in_with)
    acts = ["spawn", "spawn", "item", "item", "item", "yld", "yld"]
    if depth >= g.depth:
        acts = ["item", "item", "yld", "const"]
    acts += ["const"] * 1
    if g.err:
        acts += ["errfut"] if rng.random() < 0.3 * g.err else []
    if g.lazy and rng.random() < g.lazy:
        acts += ["lazy"]
    if g.sync and rng.random() < g.sync:
        acts += ["sync", "syncfut"]
    if g.ctx and rng.random() < g.ctx and depth < g.depth:
        acts += ["with", "with"]
    if g.obs and rng.random() < g.obs:
        acts += ["read", "active"]
    if steps >= 2 and rng.random() < 0.25:
        acts += ["finish"] * 3
    if steps >= 1 and rng.random() < 0.12:
        acts += ["reyld"]
    a = rng.choice(acts)
    nxt = lambda no, fr, st=steps + 1: gen_seq(g, depth, no, ninh, fr, st, in_with, handler)
    if a == "finish":
        if fresh:
            a = "yld"
        else:
            return finish(g, in_with)
    if a == "spawn":
        npass = 0
        if rng.random() < g.share:
            npass = rng.randint(1, 3)
        passrefs = [r for r in (gen_ref(g, nown, ninh) for _ in range(npass)) if r is not None]
        sub = G(rng)
        child = gen_seq(g, depth + 1, 0, len(passrefs), [], 0, False)
        return ["spawn", child, passrefs, nxt(nown + 1, fresh + [nown])]
    if a == "item":
        mode = "ok"
        if g.err and rng.random() < 0.12 * g.err:
            mode = rng.choice([["err", rng.randint(1, 3)], "unset"])
        return ["item", rng.randrange(g.kinds), rng.randint(0, 9), mode, nxt(nown + 1, fresh + [nown])]
    if a == "const":
        return ["const", rng.randint(0, 9), nxt(nown + 1, fresh + [nown])]
    if a == "errfut":
        return ["errfut", rng.randint(1, 3), nxt(nown + 1, fresh + [nown])]
    if a == "lazy":
        out = ["ok", rng.randint(0, 9)]
        if g.err and g.lazy_err and rng.random() < 0.3:
            out = ["err", rng.randint(1, 2)]
        return ["lazy", out, nxt(nown + 1, fresh + [nown])]
    if a == "yld":
        y = gen_y(g, nown, ninh, fresh)
        return ["yld", y, nxt(nown, []), gen_handler(g, depth, nown, ninh, in_with)]
    if a == "sync":
        npass = rng.randint(0, 2) if rng.random() < g.share else 0
        passrefs = [r for r in (gen_ref(g, nown, ninh) for _ in range(npass)) if r is not None]
        child = gen_seq(g, depth + 1, 0, len(passrefs), [], 0, False)
        return ["sync", child, passrefs, nxt(nown + 1, fresh), gen_handler(g, depth, nown + 1, ninh, in_with)]
    if a == "syncfut":
        r = gen_ref(g, nown, ninh)
        if r is None:
            return nxt(nown, fresh)
        fr = [i for i in fresh if not (r[0] == "own" and r[1] == i)]
        return ["syncfut", r, nxt(nown, fr), gen_handler(g, depth, nown, ninh, in_with)]
    if a == "with":
        c = ["plain"] if rng.random() < 0.4 else ["override", rng.randrange(2), rng.randint(1, 9)]
        if getattr(g, "nonasync", 0) and rng.random() < g.nonasync:
            c = ["nonasync"]
        if rng.random() < 0.5:
            # single-path block (no try/except inside, so only the success path reaches `endwith`): the number of
            # futures it creates is known and the continuation can be arbitrary
            saved = g.handlers
            g.handlers = 0.0
            inner = gen_seq(g, depth, nown, ninh, fresh, steps + 1, True, handler)
            g.handlers = saved
            outs = count_own(inner, nown)
            if len(outs) == 1:
                return ["with", c, inner, gen_seq(g, depth, outs.pop(), ninh, [], steps + 2, in_with, handler)]
            return ["with", c, inner, finish(g, in_with)]
        inner = gen_seq(g, depth, nown, ninh, fresh, steps + 1, True, handler)
        # futures created inside the block are not referenced after it (own indices would depend on the path)
        return ["with", c, inner, finish_after_with(g, depth, nown, ninh, in_with, inner)]
    if a == "reyld":
        return ["reyld", nxt(nown, fresh), gen_handler(g, depth, nown, ninh, in_with)]
    if a == "read":
        return ["read", rng.randrange(2), nxt(nown, fresh)]
    if a == "active":
        return ["active", nxt(nown, fresh)]
    raise AssertionError(a)


def count_own(body, nown):
    """own count at every `endwith` exit of a block (must agree for the continuation to be well-scoped)"""
    res = set()

    def walk(b, n):
        op = b[0]
        if op == "endwith":
            res.add(n)
        elif op in ("ret", "res", "raise", "reraise"):
            pass
        elif op in ("spawn",):
            walk(b[3], n + 1)
        elif op == "item":
            walk(b[4], n + 1)
        elif op in ("const", "errfut", "lazy"):
            walk(b[2], n + 1)
        elif op == "yld":
            walk(b[2], n)
            walk(b[3], n)
        elif op == "reyld":
            walk(b[1], n)
            walk(b[2], n)
        elif op == "sync":
            walk(b[3], n + 1)
            walk(b[4], n + 1)
        elif op == "syncfut":
            walk(b[2], n)
            walk(b[3], n)
        elif op == "with":
            inner = count_own(b[2], n)
            for m in inner:
                walk(b[3], m)
        elif op == "read":
            walk(b[2], n)
        elif op == "active":
            walk(b[1], n)

    walk(body, nown)
    return res


def finish_after_with(g, depth, nown, ninh, in_with, inner):
    # the continuation only uses futures that exist on every path: those known before the block
    outs = count_own(inner, nown)
    base = min(outs) if outs else nown
    rng = g.rng
    if rng.random() < 0.5 and g.budget > 0:
        y = gen_y(g, min(base, nown), ninh, [])
        return ["yld", y, finish(g, in_with), ["reraise"]]
    return finish(g, in_with)


def gen_handler(g, depth, nown, ninh, in_with):
    rng = g.rng
    if rng.random() >= g.handlers:
        return ["reraise"]
    r = rng.random()
    if r < 0.5:
        return finish(g, in_with)
    if r < 0.6:
        return ["reraise"]
    if r < 0.8:
        return gen_seq(g, depth, nown, ninh, [], 7, in_with, True)
    return gen_seq(g, depth, nown, ninh, [], 5, in_with, False)   # a handler that goes on working (may yield, enter contexts)


PROFILES = {
    # yield-only programs: trees/DAGs of tasks over batch items (C04, C05 priority clause)
    "yield": dict(sync=0.0, ctx=0.0, err=0.0, lazy=0.0),
    "yield_err": dict(sync=0.0, ctx=0.0, err=1.0, lazy=0.15),
    "yield_ctx": dict(sync=0.0, ctx=0.5, err=0.5, lazy=0.1, obs=0.3),
    "full": dict(sync=0.35, ctx=0.4, err=1.0, lazy=0.15, obs=0.3),
    "sync": dict(sync=0.6, ctx=0.0, err=0.5, lazy=0.1, obs=0.3),
    "nonasync": dict(sync=0.25, ctx=0.7, err=0.5, lazy=0.1, obs=0.2, nonasync=0.4),
}


def gen_case(rng, profile="full", size=None, ntops=1):
    p = dict(PROFILES[profile])
    kinds = rng.choice([1, 2, 2, 3])
    cfg = {"kinds": {}, "salt": rng.randrange(1000000)}
    for k in range(kinds):
        kc = {}
        r = rng.random()
        if r < 0.2:
            kc["prio"] = "rev"
        elif r < 0.4:
            kc["prio"] = ["const", rng.randint(0, 3)]
        if p.get("err") and rng.random() < 0.12:
            kc["raises"] = True
        if kc:
            cfg["kinds"][str(k)] = kc
    if rng.random() < 0.15:
        # user get_priority() overrides returning plain ints, 0 (falsy) among them
        cfg["intprio"] = True
        for k in range(kinds):
            cfg["kinds"][str(k)] = dict(cfg["kinds"].get(str(k), {}), prio=["const", rng.randint(0, 3)])
    if rng.random() < 0.1:
        cfg["keepDeps"] = True      # KEEP_DEPENDENCIES is part of 'configurations'
    tops = []
    for _ in range(ntops):
        g = G(rng, budget=size if size is not None else rng.choice([4, 8, 12, 20, 30, 45]), kinds=kinds,
              depth=rng.choice([2, 3, 4, 6]), share=rng.choice([0.0, 0.3, 0.6]), **p)
        body = gen_task(g, 0, 0)
        tops.append([rng.choice(["value", "value", "call"]), body])
    return {"cfg": cfg, "tops": tops, "profile": profile}


# ---------------------------------------------------------------------------------------------------
# structural helpers used for features, shrinking
# ---------------------------------------------------------------------------------------------------

def walk(body, f):
    f(body)
    op = body[0]
    kids = {"spawn": [1, 3], "item": [4], "const": [2], "errfut": [2], "lazy": [2], "yld": [2, 3], "reyld": [1, 2], "sync": [1, 3, 4],
            "syncfut": [2, 3], "with": [2, 3], "read": [2], "active": [1]}.get(op, [])
    for i in kids:
        walk(body[i], f)


def stats(case):
    c = {}

    def f(b):
        c[b[0]] = c.get(b[0], 0) + 1
        if b[0] == "yld" and b[3] != ["reraise"]:
            c["handler"] = c.get("handler", 0) + 1
        if b[0] == "spawn" and b[2]:
            c["shared"] = c.get("shared", 0) + 1

    for conv, body in case["tops"]:
        walk(body, f)
    return c


def shrink_body(body):
    """candidates: replace a subterm by one of its continuations, or by a leaf"""
    op = body[0]
    kids = {"spawn": [1, 3], "item": [4], "const": [2], "errfut": [2], "lazy": [2], "yld": [2, 3], "reyld": [1, 2], "sync": [1, 3, 4],
            "syncfut": [2, 3], "with": [2, 3], "read": [2], "active": [1]}.get(op, [])
    if op in ("read", "active"):
        yield body[kids[0]]
    if op == "yld":
        if body[3] != ["reraise"]:
            yield ["yld", body[1], body[2], ["reraise"]]
        y = body[1]
        if isinstance(y, list) and y[0] in ("tup", "lst") and len(y) > 2:
            for i in range(1, len(y)):
                yield ["yld", y[:i] + y[i + 1:], body[2], body[3]]
        if isinstance(y, list) and y[0] in ("tup", "lst", "dict") and len(y) == 2:
            yield ["yld", y[1] if y[0] != "dict" else y[1][1], body[2], body[3]]
    if op == "with":
        # drop the context (the block must then not contain endwith at top level: keep simple - replace by k)
        yield body[3]
    if op in ("spawn", "sync"):
        yield body[:1] + [["ret", 0]] + body[2:]
        if body[2]:
            pass
    for i in kids:
        for c in shrink_body(body[i]):
            yield body[:i] + [c] + body[i + 1:]
    if op not in ("ret", "res", "raise", "reraise", "endwith"):
        yield ["ret", 0]


def well_scoped(body, nown=0, ninh=0, in_with=0):
    """every Ref names an existing future on every path; returns False otherwise"""
    def ref_ok(r, n):
        return (r[0] == "own" and r[1] < n) or (r[0] == "inh" and r[1] < ninh)

    def y_ok(y, n):
        if y in ("none", "junk"):
            return True
        if y[0] == "f":
            return ref_ok(y[1], n)
        if y[0] == "dict":
            return all(y_ok(p[1], n) for p in y[1:])
        return all(y_ok(p, n) for p in y[1:])

    def go(b, n):
        """returns set of own counts at endwith exits, or None if ill-scoped"""
        op = b[0]
        if op in ("ret", "res", "raise", "reraise"):
            return set()
        if op == "endwith":
            return {n}
        if op == "spawn":
            if not all(ref_ok(r, n) for r in b[2]) or not well_scoped(b[1], 0, len(b[2])):
                return None
            return go(b[3], n + 1)
        if op == "item":
            return go(b[4], n + 1)
        if op in ("const", "errfut", "lazy"):
            return go(b[2], n + 1)
        if op == "yld":
            if not y_ok(b[1], n):
                return None
            a, c = go(b[2], n), go(b[3], n)
            return None if a is None or c is None else a | c
        if op == "reyld":
            a, c = go(b[1], n), go(b[2], n)
            return None if a is None or c is None else a | c
        if op == "sync":
            if not all(ref_ok(r, n) for r in b[2]) or not well_scoped(b[1], 0, len(b[2])):
                return None
            a, c = go(b[3], n + 1), go(b[4], n + 1)
            return None if a is None or c is None else a | c
        if op == "syncfut":
            if not ref_ok(b[1], n):
                return None
            a, c = go(b[2], n), go(b[3], n)
            return None if a is None or c is None else a | c
        if op == "with":
            inner = go(b[2], n)
            if inner is None:
                return None
            res = set()
            for m in inner:
                r = go(b[3], m)
                if r is None:
                    return None
                res |= r
            return res
        if op == "read":
            return go(b[2], n)
        if op == "active":
            return go(b[1], n)
        return None

    return go(body, nown) is not None


# ---------------------------------------------------------------------------------------------------
# structured families (C03 / C04)
# ---------------------------------------------------------------------------------------------------

def balanced_tree(depth, fanout, kind=0):
    """every leaf task awaits one item; inner tasks yield all their children in one list: ONE flush whatever the size"""
    if depth == 0:
        return ["item", kind, depth, "ok", ["yld", ["f", ["own", 0]], ["ret", 1], ["reraise"]]]
    body = ["yld", ["lst"] + [["f", ["own", i]] for i in range(fanout)], ["ret", 2], ["reraise"]]
    for _ in range(fanout):
        body = ["spawn", balanced_tree(depth - 1, fanout, kind), [], body]
    return body


def dependent_chain(n, kind=0):
    """n sequentially dependent requests: await an item, then a child that does the same: n flushes"""
    if n <= 1:
        return ["item", kind, 1, "ok", ["yld", ["f", ["own", 0]], ["ret", 1], ["reraise"]]]
    return ["item", kind, n % 10, "ok", ["yld", ["f", ["own", 0]],
            ["spawn", dependent_chain(n - 1, kind), [], ["yld", ["f", ["own", 1]], ["ret", 2], ["reraise"]]], ["reraise"]]]


def staggered(widths, kind=0):
    """siblings whose request chains have different lengths: requests become issuable at different times"""
    kids = [dependent_chain(w, kind) for w in widths]
    body = ["yld", ["tup"] + [["f", ["own", i]] for i in range(len(kids))], ["ret", 3], ["reraise"]]
    for k in reversed(kids):
        body = ["spawn", k, [], body]
    return body


def override_family(rng):
    """tasks that hold several nested overrides of the same scoped value while they are suspended on an item, with
    siblings (and the code after the blocks) reading the value: pause/resume order and save/restore are observable"""
    var = rng.randrange(2)
    depth = rng.randint(2, 3)

    def holder(seed):
        inner = ["item", rng.randrange(2), seed, "ok", ["yld", ["f", ["own", 0]], ["read", var, ["endwith"]], ["reraise"]]]
        body = inner
        for d in range(depth):
            tail = ["read", var, ["endwith"]] if d < depth - 1 else ["read", var, ["read", 1 - var, [rng.choice(["ret", "res"]), 1]]]
            kind = ["override", var, 10 * (d + 1) + seed] if rng.random() < 0.85 else ["plain"]
            body = ["with", kind, body, tail]
        return body

    def reader(seed):
        b = ["read", var, ["ret", 2]]
        if rng.random() < 0.7:
            b = ["item", rng.randrange(2), seed, "ok", ["yld", ["f", ["own", 0]], ["read", var, ["ret", 3]], ["reraise"]]]
        return ["read", var, b]

    kids = [holder(1)] + [rng.choice([holder, reader])(i + 2) for i in range(rng.randint(1, 3))]
    rng.shuffle(kids)
    body = ["yld", [rng.choice(["tup", "lst"])] + [["f", ["own", i]] for i in range(len(kids))], ["read", var, ["ret", 9]], ["reraise"]]
    for k in reversed(kids):
        body = ["spawn", k, [], body]
    if rng.random() < 0.5:
        body = ["with", ["override", var, 7], body, ["read", var, ["ret", 8]]]
        # the yield inside must end the block: replace its continuation
        def patch(b):
            if b[0] == "spawn":
                return ["spawn", b[1], b[2], patch(b[3])]
            return ["yld", b[1], ["read", var, ["endwith"]], ["reraise"]]
        body = ["with", ["override", var, 7], patch(body[2]), ["read", var, ["ret", 8]]]
    return {"cfg": {"kinds": {}, "salt": rng.randrange(1000000)}, "profile": "override-family", "tops": [[rng.choice(["value", "call"]), body]]}


def foreign_sync_family(rng):
    """a task computes synchronously (value()) a task that somebody else created, then looks at get_active_task():
    the active task must be restored to the caller, not to the creator of the finished task (C08)"""
    leaf = rng.choice([["ret", 1], ["item", 0, 1, "ok", ["yld", ["f", ["own", 0]], ["ret", 1], ["reraise"]]],
                       ["active", ["ret", 2]], ["raise", 1]])
    after = ["active", ["spawn", ["active", ["ret", 3]], [], ["yld", ["f", ["own", 0]], ["active", ["ret", 4]], ["reraise"]]]]
    caller = ["active", ["syncfut", ["inh", 0], after, after]]
    depth = rng.randint(0, 2)
    for _ in range(depth):      # hand the foreign task further down before it is computed
        caller = ["spawn", caller, [["inh", 0]], ["yld", ["f", ["own", 0]], ["active", ["ret", 5]], ["reraise"]]]
    body = ["spawn", leaf, [], ["spawn", caller, [["own", 0]],
            ["yld", rng.choice([["f", ["own", 1]], ["tup", ["f", ["own", 1]], ["f", ["own", 0]]]]), ["active", ["ret", 6]], ["active", ["ret", 7]]]]]
    return {"cfg": {"kinds": {}, "salt": rng.randrange(1000000)}, "profile": "foreign-sync", "tops": [[rng.choice(["value", "call"]), body], ["value", ["active", ["ret", 0]]]]}


def shared_override_family(rng):
    """one pending task S (holding its own override of the value across two suspensions) is awaited by two tasks X and Y
    that override the same value differently; siblings read the value between the suspensions: save/restore must use the
    value in force at each resume, not the one at entry (C07)"""
    var = rng.randrange(2)
    k = rng.randrange(2)
    s_body = ["with", ["override", var, 5],
              ["item", k, 1, "ok", ["yld", ["f", ["own", 0]], ["read", var,
               ["item", k, 2, "ok", ["yld", ["f", ["own", 1]], ["read", var, ["endwith"]], ["reraise"]]]], ["reraise"]]],
              ["read", var, ["ret", 1]]]

    def awaiter(val, extra_item):
        inner = ["yld", ["f", ["inh", 0]], ["read", var, ["endwith"]], ["reraise"]]
        if extra_item:
            inner = ["item", k, 7, "ok", ["yld", ["f", ["own", 0]], ["read", var, inner], ["reraise"]]]
        return ["with", ["override", var, val], inner, ["read", var, ["ret", 2]]]

    def reader(seed):
        return ["read", var, ["item", k, seed, "ok", ["yld", ["f", ["own", 0]], ["read", var,
                ["item", k, seed + 1, "ok", ["yld", ["f", ["own", 1]], ["read", var, ["ret", 3]], ["reraise"]]]], ["reraise"]]]]

    kids = [awaiter(10, rng.random() < 0.5), awaiter(20, rng.random() < 0.5)] + [reader(3 + 2 * i) for i in range(rng.randint(1, 2))]
    order = list(range(len(kids)))
    rng.shuffle(order)
    # own 0 = S; the others are spawned with S handed over
    body = ["yld", [rng.choice(["tup", "lst"])] + [["f", ["own", 1 + i]] for i in order], ["read", var, ["ret", 9]], ["reraise"]]
    for kid in reversed(kids):
        body = ["spawn", kid, [["own", 0]], body]
    body = ["spawn", s_body, [], body]
    return {"cfg": {"kinds": {}, "salt": rng.randrange(1000000)}, "profile": "shared-override", "tops": [["value", body]]}


def many_yields(n):
    """one task that yields an already computed future n times in a row (no flush, no recursion allowed)"""
    body = ["ret", 1]
    for _ in range(n):
        body = ["yld", ["f", ["own", 0]], body, ["reraise"]]
    return ["const", 4, body]
