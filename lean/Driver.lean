import AsynqModel.Sexp
import AsynqModel.Drv.Futures
import AsynqModel.Drv.Core
import AsynqModel.Drv.BatchServices
import AsynqModel.Drv.Contexts
import AsynqModel.Drv.Threads
import AsynqModel.Drv.Asyncio
import AsynqModel.Drv.Decorators
import AsynqModel.Drv.Cache
import AsynqModel.Drv.Debug
import AsynqModel.Drv.Mock
import AsynqModel.Drv.Dedup
import AsynqModel.Drv.Batching
import AsynqModel.Drv.Generator
import AsynqModel.Drv.Tools
import AsynqModel.Drv.Families4
import AsynqModel.Drv.Families5
import AsynqModel.Drv.Families6t
import AsynqModel.Drv.Families6v
import AsynqModel.Drv.Families6c
import AsynqModel.Drv.Families7
import AsynqModel.Drv.Families8
open AsynqModel

/-- dispatch one case to the model of its mode -/
def handleCase (mode : String) (id : Nat) (hdr body : List Sexp) : String :=
  match mode with
  | "suspended" =>
    -- a suspended AsyncTask completed from outside (possibly with a raising clean-up in its generator): the outcome is
    -- the outside one (read twice), every subscriber is notified exactly once, in order, seeing that outcome
    match hdr, body with
    | [.atom outside, _, n], [.list [.atom "result", .atom o1, .atom o2, .list seen]] =>
      let want := if outside == "value" then "val" else "err"
      let expSeen := (List.range (n.nat?.getD 0)).map fun i => Sexp.atom s!"{i}:{want}"
      if o1 == want && o2 == want && seen == expSeen then s!"R {id} CORR=ok SPEC=ok SPECM=ok | "
      else s!"R {id} CORR=diff SPEC=fail:outside-completion-{o1}-{o2}-notified-{seen.length}-of-{expSeen.length} SPECM=ok | expected outcome {want} twice and notifications {Sexp.list expSeen}, got {Sexp.list seen}"
    | _, _ => s!"R {id} CORR=diff SPEC=ok SPECM=ok | unparsable suspended case"
  | "reflush" =>
    -- flush bodies that synchronously call asynq code creating an item of their own kind: batch q's body calls into
    -- batch q+1 (a FRESH batch), to depth d: events  before-0 body-0 before-1 body-1 ... after-1 after-0, each batch once
    match hdr, body with
    | [_, d], [.list [.atom "result", .atom out, clean, .list evs]] =>
      let depth := d.nat?.getD 0
      let down := (List.range (depth + 1)).flatMap fun q => [Sexp.atom s!"before-{q}", Sexp.atom s!"body-{q}"]
      let up := ((List.range (depth + 1)).reverse).map fun q => Sexp.atom s!"after-{q}"
      if out == "ok" && Drv.Families5.schedClean clean && evs == down ++ up then s!"R {id} CORR=ok SPEC=ok SPECM=ok | "
      else if out == "ok" && evs == down ++ up then s!"R {id} CORR=diff SPEC=fail:reentrant-flush-scheduler-not-clean SPECM=ok | {clean}"
      else s!"R {id} CORR=diff SPEC=fail:reentrant-flush-{out}-events-{if evs == down ++ up then "ok" else "wrong"} SPECM=ok | expected {Sexp.list (down ++ up)}, got {Sexp.list evs}"
    | _, _ => s!"R {id} CORR=diff SPEC=ok SPECM=ok | unparsable reflush case"
  | "overlap" =>
    -- overlapping (not nested) with-blocks a and b (and c nested in b when extra): Ra Rb Pa [Rc] | suspension: [Pc] Pb |
    -- flush | [Rb Rc] / Rb | exit [Pc] Pb
    match hdr, body with
    | [e], [.list [.atom "result", .atom out, .list evs]] =>
      let a := fun (s : String) => Sexp.atom s
      let expected := if e.nat? == some 1
        then [a "Ra", a "Rb", a "Pa", a "Rc", a "Pc", a "Pb", a "flush", a "Rb", a "Rc", a "Pc", a "Pb"]
        else [a "Ra", a "Rb", a "Pa", a "Pb", a "flush", a "Rb", a "Pb"]
      if out == "ok" && evs == expected then s!"R {id} CORR=ok SPEC=ok SPECM=ok | "
      else s!"R {id} CORR=diff SPEC=fail:overlapping-contexts-{out} SPECM=ok | expected {Sexp.list expected}, got {Sexp.list evs}"
    | _, _ => s!"R {id} CORR=diff SPEC=ok SPECM=ok | unparsable overlap case"
  | "longloop" => Drv.Families5.longloop id hdr body
  | "exotic" => Drv.Families4.exotic id hdr body
  | "resetbetween" => Drv.Families5.resetbetween id hdr body
  | "cancelfam" =>
    -- a batch with blocked tasks is cancelled by a sibling: it is never flushed (events: only batch B's
    -- before/body/after, exactly once, in that order), the waiters get the cancellation error, the scheduler is clean
    match hdr, body with
    | [_, _, .atom h, _], [.list [.atom "result", .atom out, clean, .list evs]] =>
      let expected := if h == "1" then "handled" else "raised-cancel"
      let evOk := evs == [.atom "before-B", .atom "body-B", .atom "after-B"]
      if out == expected && Drv.Families5.schedClean clean && evOk then s!"R {id} CORR=ok SPEC=ok SPECM=ok | "
      else s!"R {id} CORR=diff SPEC=fail:cancelled-batch-{out}-clean{if Drv.Families5.schedClean clean then "1" else "0"}-events-{if evOk then "ok" else "wrong"} SPECM=ok | expected {expected}, events before-B body-B after-B only; got {Sexp.list evs}"
    | _, _ => s!"R {id} CORR=diff SPEC=ok SPECM=ok | unparsable cancel case"
  | "ctxraise" => Drv.Families5.ctxraise id hdr body
  -- round-4 families (direct expectations in AsynqModel/Drv/Families4.lean)
  | "aiostart" => Drv.Families4.aiostart id hdr body
  | "eventhook" => Drv.Families4.eventhook id hdr body
  | "debugthreads" => Drv.Families4.debugthreads id hdr body
  | "hookssurvive" => Drv.Families4.hookssurvive id hdr body
  | "callctx" => Drv.Families4.callctx id hdr body
  | "selfawait" => Drv.Families4.selfawait id hdr body
  | "optprog" => Drv.Families4.optprog id body
  -- round-5 families (AsynqModel/Drv/Families6t.lean threads + priorities, Families6v.lean values, Families6c.lean contexts)
  -- [6t]
  | "crossthread" => Drv.Families6t.crossthread id hdr body
  | "prioflush" => Drv.Families6t.prioflush id hdr body
  | "reawait" => Drv.Families6t.reawait id hdr body
  -- [6v]
  | "valuekinds" => Drv.Families6v.valuekinds id hdr body
  | "equalreceivers" => Drv.Families6v.equalreceivers id hdr body
  -- [6c]
  | "composite" => Drv.Families6c.composite id hdr body
  | "hookenter" => Drv.Families6c.hookenter id hdr body
  | "afterthrow" => Drv.Families6c.afterthrow id hdr body
  | "sharedread" => Drv.Families7.sharedread id hdr body
  | "selfcancel" => Drv.Families8.selfcancel id hdr body
  | "deepfail" => Drv.Families8.deepfail id hdr body
  | "flushabort" => Drv.Families8.flushabort id hdr body
  | "deepdump" => Drv.Families8.deepdump id hdr body
  | "futures" => Drv.Futures.handle id hdr body
  | "futsubs" => Drv.Futures.handleSubs id hdr body
  | "futcopy" => Drv.Futures.handleCopy id hdr body
  | "futsusp" => Drv.Futures.handleSuspended id hdr body
  | "core" => Drv.Core.handle id hdr body
  | "ctxhist" => Drv.Contexts.handle id hdr body
  | "ctxwith" => Drv.Contexts.handleW id hdr body
  | "threads" => Drv.Threads.handle id hdr body
  | "asyncio" => Drv.Asyncio.handle id hdr body
  | "decorators" => Drv.Decorators.handle id hdr body
  | "decoratorsNwr" => Drv.Decorators.handleNwr id hdr body
  | "cache" => Drv.Cache.handle id hdr body
  | "debug" => Drv.Debug.handle id hdr body
  | "mock" => Drv.Mock.handle id hdr body
  | "mockfail" => Drv.Mock.handleFail id hdr body
  | "dedup" => Drv.Dedup.handle id hdr body
  | "batching" => Drv.Batching.handle id hdr body
  | "batchingx" => Drv.Batching.handleX id hdr body
  | "batchingm" => Drv.BatchServices.handle id hdr body
  | "generator" => Drv.Generator.handle id hdr body
  | "tools" => Drv.Tools.handle id hdr body
  | "core20" => Drv.Core.handle20 id hdr body
  | "coreinv" => Drv.Core.handleInv id hdr body
  | "coredump" => Drv.Core.handleDump id hdr body
  | "optpair" => Drv.Families5.optpair id body
  | "chain" => Drv.Families5.chain id hdr body
  | _ => s!"R {id} CORR=diff SPEC=ok SPECM=ok | unknown mode {mode}"

partial def loop (h : IO.FS.Stream) (cur : Option (String × Nat × List Sexp)) (acc : Array Sexp) : IO Unit := do
  let line ← h.getLine
  if line.isEmpty then return ()
  let t := line.trimAscii.toString
  if t.isEmpty then loop h cur acc else
  match Sexp.parse t with
  | some (.list (.atom "case" :: .atom mode :: idS :: hdr)) =>
    loop h (some (mode, idS.nat?.getD 0, hdr)) #[]
  | some (.list [.atom "end"]) =>
    match cur with
    | some (mode, id, hdr) =>
      IO.println (handleCase mode id hdr acc.toList)
      loop h none #[]
    | none => loop h none #[]
  | some s => loop h cur (acc.push s)
  | none =>
    -- an unparsable line is part of the case (a marker the families refuse), not silently dropped
    IO.println s!"E unparsable line: {t}"
    loop h cur (acc.push (.list [.atom "unparsable"]))

def main : IO Unit := do
  loop (← IO.getStdin) none #[]
