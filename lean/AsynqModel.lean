import AsynqModel.Sexp
import AsynqModel.Lib.Futures
import AsynqModel.Drv.Futures
import AsynqModel.Proofs.Futures
import AsynqModel.Theorems.C10
