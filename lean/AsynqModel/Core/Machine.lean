import AsynqModel.Core.Seq
/-
  The abstract machine: asynq/scheduler.py (`wait_for`, `_execute`, `_handle_async_task`, `_continue_with_task`,
  `_continue_with_batch`, `_select_batch_to_flush`, `_flush_batch`), asynq/async_task.py (`_continue`,
  `_continue_on_generator`, `_accept_yield_result`, `_accept_error`, `_queue_exit`, `_computed`, contexts,
  `unwrap`, `extract_futures`), asynq/batching.py (`flush`, `_compute`, `_computed`) and asynq/contexts.py /
  scoped_value.py, as one small-step transition function over an explicit control stack.

  One `step` is one iteration of the `while` loop of `_execute`, one pass through `wait_for`'s loop head,
  one scheduler flush, or one instruction of a task body (harness/corerun.py `block`).
-/
namespace AsynqModel.Core

structure TaskSt where
  body : Body := .ret 0
  conts : List (Nat × Body) := []   -- open with-blocks, innermost first: context id, continuation after the block
  env : List Val := []
  own : List Nat := []
  inh : List Nat := []
  caught : Option Err := none
  pending : Bool := true            -- suspended at a yield (or not started): `_continue` must unwrap and send
  started : Bool := false
  lastY : RY := .none               -- `_last_value`
  prevY : RY := .none               -- the structure yielded last (the program may yield the same object again)
  prevYRef : Y := .none             -- GHOST: the same structure as written in the program
  deps : List Nat := []             -- `_dependencies` in extract_futures order
  depsSched : Bool := false         -- `_dependencies_scheduled`
  ctxs : List Nat := []             -- `_contexts` in entry order
  ctxActive : Bool := false         -- `_contexts_active`
  resumes : Nat := 0
  creator : Option Nat := none
  deriving Repr, Inhabited

inductive FKind where
  | task
  | item (kind seq payload : Nat) (mode : ItemMode)
  | const
  | errfut
  | lazy (o : LazyOut)
  deriving Repr, DecidableEq, Inhabited

structure Fut where
  kind : FKind := .const
  out : Option Outcome := none
  ts : TaskSt := {}
  den : Outcome := .err .other   -- GHOST: the outcome sequential evaluation gives this future (fixed at creation)
  deriving Repr, Inhabited

structure Batch where
  kind : Nat
  seq : Nat
  items : List Nat := []
  flushed : Bool := false
  deriving Repr, DecidableEq, Inhabited

structure CtxSt where
  kind : CtxKind := .plain
  owner : Option Nat := none   -- the task it registered with (`_active_task` at `__enter__`)
  old : Nat := 0               -- `_old_value` of an override context
  resumed : Bool := false      -- GHOST: resume() was called last (not pause())
  deriving Repr, DecidableEq, Inhabited

inductive Ctl where
  | waitEnter (root : Nat)          -- wait_for(root): at the head of `while not task.is_computed()`
  | waitLoop (root base : Nat)      -- inside `_execute(root)` with init_num_tasks = base
  | gen (t : Nat) (old : Option Nat) -- inside `_continue_with_task(t)`; `old` is the saved active task
  deriving Repr, DecidableEq, Inhabited

structure State where
  cfg : Cfg := {}
  futs : List Fut := []
  batches : List Batch := []
  stack : List Nat := []                -- `_tasks`, head = top
  sbatches : List (Nat × Nat) := []     -- `_batches` (a set): scheduled batches as (kind, seq)
  active : Option Nat := none           -- `active_task`
  ctl : List Ctl := []                  -- the Python call stack, head = innermost
  ctxs : List CtxSt := []
  sv : List (Nat × Nat) := []           -- scoped values touched so far: var ↦ value (default 0)
  trace : List Event := []              -- newest first
  tops : List (Conv × Body) := []       -- computations still to run on this thread
  topIdx : Nat := 0
  curTop : Option Nat := none
  raising : Option Err := none          -- an exception propagating out of `wait_for`
  choices : List (Nat × Nat) := []      -- oracle: which admissible batch the scheduler flushes next
  stuck : Option String := none         -- the model's own assumptions were violated (never on reachable states)
  guardFired : Bool := false            -- GHOST: the MAX_TASK_STACK_SIZE guard has reset the scheduler at least once
  deriving Repr, Inhabited

/-! ### small accessors -/

def State.fut (s : State) (f : Nat) : Fut := s.futs.getD f {}
def State.task (s : State) (t : Nat) : TaskSt := (s.fut t).ts
def State.out (s : State) (f : Nat) : Option Outcome := (s.fut f).out
def State.computed (s : State) (f : Nat) : Bool := (s.out f).isSome
def State.setFut (s : State) (f : Nat) (x : Fut) : State := { s with futs := s.futs.set f x }
def State.updTask (s : State) (t : Nat) (g : TaskSt → TaskSt) : State :=
  let x := s.fut t
  s.setFut t { x with ts := g x.ts }
def State.emit (s : State) (e : Event) : State := { s with trace := e :: s.trace }
def State.fail (s : State) (msg : String) : State := { s with stuck := some msg }

def State.batch? (s : State) (kind seq : Nat) : Option Batch :=
  s.batches.find? (fun b => b.kind == kind && b.seq == seq)
def State.updBatch (s : State) (kind seq : Nat) (g : Batch → Batch) : State :=
  { s with batches := s.batches.map (fun b => if b.kind == kind && b.seq == seq then g b else b) }
/-- the active batch of a kind = the one created last -/
def State.curBatch? (s : State) (kind : Nat) : Option Batch :=
  (s.batches.filter (fun b => b.kind == kind)).getLast?

def State.svGet (s : State) (var : Nat) : Nat := (s.sv.lookup var).getD 0
def State.svSet (s : State) (var val : Nat) : State :=
  if s.sv.any (fun p => p.1 == var) then
    { s with sv := s.sv.map (fun p => if p.1 == var then (var, val) else p) }
  else { s with sv := s.sv ++ [(var, val)] }
def State.svTouch (s : State) (var : Nat) : State :=
  if s.sv.any (fun p => p.1 == var) then s else { s with sv := s.sv ++ [(var, 0)] }

/-! ### futures -/

/-- allocate a future; its number is the creation index -/
def State.alloc (s : State) (x : Fut) (nk : NewKind) : State × Nat :=
  let id := s.futs.length
  ({ s with futs := s.futs ++ [x] }.emit (.new id nk), id)

/-- `set_value` / `set_error` followed by `_computed` (on_computed subscribers: the harness logs `done`) -/
def State.complete (s : State) (f : Nat) (o : Outcome) : State :=
  let x := s.fut f
  let ts := if s.cfg.keepDeps then x.ts else { x.ts with deps := [] }
  (s.setFut f { x with out := some o, ts := { ts with lastY := .none, deps := [] } }).emit (.done f o)

/-! ### contexts -/

def State.ctxSetResumed (s : State) (c : Nat) (r : Bool) : State :=
  match s.ctxs[c]? with
  | some x => { s with ctxs := s.ctxs.set c { x with resumed := r } }
  | none => s

def State.ctxResumeOne (s : State) (c : Nat) : State :=
  let s := (s.emit (.ctx true c)).ctxSetResumed c true
  match s.ctxs[c]? with
  | some x =>
    match x.kind with
    | .override var val =>
      let old := s.svGet var
      { (s.svSet var val) with ctxs := s.ctxs.set c { x with old := old } }
    | _ => s
  | none => s

def State.ctxPauseOne (s : State) (c : Nat) : State :=
  let s := (s.emit (.ctx false c)).ctxSetResumed c false
  match s.ctxs[c]? with
  | some x =>
    match x.kind with
    | .override var _ => s.svSet var x.old
    | _ => s
  | none => s

def State.ctxIsNonAsync (s : State) (c : Nat) : Bool :=
  match s.ctxs[c]? with
  | some x => x.kind == .nonasync
  | none => false

/-- `AsyncContext.__exit__`: leave_context (unregister from the task it registered with), then pause() - unless the
    task's contexts are already paused (the task is being failed while suspended and its generator is closed);
    `NonAsyncContext.__exit__` only unregisters -/
def State.ctxExit (s : State) (c : Nat) : State :=
  let owner : Option Nat := match s.ctxs[c]? with
    | some x => x.owner
    | none => none
  let s := match owner with
    | some o => s.updTask o fun ts => { ts with ctxs := ts.ctxs.erase c }
    | none => s
  let active := match owner with
    | some o => (s.task o).ctxActive
    | none => true
  let s := if s.ctxIsNonAsync c || !active then s else s.ctxPauseOne c
  s.emit (.ctxX c)

/-- leaving every open with-block of task `t`, innermost first (return / result() / exception / generator.close()) -/
def State.exitAll (s : State) (t : Nat) : State :=
  let cs := (s.task t).conts
  (cs.foldl (fun s p => s.ctxExit p.1) s).updTask t fun ts => { ts with conts := [] }

/-- `_accept_error` on a task that is suspended at a yield (an error raised by a context's pause()/resume()):
    set_error → `_computed` closes the generator (its open with-blocks exit) → on_computed -/
def State.failSuspended (s : State) (t : Nat) (e : Err) : State :=
  if s.computed t then s
  else ((s.exitAll t).updTask t fun ts => { ts with pending := false }).complete t (.err e)

/-- `AsyncTask._resume_contexts`: every context is resumed in entry order; the first exception raised fails the task -/
def State.resumeContexts (s : State) (t : Nat) : State :=
  let ts := s.task t
  if ts.ctxActive then s
  else
    let s := s.updTask t fun ts => { ts with ctxActive := true }
    let s := ts.ctxs.foldl (fun s c => if s.ctxIsNonAsync c then s else s.ctxResumeOne c) s
    if ts.ctxs.any s.ctxIsNonAsync then s.failSuspended t .nonasync else s

/-- `AsyncTask._pause_contexts`: every context is paused innermost first; the last exception raised fails the task -/
def State.pauseContexts (s : State) (t : Nat) : State :=
  let ts := s.task t
  if !ts.ctxActive then s
  else
    let s := s.updTask t fun ts => { ts with ctxActive := false }
    let s := ts.ctxs.reverse.foldl (fun s c => if s.ctxIsNonAsync c then s else s.ctxPauseOne c) s
    if ts.ctxs.any s.ctxIsNonAsync then s.failSuspended t .nonasync else s

/-! ### batches -/

/-- `_try_switch_active_batch`: a batch that is still the active one of its kind is replaced by a fresh one -/
def State.switchActive (s : State) (kind seq : Nat) : State :=
  match s.curBatch? kind with
  | some b => if b.seq == seq then { s with batches := s.batches ++ [({ kind := kind, seq := seq + 1 } : Batch)] } else s
  | none => s

/-- the flush body of the harness batch: set every item as its mode says -/
def State.flushItems (s : State) (kind : Nat) : List Nat → State
  | [] => s
  | i :: is =>
    let s' := if s.computed i then s else
      match (s.fut i).kind with
      | .item _ _ payload .ok => s.complete i (.ok (itemVal kind payload))
      | .item _ _ _ (.err e) => s.complete i (.err (.u e))
      | _ => s
    State.flushItems s' kind is

/-- `BatchBase._computed`: every item still uncomputed gets the batch error or the "not set" AssertionError -/
def State.finishItems (s : State) (e : Err) : List Nat → State
  | [] => s
  | i :: is => State.finishItems (if s.computed i then s else s.complete i (.err e)) e is

/-- `BatchBase.flush()` of a pending batch (`_compute`, `_flush`, `_computed`, items.clear()) -/
def State.flushBatch (s : State) (kind seq : Nat) : State :=
  match s.batch? kind seq with
  | none => s.fail "flush of unknown batch"
  | some b =>
    let s := s.switchActive kind seq
    let s := s.emit (.flushI kind seq b.items)
    let s := s.flushItems kind b.items
    let raises := (s.cfg.kind kind).raises
    let s := s.finishItems (if raises then .flushraise kind else .notset) b.items
    let s := s.emit (.bdone kind seq (!raises))
    s.updBatch kind seq fun b => { b with flushed := true, items := if s.cfg.keepDeps then b.items else [] }

def State.batchPrio (s : State) (b : Batch) : Nat × Nat := priority (s.cfg.kind b.kind) b.items.length

def State.pendingOf (s : State) (ids : List (Nat × Nat)) : List PendingB :=
  let l := ids.filterMap fun (k, q) =>
    (s.batch? k q).map fun b => { kind := k, seq := q, n := b.items.length, flushed := b.flushed, prio := s.batchPrio b }
  l.mergeSort (fun a b => a.kind < b.kind || (a.kind == b.kind && a.seq ≤ b.seq))

/-- the scheduled batches `_select_batch_to_flush` keeps: non-empty and not flushed -/
def State.flushable (s : State) : List (Nat × Nat) :=
  s.sbatches.filter fun (k, q) =>
    match s.batch? k q with
    | some b => !b.items.isEmpty && !b.flushed
    | none => false

/-- is `(k, q)` a batch `_select_batch_to_flush` may return: flushable and of maximal priority -/
def State.admissible (s : State) (c : Nat × Nat) : Bool :=
  let fl := s.flushable
  fl.contains c &&
  match s.batch? c.1 c.2 with
  | some b => fl.all fun (k, q) => match s.batch? k q with
    | some b' => !prioLt (s.batchPrio b) (s.batchPrio b')
    | none => true
  | none => false

/-- default choice when the oracle is silent: the first batch of maximal priority -/
def State.defaultChoice (s : State) : Option (Nat × Nat) := s.flushable.find? s.admissible

/-! ### the scheduler -/

def State.popStack (s : State) : State := { s with stack := s.stack.tail }

/-- an exception leaves `wait_for`: the Python frames of the innermost wait are unwound -/
def State.raiseOutOfWait (s : State) (e : Err) : State :=
  { s with ctl := s.ctl.tail, raising := some e }

/-- what follows when the innermost `wait_for` returns normally -/
def State.returnFromWait (s : State) : State := { s with ctl := s.ctl.tail }

/-- `_continue_with_batch` + `_flush_batch` -/
def State.schedulerFlush (s : State) (root : Nat) : State :=
  let fl := s.flushable
  let s := { s with sbatches := fl, ctl := .waitEnter root :: s.ctl.tail }
  if fl.isEmpty then s   -- `_continue_with_batch` returns None; wait_for loops
  else
    let (c?, rest) := match s.choices with
      | c :: cs => (some c, cs)
      | [] => (s.defaultChoice, [])
    match c? with
    | none => s.fail "no admissible batch"
    | some c =>
      if !s.admissible c then s.fail s!"choice-not-allowed ({c.1} {c.2})" else
      match s.batch? c.1 c.2 with
      | none => s.fail "unknown batch"
      | some b =>
        let s := { s with choices := rest, sbatches := fl.erase c }
        let s := s.emit (.flushB c.1 c.2 b.items (s.batchPrio b) (s.pendingOf s.sbatches))
        let s := s.flushBatch c.1 c.2
        s.emit (.flushE c.1 c.2)

/-- `_handle_async_task` for the task on top of the stack -/
def State.handleTask (s : State) (t : Nat) : State :=
  let ts := s.task t
  let blocked := ts.deps.any fun d => !s.computed d
  if blocked then
    if ts.depsSched then
      ((s.updTask t fun ts => { ts with depsSched := false }).pauseContexts t).popStack
    else
      let s := (s.updTask t fun ts => { ts with depsSched := true }).resumeContexts t
      let ds := ts.deps.filter fun d => !s.computed d
      { s with stack := ds.reverse ++ s.stack }
  else if s.ctl.any (fun c => match c with | .gen u _ => u == t | _ => false) then
    -- the real generator would raise "ValueError: generator already executing": outside the model
    s.fail "re-entrant task"
  else
    -- _continue_with_task
    let s := s.resumeContexts t
    { s with ctl := .gen t s.active :: s.ctl, active := some t }

/-- one iteration of the `while` loop of `_execute` (the stack is above `base`) -/
def State.executeIter (s : State) : State :=
  match s.stack with
  | [] => s.fail "empty stack"
  | top :: _ =>
    if s.stack.length > s.cfg.maxStack then
      ({ s with stack := [], sbatches := [], active := none, guardFired := true }).raiseOutOfWait .stackguard
    else if s.computed top then s.popStack
    else match (s.fut top).kind with
      | .task => s.handleTask top
      | .item kind seq _ _ =>
        let s := match s.batch? kind seq with
          | some b => if b.flushed || s.sbatches.contains (kind, seq) then s
                      else { s with sbatches := s.sbatches ++ [(kind, seq)] }
          | none => s
        s.popStack
      | .lazy o => (s.complete top (lazyOutcome o)).popStack
      | _ => s.fail "uncomputed constant future"

/-! ### running a task body -/

def TaskSt.resolve (ts : TaskSt) : Ref → Nat
  | .own i => ts.own.getD i 0
  | .inh j => ts.inh.getD j 0

/-- `_continue_with_task` returns: restore the active task, reset the scheduled flag -/
def State.leaveGen (s : State) (t : Nat) (old : Option Nat) : State :=
  { (s.updTask t fun ts => { ts with depsSched := false }) with ctl := s.ctl.tail, active := old }

/-- the task finishes (return / result() / uncaught exception): leave open with-blocks, store the outcome -/
def State.finishTask (s : State) (t : Nat) (old : Option Nat) (o : Outcome) : State :=
  if s.computed t then s.fail "task completed twice"   -- `_queue_exit` would raise FutureIsAlreadyComputed
  else (((s.exitAll t).updTask t fun ts => { ts with pending := false }).complete t o).leaveGen t old

def State.newTask (s : State) (child : Body) (inh : List Nat) : State × Nat :=
  let den := (evalBody s.cfg child [] [] (inh.map fun i => (s.fut i).den) none .none).outcome
  s.alloc { kind := .task, ts := { body := child, inh := inh, creator := s.active }, den := den } (.task s.active)

/-- one instruction of the body of task `t` (or the `unwrap`-and-send at the head of `_continue`) -/
def State.genStep (s : State) (t : Nat) (old : Option Nat) : State :=
  let ts := s.task t
  if ts.pending then
    -- head of the `while True` in `_continue`: unwrap the last yielded value and send / throw it
    if !ts.started then
      (s.updTask t fun ts => { ts with pending := false, started := true, lastY := .none, deps := [] }).emit
        (.run t 0 true .start)
    else
      let r := unwrap s.out ts.lastY
      let dc := ts.lastY.leaves.all s.computed
      let i := ts.resumes + 1
      match ts.body, r with
      | .yld _ k _, .ok v =>
        (s.updTask t fun ts => { ts with pending := false, lastY := .none, deps := if s.cfg.keepDeps then ts.deps else [],
                                         resumes := i, env := ts.env ++ [v], body := k }).emit (.run t i dc (.out (.ok v)))
      | .yld _ _ h, .error e =>
        (s.updTask t fun ts => { ts with pending := false, lastY := .none, deps := if s.cfg.keepDeps then ts.deps else [],
                                         resumes := i, caught := some e, body := h }).emit (.run t i dc (.out (.err e)))
      | .reyld k _, .ok v =>
        (s.updTask t fun ts => { ts with pending := false, lastY := .none, deps := if s.cfg.keepDeps then ts.deps else [],
                                         resumes := i, env := ts.env ++ [v], body := k }).emit (.run t i dc (.out (.ok v)))
      | .reyld _ h, .error e =>
        (s.updTask t fun ts => { ts with pending := false, lastY := .none, deps := if s.cfg.keepDeps then ts.deps else [],
                                         resumes := i, caught := some e, body := h }).emit (.run t i dc (.out (.err e)))
      | _, _ => s.fail "suspended task is not at a yield"
  else
  match ts.body with
  | .ret tag => s.finishTask t old (.ok (.node tag ts.env))
  | .res tag => s.finishTask t old (.ok (.node tag ts.env))
  | .raise e => s.finishTask t old (.err (.u e))
  | .reraise => s.finishTask t old (.err (ts.caught.getD (.u 0)))
  | .spawn child pass k =>
    let (s, f) := s.newTask child (pass.map ts.resolve)
    s.updTask t fun ts => { ts with own := ts.own ++ [f], body := k }
  | .item kind payload mode k =>
    let s := match s.curBatch? kind with
      | some _ => s
      | none => { s with batches := s.batches ++ [({ kind := kind, seq := 0 } : Batch)] }
    match s.curBatch? kind with
    | none => s.fail "no batch"
    | some b =>
      let (s, f) := s.alloc { kind := .item kind b.seq payload mode, den := itemOutcome s.cfg kind payload mode } (.item kind b.seq b.items.length payload mode)
      let s := s.updBatch kind b.seq fun b => { b with items := b.items ++ [f] }
      s.updTask t fun ts => { ts with own := ts.own ++ [f], body := k }
  | .const v k =>
    let (s, f) := s.alloc { kind := .const, out := some (.ok (.a v)), den := .ok (.a v) } (.const v)
    s.updTask t fun ts => { ts with own := ts.own ++ [f], body := k }
  | .errfut e k =>
    let (s, f) := s.alloc { kind := .errfut, out := some (.err (.u e)), den := .err (.u e) } (.errfut e)
    s.updTask t fun ts => { ts with own := ts.own ++ [f], body := k }
  | .lazy o k =>
    let (s, f) := s.alloc { kind := .lazy o, den := lazyOutcome o } .lazy
    s.updTask t fun ts => { ts with own := ts.own ++ [f], body := k }
  | .yld y _ _ =>
    let ry : RY := y.mapLeaves ts.resolve
    let deps := (if s.cfg.keepDeps then ts.deps else []) ++ extractFutures ry
    let s := (s.emit (.yield t ts.resumes ry)).updTask t fun ts =>
      { ts with pending := true, lastY := ry, prevY := ry, prevYRef := y, deps := deps }
    if deps.isEmpty then s else s.leaveGen t old
  | .reyld _ _ =>
    let ry := ts.prevY
    let deps := (if s.cfg.keepDeps then ts.deps else []) ++ extractFutures ry
    let s := (s.emit (.yield t ts.resumes ry)).updTask t fun ts =>
      { ts with pending := true, lastY := ry, deps := deps }
    if deps.isEmpty then s else s.leaveGen t old
  | .sync child pass k h =>
    let (s, f) := s.newTask child (pass.map ts.resolve)
    let s := (s.updTask t fun ts => { ts with own := ts.own ++ [f], body := .syncret f k h }).emit (.syncE t f)
    { s with ctl := .waitEnter f :: s.ctl }
  | .syncfut r k h =>
    let f := ts.resolve r
    let s := (s.updTask t fun ts => { ts with body := .syncret f k h }).emit (.syncE t f)
    if s.computed f then s else
    match (s.fut f).kind with
    | .task => { s with ctl := .waitEnter f :: s.ctl }
    | .item kind seq _ _ =>   -- BatchItemBase._compute: flush the batch directly (no scheduler events)
      match s.batch? kind seq with
      | some b => if b.flushed then s else s.flushBatch kind seq
      | none => s
    | .lazy o => s.complete f (lazyOutcome o)
    | _ => s
  | .syncret f k h =>
    let o : Option Outcome := match s.raising with
      | some e => some (.err e)
      | none => s.out f
    match o with
    | none => s.fail "value() returned without an outcome"
    | some (.ok v) =>
      ({ s with raising := none }.updTask t fun ts => { ts with env := ts.env ++ [v], body := k }).emit (.syncX t f (.ok v))
    | some (.err e) =>
      ({ s with raising := none }.updTask t fun ts => { ts with caught := some e, body := h }).emit (.syncX t f (.err e))
  | .withCtx c b k =>
    let cid := s.ctxs.length
    let s := match c with | .override var _ => s.svTouch var | _ => s
    let s := s.emit (.ctxN cid t c)
    let s := { s with ctxs := s.ctxs ++ [({ kind := c, owner := s.active } : CtxSt)] }
    -- enter_context registers with the scheduler's active task
    let s := match s.active with
      | some a => s.updTask a fun ts => { ts with ctxs := ts.ctxs ++ [cid] }
      | none => s
    let s := if c == .nonasync then s else s.ctxResumeOne cid   -- AsyncContext.__enter__ calls resume()
    s.updTask t fun ts => { ts with conts := (cid, k) :: ts.conts, body := b }
  | .endwith =>
    match ts.conts with
    | [] => s.finishTask t old (.ok .none)    -- falling off the end of the body: returns None
    | (cid, k) :: rest => (s.ctxExit cid).updTask t fun ts => { ts with conts := rest, body := k }
  | .read var k =>
    let s := s.svTouch var
    (s.emit (.read t var (.a (s.svGet var)))).updTask t fun ts => { ts with body := k }
  | .active k =>
    (s.emit (.active t s.active)).updTask t fun ts => { ts with body := k }

/-! ### the transition function -/

/-- end of a top-level computation: what the caller of `value()` / `fn()` observes -/
def State.finishTop (s : State) (f : Nat) : State :=
  let o : Outcome := match s.raising with
    | some e => .err e
    | none => (s.out f).getD (.err .other)
  let s := { s with raising := none, curTop := none }
  let s := s.emit (.ret o)
  let s := s.emit (.sched true s.stack.length s.sbatches.length s.flushable.length s.active)
  s.emit (.svals ((s.sv.mergeSort fun a b => a.1 ≤ b.1).map fun p => (p.1, Val.a p.2)))

def State.isDone (s : State) : Bool := s.stuck.isSome || (s.ctl.isEmpty && s.curTop.isNone && s.tops.isEmpty)

def step (s : State) : State :=
  if s.stuck.isSome then s else
  match s.ctl with
  | [] =>
    match s.curTop with
    | some f => s.finishTop f
    | none =>
      match s.tops with
      | [] => s
      | (conv, body) :: rest =>
        let s := ({ s with tops := rest, topIdx := s.topIdx + 1 } : State).emit (.top s.topIdx conv)
        let (s, f) := s.newTask body []
        { s with curTop := some f, ctl := [.waitEnter f] }
  | .waitEnter root :: _ =>
    if s.raising.isSome then s.raiseOutOfWait (s.raising.getD .other)
    else if s.computed root then s.returnFromWait
    else { s with ctl := .waitLoop root s.stack.length :: s.ctl.tail, stack := root :: s.stack }
  | .waitLoop root base :: _ =>
    if s.raising.isSome then s.raiseOutOfWait (s.raising.getD .other)
    else if s.stack.length > base then s.executeIter
    else if s.computed root then s.returnFromWait
    else s.schedulerFlush root
  | .gen t old :: _ =>
    if s.raising.isSome && !(match (s.task t).body with | .syncret _ _ _ => !(s.task t).pending | _ => false) then
      s.fail "exception reached a generator that is not in a synchronous call"
    else s.genStep t old

def runFuel : Nat → State → State
  | 0, s => s
  | n + 1, s => if s.isDone then s else runFuel n (step s)

def initState (cfg : Cfg) (tops : List (Conv × Body)) (choices : List (Nat × Nat)) : State :=
  { cfg := cfg, tops := tops, choices := choices }

end AsynqModel.Core
